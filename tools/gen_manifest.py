#!/usr/bin/env python3
"""Regenerates MANIFEST.json from the component registry (tools/components/*.py) and properties.jsonl."""
import json
import os
import sys

sys.path.insert(0, os.path.dirname(os.path.abspath(__file__)))
import check  # noqa: E402
import lib  # noqa: E402

NOT_YET = "machinery for this property is not merged yet at this commit (see DESIGN.md section 6 for the planned proof)"


def main():
    props = [json.loads(l) for l in open(os.path.join(lib.VERIF, "properties.jsonl"))]
    reg = check.load_components()
    checks, na = [], []
    for p in props:
        pid = p["id"]
        if pid in reg:
            mod, spec = reg[pid]
            checks.append({
                "property_id": pid,
                "quick_cmd": "python3 tools/check.py %s --tier quick" % pid,
                "thorough_cmd": "python3 tools/check.py %s --tier thorough" % pid,
                "evidence_file": "/verif/evidence/%s.json" % pid,
                "replay_cmd_template": "python3 tools/check.py %s --replay {path}" % pid,
                "engine": "lean-model",
                "level_claimed": {"category": "proof", "text": spec["level_text"], "design_ref": "DESIGN.md " + spec.get("design_ref", "6")},
                "level_note": spec["level_note"],
                "technique": spec["technique"],
            })
        else:
            na.append({"property_id": pid, "reason": NOT_YET})
    m = {
        "version": 1,
        "setup_cmd": "bash tools/setup.sh",
        "hooks": {"guard": "TULZ_VERIF",
                  "enable": "no hook is needed: harnesses compile /repo sources directly (threaded code through harness/sched/remap.h); TULZ_VERIF is never defined",
                  "baseline_off_cmd": "bash tools/baseline.sh", "source_commits": [], "add_only": True},
        "engines": [{"name": "lean-model", "path": "lean", "serves_properties": [c["property_id"] for c in checks],
                     "kind_free_text": "Lean 4 models + theorems (lake project) + compiled line-protocol driver tulzdrv; tools/check.py orchestrates proof audit, harness build, correspondence, failing-input search"}],
        "checks": checks,
        "not_applicable": na,
        "notes": "Every check: python3 tools/check.py <id> --tier quick|thorough (VERIF_SEED, VERIF_TIER, TULZ_REPO honoured). known_findings.txt lists fixed defects.",
    }
    with open(os.path.join(lib.VERIF, "MANIFEST.json"), "w") as f:
        json.dump(m, f, indent=1)
    print("claimed:", [c["property_id"] for c in checks])


if __name__ == "__main__":
    main()
