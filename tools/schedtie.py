"""Running scheduler-based harnesses (harness/sched): batches of `run …` lines, one execution each.

An execution's output is its event lines followed by `end <status>`.  The harness process exits after a
deadlock/hang/abort (its threads cannot be unwound); the batch is then resumed with the remaining lines.
"""
import os
import subprocess

import lib

SCHED_FLAGS = ["-include", os.path.join(lib.VERIF, "harness/sched/remap.h")]


class Run:
    def __init__(self, line):
        self.line = line
        self.events = []
        self.status = None      # ok | deadlock | hang | abort
        self.stderr = ""
        self.points = []        # (chosen, [enabled]) for `pt` lines when requested

    def choices(self):
        return [c for c, _ in self.points]


def build(name, harness_src, repo_sources, deps=()):
    return lib.build_harness(name, [harness_src], extra_flags=SCHED_FLAGS, repo_sources=repo_sources,
                             deps=["harness/sched/sched.h", "harness/sched/remap.h", "harness/painted.h"] + list(deps))


def _text(x):
    if x is None:
        return ""
    return x.decode("utf-8", "replace") if isinstance(x, (bytes, bytearray)) else x


def run_batch(binary, lines, timeout=900, max_restarts=40, chunk=1500, _single=False):
    """returns list of Run (same order as lines); runs not executed because of too many crashes have status None.
    The lines are fed to the harness in chunks (one process per chunk, `timeout` seconds each).  A chunk that does not finish in
    time is cut at the execution in progress: that execution is run once more on its own (a loaded machine is not a hang); if it
    does not finish either its status is `hang`."""
    runs = [Run(l) for l in lines]
    start = 0
    restarts = 0
    env = dict(os.environ)
    env.update(lib.ASAN_ENV)
    while start < len(runs) and restarts <= max_restarts:
        stop = min(len(runs), start + chunk)
        timed_out = False
        try:
            p = subprocess.run([binary], input="\n".join(r.line for r in runs[start:stop]) + "\n", stdout=subprocess.PIPE,
                               stderr=subprocess.PIPE, text=True, timeout=timeout, env=env)
            stdout, stderr, rc = p.stdout, p.stderr, p.returncode
        except subprocess.TimeoutExpired as e:
            stdout, stderr, rc, timed_out = _text(e.stdout), _text(e.stderr), -9, True
        out = stdout.split("\n")
        if timed_out and out and not out[-1].endswith("\n"):
            out = out[:-1]          # a partial last line
        k = start
        cur = runs[k] if k < stop else None
        ended = True
        for l in out:
            if cur is None:
                break
            if l == "":
                continue
            ended = False
            if l.startswith("end "):
                cur.status = l[4:].strip()
                ended = True
                k += 1
                cur = runs[k] if k < stop else None
            elif l.startswith("pt ") or l.startswith("pw "):
                t = l.split()
                try:
                    cur.points.append((int(t[1]), [int(x) for x in t[3:]]))
                except (ValueError, IndexError):
                    continue
                if l.startswith("pw "):
                    cur.events.append(l)
            else:
                cur.events.append(l)
        if timed_out and cur is not None:
            # the execution in progress when the time ran out: once more, alone
            if _single:
                cur.status = "hang"
                cur.stderr = "no `end` line within %d s" % timeout
            else:
                again = run_batch(binary, [cur.line], timeout=max(120, timeout // 4), max_restarts=0, chunk=1, _single=True)[0]
                if again.status is None:
                    again.status = "hang"
                    again.stderr = "no `end` line within %d s" % max(120, timeout // 4)
                runs[k] = again
            k += 1
            restarts += 1
        elif cur is not None and not ended:
            # the process died inside run k (crash, sanitizer abort, library assertion)
            if cur.status is None:
                cur.status = "abort"
                err = stderr
                cur.stderr = err if len(err) < 3000 else err[:1500] + "\n...\n" + err[-1500:]
                k += 1
            restarts += 1
        elif k < stop and rc != 0:
            # the process exited right after a completed run (deadlock / hang exit): resume with the next run
            restarts += 1
        elif k < stop:
            # process ended cleanly but lines remain (should not happen)
            runs[k].status = "abort"
            runs[k].stderr = "harness stopped reading input"
            k += 1
            restarts += 1
        start = k
    return runs


def dfs(binary, mk_line, budget, preempt_bound):
    """stateless exhaustive exploration of schedules: mk_line(prefix) -> `run … sched <prefix> pts`.
    Explores every schedule that differs from an explored one at one scheduling point, breadth first,
    with at most `preempt_bound` preemptions (switching away from a thread that could have continued).
    returns (runs, complete?)"""
    seen = set()
    frontier = [()]
    all_runs = []
    complete = True
    while frontier:
        if len(all_runs) + len(frontier) > budget:
            frontier = frontier[:max(0, budget - len(all_runs))]
            complete = False
            if not frontier:
                break
        runs = run_batch(binary, [mk_line(list(p)) for p in frontier])
        nxt = []
        for pref, r in zip(frontier, runs):
            all_runs.append(r)
            ch = r.choices()
            # count preemptions along the executed schedule
            for idx in range(len(pref), len(r.points)):
                chosen, en = r.points[idx]
                for alt in en:
                    if alt == chosen:
                        continue
                    cand = tuple(ch[:idx]) + (alt,)
                    if cand in seen:
                        continue
                    if preemptions(r.points[:idx] + [(alt, en)]) > preempt_bound:
                        continue
                    seen.add(cand)
                    nxt.append(cand)
        frontier = nxt
    return all_runs, complete


def preemptions(points):
    n = 0
    prev = None
    for chosen, en in points:
        if prev is not None and chosen != prev and prev in en:
            n += 1
        prev = chosen
    return n
