#!/usr/bin/env python3
"""Rewrites the generated tables of DESIGN.md section 0 (between <!-- BEGIN:x --> / <!-- END:x --> markers)
from known_findings.txt, seeded/*/meta.json and the component registry."""
import json
import os
import re
import sys

sys.path.insert(0, os.path.dirname(os.path.abspath(__file__)))
import check  # noqa: E402
import lib  # noqa: E402


def findings():
    rows = ["| Property | /repo commit | What failed (replay in `known_findings.txt`) |", "|---|---|---|"]
    for f in lib.known_findings()["fixed"]:
        rows.append("| %s | %s | %s |" % (f["property"], f["commit"], f["text"].replace("|", "\\|")))
    return "\n".join(rows)


def seeds():
    rows = ["| Seed (`seeded/<dir>`) | Breaks | What it does / needs | Caught by | Missed by (before strengthening) |", "|---|---|---|---|---|"]
    d = os.path.join(lib.VERIF, "seeded")
    for name in sorted(os.listdir(d)):
        mp = os.path.join(d, name, "meta.json")
        if not os.path.exists(mp):
            continue
        m = json.load(open(mp))
        vr = m.get("verification_run", {})
        rows.append("| `%s` | %s | %s — needs: %s | %s | %s |" % (
            name, m.get("property", "?"), str(m.get("summary", ""))[:220].replace("|", "\\|").replace("\n", " "),
            str(m.get("needs", ""))[:200].replace("|", "\\|").replace("\n", " "),
            "; ".join(vr.get("caught_by", [])).replace("|", "\\|"), "; ".join(vr.get("missed_by", [])).replace("|", "\\|") or "—"))
    return "\n".join(rows)


def props():
    reg = check.load_components()
    rows = ["| Id | Lean modules | # theorems | Component (`tools/components/`) | Deciding technique |", "|---|---|---|---|---|"]
    for pid in sorted(reg):
        mod, spec = reg[pid]
        rows.append("| %s | %s | %d | %s | %s |" % (pid, ", ".join("`%s`" % m for m in spec["lean_modules"]), len(spec["theorems"]),
                                                  mod.__name__.split(".")[-1], spec.get("technique", "").replace("|", "\\|")))
    return "\n".join(rows)


def main():
    p = os.path.join(lib.VERIF, "DESIGN.md")
    s = open(p).read()
    for key, fn in (("findings", findings), ("seeds", seeds), ("props", props)):
        pat = re.compile(r"(<!-- BEGIN:%s -->\n).*?(<!-- END:%s -->)" % (key, key), re.S)
        if not pat.search(s):
            print("marker missing:", key)
            continue
        s = pat.sub(lambda m: m.group(1) + fn() + "\n" + m.group(2), s)
    open(p, "w").write(s)


if __name__ == "__main__":
    main()
