#!/bin/bash
# MANIFEST.setup_cmd.  Regenerates every translator output from the repository under test, then builds the Lean library and
# the model driver.  It never fails because of what the repository looks like: a translator that fails closed, or a generated
# table that breaks a proof, is a finding of the per-property check (which re-runs its translator and `lake build` of its own
# modules and reports VIOLATION … no-failing-input-found), not a reason to run no check at all.
cd "$(dirname "$0")/.." || exit 1
python3 tools/translate_all.py || echo "setup: a translator failed; the check of the property it serves reports it"
cd lean || exit 1
if ! lake build Tulz tulzdrv; then
    echo "setup: full build failed (a regenerated table may break a proof obligation: reported by that property's check);"
    echo "setup: building the model driver and every module that still builds"
    lake build tulzdrv || echo "setup: driver does not build; the checks will report it"
fi
exit 0
