#!/usr/bin/env python3
"""False-alarm self-test: applies every behaviour-preserving refactoring in benign/*.diff (written by an independent
sub-agent that saw nothing of /verif) to a scratch worktree of /repo and runs the quick checks of the properties
anchored in the touched files.  Any VIOLATION line is an alarm on code where the property still holds."""
import json
import os
import shutil
import subprocess
import sys
import tempfile

VERIF = os.path.dirname(os.path.dirname(os.path.abspath(__file__)))

TOUCH = {
    "RingBuffer.h": ["C04", "C09"], "RandomAccessIndexIterator.h": ["C04", "C14"], "Array.h": ["C14", "C17"], "Resource": ["C01", "C02", "C03", "C12", "C11", "C15"],
    "ThreadPool": ["C07", "C08", "C15"], "Thread.h": ["C20", "C07", "C08", "C15"], "Thread.cpp": ["C20", "C07", "C08", "C15"],
    "ConcurrentSubjectRouter.h": ["C11", "C15", "C06", "C13"], "SubjectRouter": ["C06", "C13", "C11", "C15"],
    "Subject.h": ["C05", "C10", "C16", "C06", "C13", "C15"], "Observable.h": ["C16"], "LocaleInfo.cpp": ["C19"],
    "Path.cpp": ["C18", "C17"], "DirectoryVisitor.cpp": ["C18"], "File.cpp": ["C17"],
}


def main():
    d = os.path.join(VERIF, "benign")
    names = sys.argv[1:] or sorted(f for f in os.listdir(d) if f.endswith(".diff"))
    wt = tempfile.mkdtemp(prefix="tulz-benignwt.", dir="/var/tmp")
    ev = tempfile.mkdtemp(prefix="tulz-benignev.", dir="/var/tmp")
    os.rmdir(wt)
    # a private copy of the Lake project: the translators of the checks below write their tables there, never into /verif/lean
    lean_copy = tempfile.mkdtemp(prefix="tulz-lean-selftest.", dir="/var/tmp")
    subprocess.run(["rsync", "-a", os.path.join(VERIF, "lean") + "/", lean_copy + "/"], check=True)
    subprocess.run(["git", "-C", "/repo", "worktree", "add", "-q", wt, "HEAD"], check=True)
    alarms = 0
    try:
        for n in names:
            subprocess.run(["git", "-C", wt, "checkout", "-q", "--", "."], check=True)
            subprocess.run(["git", "-C", wt, "clean", "-fdq"], check=True)
            r = subprocess.run(["git", "-C", wt, "apply", os.path.join(d, n)], capture_output=True, text=True)
            if r.returncode != 0:
                print(n, "PATCH DOES NOT APPLY:", r.stderr.strip()[:150], flush=True)
                continue
            touched = subprocess.run(["git", "-C", wt, "diff", "--name-only"], capture_output=True, text=True).stdout.split()
            props = []
            for t in touched:
                for k, v in TOUCH.items():
                    if k in t:
                        props += [p for p in v if p not in props]
            env = dict(os.environ, TULZ_REPO=wt, VERIF_EVIDENCE_DIR=ev, VERIF_LEAN_DIR=lean_copy)
            for p in props:
                out = subprocess.run([sys.executable, os.path.join(VERIF, "tools", "check.py"), p], cwd=VERIF, env=env, capture_output=True, text=True).stdout
                lines = out.split("\n")
                viol = [i for i, l in enumerate(lines) if l.startswith("VIOLATION")]
                if viol:
                    alarms += 1
                    print("%s %s ALARM: %s | %s" % (n, p, lines[viol[0]][:120], (lines[viol[0] + 1] if viol[0] + 1 < len(lines) else "")[:220]), flush=True)
                else:
                    print("%s %s quiet" % (n, p), flush=True)
    finally:
        subprocess.run(["git", "-C", "/repo", "worktree", "remove", "--force", wt])
        shutil.rmtree(ev, ignore_errors=True)
        shutil.rmtree(lean_copy, ignore_errors=True)
    print("alarms on benign refactorings: %d" % alarms)
    return 1 if alarms else 0


if __name__ == "__main__":
    sys.exit(main())
