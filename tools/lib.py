"""Shared machinery for the tulz checks: Lean build + axiom audit, harness build cache,
line-protocol runners, known-findings file, evidence writer, reporting."""
import fcntl
import hashlib
import json
import os
import re
import subprocess
import sys
import time

VERIF = os.path.dirname(os.path.dirname(os.path.abspath(__file__)))
# VERIF_LEAN_DIR: a private copy of the Lake project (used by the self-tests tools/run_seeds.py and tools/run_benign.py, which
# point the translators at scratch worktrees and must not overwrite lean/Tulz/Generated of the registered checks)
LEAN_DIR = os.environ.get("VERIF_LEAN_DIR") or os.path.join(VERIF, "lean")
BUILD = os.path.join(VERIF, "build")
EVID = os.environ.get("VERIF_EVIDENCE_DIR", os.path.join(VERIF, "evidence"))
REPLAYS = os.path.join(EVID, "replays")
REPO = os.environ.get("TULZ_REPO", "/repo")
DRV = os.path.join(LEAN_DIR, ".lake", "build", "bin", "tulzdrv")

ALLOWED_AXIOMS = {"propext", "Classical.choice", "Quot.sound"}
FORBIDDEN = re.compile(r"\b(sorry|admit|native_decide|bv_decide|implemented_by|unsafe)\b|^\s*axiom\s|maxHeartbeats\s+0")

BASE_TRUSTED = [
    "Lean 4.33.0 kernel (leanchecker re-check in the thorough tier)",
    "axioms: subset of {propext, Classical.choice, Quot.sound}; no native_decide, no bv_decide, no sorry, no own axioms (audited on every run)",
    "hand-written Lean model of the C++ (tied to /repo by the correspondence check of this run)",
    "my harness, generators, canonicalisers and (for threaded code) controlled scheduler",
]


class SplitMix:
    """all random choices derive from one splitmix64 state seeded by VERIF_SEED"""

    def __init__(self, seed):
        self.s = seed & 0xFFFFFFFFFFFFFFFF

    def next(self):
        self.s = (self.s + 0x9E3779B97F4A7C15) & 0xFFFFFFFFFFFFFFFF
        z = self.s
        z = ((z ^ (z >> 30)) * 0xBF58476D1CE4E5B9) & 0xFFFFFFFFFFFFFFFF
        z = ((z ^ (z >> 27)) * 0x94D049BB133111EB) & 0xFFFFFFFFFFFFFFFF
        return z ^ (z >> 31)

    def below(self, n):
        return self.next() % n

    def chance(self, num, den):
        return self.below(den) < num

    def pick(self, seq):
        return seq[self.below(len(seq))]

    def fork(self, tag):
        h = hashlib.sha256(("%d/%s" % (self.s, tag)).encode()).digest()
        return SplitMix(int.from_bytes(h[:8], "little"))


def seed():
    try:
        return int(os.environ.get("VERIF_SEED", "1"))
    except ValueError:
        return 1


def sh(cmd, cwd=None, timeout=None, env=None, input=None):
    p = subprocess.run(cmd, cwd=cwd, timeout=timeout, env=env, input=input,
                       stdout=subprocess.PIPE, stderr=subprocess.STDOUT, text=True)
    return p.returncode, p.stdout


class LakeLock:
    def __enter__(self):
        os.makedirs(BUILD, exist_ok=True)
        self.f = open(os.path.join(BUILD, "lake.lock" if LEAN_DIR == os.path.join(VERIF, "lean") else "lake-selftest.lock"), "w")
        fcntl.flock(self.f, fcntl.LOCK_EX)
        return self

    def __exit__(self, *a):
        fcntl.flock(self.f, fcntl.LOCK_UN)
        self.f.close()


def lake_build(targets):
    """returns (ok, output)"""
    with LakeLock():
        rc, out = sh(["lake", "build"] + list(targets), cwd=LEAN_DIR, timeout=3600)
    return rc == 0, out


def strip_lean_comments(src):
    out = []
    i, n, depth = 0, len(src), 0
    while i < n:
        if src.startswith("/-", i):
            depth += 1
            i += 2
        elif depth and src.startswith("-/", i):
            depth -= 1
            i += 2
        elif depth:
            if src[i] == "\n":
                out.append("\n")
            i += 1
        elif src.startswith("--", i):
            while i < n and src[i] != "\n":
                i += 1
        elif src[i] == '"':
            j = i + 1
            while j < n and src[j] != '"':
                j += 2 if src[j] == "\\" else 1
            out.append('""')
            i = j + 1
        else:
            out.append(src[i])
            i += 1
    return "".join(out)


def lean_sources():
    res = []
    for root, dirs, files in os.walk(LEAN_DIR):
        dirs[:] = [d for d in dirs if d not in (".lake",)]
        for f in files:
            if f.endswith(".lean"):
                res.append(os.path.join(root, f))
    return sorted(res)


def grep_forbidden():
    hits = []
    for p in lean_sources():
        src = strip_lean_comments(open(p).read())
        for ln, line in enumerate(src.split("\n"), 1):
            if FORBIDDEN.search(line):
                hits.append("%s:%d: %s" % (os.path.relpath(p, VERIF), ln, line.strip()))
    return hits


def audit(prop, modules, theorems, accept=False):
    """`#print axioms` for every registered theorem; returns dict name -> (ok, axioms or message).
    The pretty-printed *statement* of every theorem (`#check`) is also compared with the committed
    tools/statements/<prop>.txt so that a theorem cannot be weakened quietly: a changed statement fails the
    obligation until the file is updated deliberately (check.py --accept-statements)."""
    os.makedirs(os.path.join(BUILD, "audit"), exist_ok=True)
    path = os.path.join(BUILD, "audit", "%s_%d.lean" % (prop, os.getpid()))
    with open(path, "w") as f:
        for m in modules:
            f.write("import %s\n" % m)
        f.write("set_option pp.proofs false\nset_option linter.all false\n")
        for t in theorems:
            f.write("#print axioms %s\n" % t)
        for t in theorems:
            f.write('#eval IO.println "@@STMT %s"\n#check @%s\n' % (t, t))
    with LakeLock():
        rc, out = sh(["lake", "env", "lean", path], cwd=LEAN_DIR, timeout=1800)
    os.unlink(path)
    res = {}
    # output: "'Name' depends on axioms: [a, b]" (possibly wrapped) or "'Name' does not depend on any axioms"
    head = out.split("@@STMT")[0]
    flat = re.sub(r"\s+", " ", head)
    stmts = {}
    for chunk in out.split("@@STMT ")[1:]:
        name, _, body = chunk.partition("\n")
        stmts[name.strip()] = re.sub(r"\s+", " ", body).strip()
    spath = os.path.join(VERIF, "tools", "statements", "%s.txt" % prop)
    known = {}
    if os.path.exists(spath):
        for line in open(spath):
            if "\t" in line:
                k, v = line.rstrip("\n").split("\t", 1)
                known[k] = v
    if accept or not known:
        os.makedirs(os.path.dirname(spath), exist_ok=True)
        with open(spath, "w") as f:
            for t in theorems:
                f.write("%s\t%s\n" % (t, stmts.get(t, "")))
        known = {t: stmts.get(t, "") for t in theorems}
    for t in theorems:
        m = re.search(r"'%s' depends on axioms: \[([^\]]*)\]" % re.escape(t), flat)
        if m:
            ax = [a.strip() for a in m.group(1).split(",") if a.strip()]
            bad = [a for a in ax if a not in ALLOWED_AXIOMS]
            res[t] = (not bad, ax)
        elif re.search(r"'%s' does not depend on any axioms" % re.escape(t), flat):
            res[t] = (True, [])
        else:
            res[t] = (False, "not found in the built environment: " + out[-400:])
            continue
        if res[t][0] and t in known and stmts.get(t) != known[t]:
            res[t] = (False, "statement differs from tools/statements/%s.txt (was: %s | now: %s)" % (prop, known[t][:300], stmts.get(t, "")[:300]))
        elif res[t][0] and t not in known:
            res[t] = (False, "no committed statement for this theorem in tools/statements/%s.txt (run check.py %s --accept-statements)" % (prop, prop))
    return res


def leanchecker(module):
    with LakeLock():
        rc, out = sh(["lake", "env", "leanchecker", module], cwd=LEAN_DIR, timeout=3600)
    return rc == 0, out[-2000:]


def repo_hash(paths=("include", "src")):
    h = hashlib.sha256()
    for top in paths:
        for root, dirs, files in os.walk(os.path.join(REPO, top)):
            dirs.sort()
            for f in sorted(files):
                p = os.path.join(root, f)
                h.update(os.path.relpath(p, REPO).encode())
                with open(p, "rb") as fh:
                    h.update(fh.read())
    return h.hexdigest()


def file_hash(paths):
    h = hashlib.sha256()
    for p in paths:
        h.update(p.encode())
        with open(p, "rb") as fh:
            h.update(fh.read())
    return h.hexdigest()


SAN_FLAGS = ["-std=c++20", "-O1", "-g", "-fsanitize=address,undefined", "-fno-sanitize=vptr",
             "-fno-sanitize-recover=all", "-fno-omit-frame-pointer",
             # keep the stores a destructor makes into the dying object (tracked elements mark themselves DEAD there);
             # GCC would otherwise remove them and a use-after-destruction would read the old, valid-looking value
             "-fno-lifetime-dse"]


def build_harness(name, sources, extra_flags=(), repo_sources=(), deps=(), flags=None):
    """compile harness `sources` (+ repo .cpp files, relative to REPO) against REPO/include.
    Cached by content hash of the repo tree, the harness sources and the flags.
    returns (path or None, compiler output)"""
    flags = list(SAN_FLAGS if flags is None else flags) + list(extra_flags)
    srcs = [os.path.join(VERIF, s) for s in sources]
    rsrcs = [os.path.join(REPO, s) for s in repo_sources]
    hdeps = [os.path.join(VERIF, d) for d in list(deps) + ["harness/painted.h"] if os.path.exists(os.path.join(VERIF, d))]
    key = hashlib.sha256((repo_hash() + file_hash(srcs + hdeps) + " ".join(flags) + REPO).encode()).hexdigest()[:16]
    os.makedirs(BUILD, exist_ok=True)
    out = os.path.join(BUILD, "%s-%s" % (name, key))
    if os.path.exists(out):
        return out, "cached"
    # drop stale binaries of the same harness — but only old ones: another check may be running right now against a
    # different tree (TULZ_REPO) and still need its own build
    now = time.time()
    for f in os.listdir(BUILD):
        if f.startswith(name + "-") and not f.endswith(".tmp"):
            fp = os.path.join(BUILD, f)
            try:
                if now - os.path.getmtime(fp) > 3600:
                    os.unlink(fp)
            except OSError:
                pass
    tmp = out + ".%d.tmp" % os.getpid()
    cmd = ["g++"] + flags + ["-I" + os.path.join(REPO, "include"), "-I" + os.path.join(VERIF, "harness")] + srcs + rsrcs + ["-o", tmp, "-lpthread"]
    rc, o = sh(cmd, timeout=1800)
    if rc != 0:
        return None, o
    os.replace(tmp, out)
    return out, o


ASAN_ENV = {"ASAN_OPTIONS": "detect_stack_use_after_return=1:abort_on_error=0:exitcode=97:max_malloc_fill_size=1048576:malloc_fill_byte=190:detect_leaks=1",
            "UBSAN_OPTIONS": "print_stacktrace=1:halt_on_error=1:exitcode=98",
            "LSAN_OPTIONS": "exitcode=96"}


def run_lines(binary, lines, timeout=600, env_extra=None):
    """feed lines, return (list of output lines, returncode, stderr tail)"""
    env = dict(os.environ)
    env.update(ASAN_ENV)
    if env_extra:
        env.update(env_extra)
    p = subprocess.run([binary], input="\n".join(lines) + "\n", stdout=subprocess.PIPE, stderr=subprocess.PIPE,
                       text=True, timeout=timeout, env=env)
    out = p.stdout.split("\n")
    if out and out[-1] == "":
        out.pop()
    err = p.stderr
    if len(err) > 4000:
        err = err[:2000] + "\n...\n" + err[-2000:]
    return out, p.returncode, err


def run_driver(lines, timeout=600):
    p = subprocess.run([DRV], input="\n".join(lines) + "\n", stdout=subprocess.PIPE, stderr=subprocess.PIPE,
                       text=True, timeout=timeout)
    out = p.stdout.split("\n")
    if out and out[-1] == "":
        out.pop()
    return out, p.returncode, p.stderr[-2000:]


# ---------------------------------------------------------------- known findings

def known_findings():
    """lines: `finding: property=<id> signature=<sig> :: <text>` and `fixed: property=<id> <commit> <text>`"""
    res = {"finding": [], "fixed": []}
    p = os.path.join(VERIF, "known_findings.txt")
    if not os.path.exists(p):
        return res
    for line in open(p):
        line = line.strip()
        if not line or line.startswith("#"):
            continue
        m = re.match(r"finding:\s+property=(\S+)\s+signature=(.*?)\s+::\s+(.*)$", line)
        if m:
            res["finding"].append({"property": m.group(1), "signature": m.group(2), "text": m.group(3)})
            continue
        m = re.match(r"fixed:\s+property=(\S+)\s+(\S+)\s+(.*)$", line)
        if m:
            res["fixed"].append({"property": m.group(1), "commit": m.group(2), "text": m.group(3)})
    return res


# ---------------------------------------------------------------- results

class Failure:
    """kind = 'violation' (concrete failing input on the real code) | 'drift' (model and code differ, no
    property-level failure found) | 'proof' (a proof obligation no longer checks) | 'infra'"""

    def __init__(self, kind, what, signature="", replay=None):
        self.kind, self.what, self.signature, self.replay = kind, what, signature, replay or {}


class TieResult:
    def __init__(self):
        self.evaluations = 0
        self.distinct = 0
        self.rule = ""
        self.samples = []
        self.failures = []
        self.dist = {}
        self.traces = 0
        self.extra = {}


def write_replay(prop, idx, data):
    os.makedirs(REPLAYS, exist_ok=True)
    path = os.path.join(REPLAYS, "%s-%d.json" % (prop, idx))
    with open(path, "w") as f:
        json.dump(data, f, indent=1)
    return path


def write_evidence(prop, tier, level, coverage, assumptions, wall, violations):
    os.makedirs(EVID, exist_ok=True)
    ev = {"property_id": prop, "tier": tier, "seed": seed(), "level": level, "coverage": coverage,
          "assumptions": assumptions, "wall_s": round(wall, 2), "violations": violations}
    tmp = os.path.join(EVID, "%s.json.%d" % (prop, os.getpid()))
    with open(tmp, "w") as f:
        json.dump(ev, f, indent=1)
    os.replace(tmp, os.path.join(EVID, "%s.json" % prop))


def log(msg):
    print(msg, flush=True)


def load_corpus(name):
    """minimised past failures: corpus/<name>/*.json, each {"ops": [...]}; they run first"""
    d = os.path.join(VERIF, "corpus", name)
    cases = []
    if os.path.isdir(d):
        for f in sorted(os.listdir(d)):
            if f.endswith(".json"):
                try:
                    cases.append(json.load(open(os.path.join(d, f)))["ops"])
                except Exception:
                    pass
    return cases


def err_summary(err):
    """the most telling line of a crashed harness's stderr"""
    lines = [l.strip() for l in err.split("\n") if l.strip()]
    for key in ("ERROR: AddressSanitizer", "WARNING: ThreadSanitizer", "ERROR: ThreadSanitizer", "ERROR: LeakSanitizer", "runtime error", "Assertion", "terminate called", "what():"):
        for l in lines:
            if key in l:
                return l[:300]
    return lines[-1][:300] if lines else "(no stderr)"
