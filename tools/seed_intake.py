#!/usr/bin/env python3
"""seed_intake.py <property> <dir-name> <out-dir>: confirm_seed -> keep_seed -> run_seeds for one independently written change."""
import os, subprocess, sys
V = os.path.dirname(os.path.dirname(os.path.abspath(__file__)))
prop, name, out = sys.argv[1:4]
conf = os.path.join(os.path.dirname(out.rstrip("/")), "confirm.json")
r = subprocess.run([sys.executable, os.path.join(V, "tools", "confirm_seed.py"), out], capture_output=True, text=True)
open(conf, "w").write(r.stdout)
print(r.stdout.strip()[-400:])
if r.returncode != 0:
    print("NOT CONFIRMED", name); sys.exit(1)
subprocess.run([sys.executable, os.path.join(V, "tools", "keep_seed.py"), prop, name, out, conf], check=True)
r = subprocess.run([sys.executable, os.path.join(V, "tools", "run_seeds.py"), name], capture_output=True, text=True)
print("\n".join(r.stdout.strip().split("\n")[-2:])[:700])
