#!/bin/bash
# Runs the repository's own test suite, out of tree, offline, with no verification define set
# (there are no hooks in /repo: the guard TULZ_VERIF is never defined by this build).
set -e
REPO=${TULZ_REPO:-/repo}
B=$(mktemp -d /var/tmp/tulz-baseline.XXXXXX)
trap 'rm -rf "$B"' EXIT
cmake -G Ninja -S "$REPO" -B "$B" -DCMAKE_BUILD_TYPE=RelWithDebInfo -DTULZ_ENABLE_TESTS=ON \
      -DFETCHCONTENT_SOURCE_DIR_GOOGLETEST=/usr/src/googletest -DFETCHCONTENT_FULLY_DISCONNECTED=ON > "$B/cmake.log" 2>&1 || { cat "$B/cmake.log"; exit 2; }
cmake --build "$B" -j16 > "$B/build.log" 2>&1 || { tail -50 "$B/build.log"; exit 2; }
ctest --test-dir "$B" -j8 --timeout 900 "$@"
