"""C20: tulz::Thread — capture-table translator + Lean model + the real Thread under the controlled scheduler.

Legs (DESIGN.md 6, C20):
  translate   tools/translators/thread_captures.py rewrites lean/Tulz/Generated/ThreadCaptures.lean from Thread.h / Thread.cpp
              on every run; `Thread.C20_captures_ok` is re-decided by the kernel over it.
  tie         harness/thread/thread_harness.cpp runs the real Thread (token remap) for every callable kind x way of starting
              x number of lvalue arguments under every schedule of the small schedule space (stateless DFS) + seeded random
              schedules, in two builds (ASan/UBSan with detect_stack_use_after_return; plain -O1 with canaries and a stack
              clobber).  Direct monitors state the property on the trace; every execution is replayed in lock step on the
              Lean model instantiated with the GENERATED table (so on a by-reference tree the model predicts the dead read
              where the real code traps).
"""
import hashlib
import json
import subprocess
import os
import re
import sys
from concurrent.futures import ThreadPoolExecutor

import lib
import schedtie
from lib import Failure, TieResult

sys.path.insert(0, os.path.join(lib.VERIF, "tools", "translators"))
import thread_captures  # noqa: E402

HARNESS = "harness/thread/thread_harness.cpp"
REPO_SRC = ["src/threading/Thread.cpp", "src/threading/Runnable.cpp"]
GENERATED = os.path.join(lib.LEAN_DIR, "Tulz", "Generated", "ThreadCaptures.lean")
PLAIN_FLAGS = ["-std=c++20", "-O1", "-g", "-fno-omit-frame-pointer"]

CALLABLE_KINDS = ["fnptr", "small", "big", "functor"]
VIAS = ["start", "ctor"]

PROPS = {
    "C20": {
        "design_ref": "6/C20",
        "technique": "capture-table translator (lambda introducers and bodies of Thread::start regenerated into Lean on every run, kernel-decided "
                     "obligation) + Lean 4 invariant proof over a two-thread transition system with hand-modelled object lifetimes (all "
                     "interleavings) + exhaustive schedule exploration of the real Thread under a controlled scheduler with ASan "
                     "stack-use-after-return / canaries, replayed in lock step on the model",
        "level_text": "Machine-checked proof, for every interleaving of the starter (evalArgs, buildClosure, spawn, returnFromStart, clobberFrame, "
                      "any number of isFinished() polls, join, scopeExit) with the new thread (begin, readCallable, invokeBegin, any uses of the "
                      "callable's own state and of the arguments, invokeEnd, [delete], setFinished, exit), that with a capture table in which the "
                      "callable is copied into the closure, the arguments are references to caller lvalues (or copies) and `this` is the pointer, "
                      "no step accesses an object outside its lifetime (C20_callable_alive, C20_no_dead_access); the callable is entered at most "
                      "once and exactly once in every complete run, and every run completes (C20_once, C20_completes); m_isFinished / an observed "
                      "isFinished()=true imply the callable has returned and join() returning implies the flag (C20_finished_after); a Runnable is "
                      "run once, destroyed once afterwards and only then reported finished (C20_runnable, C20_runnable_once). The capture table is "
                      "regenerated from Thread.h/Thread.cpp on every run and C20_captures_ok is re-decided by the kernel over it; "
                      "C20_ref_capture_unsafe shows the hypothesis is necessary (a by-reference capture of the parameter has a reachable dead read). "
                      "PARTIAL by nature: C++ object lifetimes and the meaning of the capture modes are modelled by hand; the theorem's content "
                      "about the real code lies in the generated hypothesis and in the explored executions.",
        "level_note": "Trusted: Lean kernel; the hand-written lifetime model (frame slot dies at return of start(), closure lives in the new thread "
                      "until it exits, caller lvalues and *this outlive join) and the resolution of capture modes (C++ [expr.prim.lambda.capture]); "
                      "the lexical translator (fails closed); std::thread decay-copy semantics; DRF of m_isFinished (C15/F7, not part of this "
                      "property). Schedule exploration (exhaustive over the harness's scheduling points, both builds) only validates the tie.",
        "lean_modules": ["Tulz.Props.C20"],
        "theorems": ["Thread.C20_captures_ok", "Thread.C20_generated_safe", "Thread.C20_generated", "Thread.C20_callable_alive",
                     "Thread.C20_no_dead_access", "Thread.C20_once", "Thread.C20_completes", "Thread.C20_finished_after", "Thread.C20_runnable",
                     "Thread.C20_runnable_once", "Thread.C20_ref_capture_unsafe", "Thread.C20_ref_capture_unsafe_table",
                     "Thread.step?_sound", "Thread.step?_complete", "Thread.reach_inv"],
        "trusted_base": [
            "modelled by hand, not verified: C++ object lifetimes (the by-value parameter of start() is an object of start()'s frame and dies when "
            "start() returns; the closure handed to std::thread is decay-copied into storage owned by the new thread and lives until the thread "
            "function has returned; the caller's lvalue arguments and the Thread object outlive join(); the Runnable lives until `delete`)",
            "modelled by hand: what a capture mode means for each entity (resolveValueParam / resolveRefParam / resolveThis in Model/Thread.lean): a "
            "by-reference or default-& capture of the by-value parameter refers to the frame slot; a by-reference capture of an `Args&&` parameter "
            "refers to the caller's object; `this` is always a pointer copy",
            "translator tools/translators/thread_captures.py (lexical: tokens + bracket matching; raises on anything it does not recognise); its "
            "output is dumped into the evidence",
            "std::thread semantics (the replacement in harness/sched/sched.h decay-copies the closure exactly like std::thread and starts the "
            "thread function only when the scheduler picks it); join() = blocks until the thread function has returned",
            "sequentially consistent interleaving; m_isFinished is a plain bool read by the starter while the new thread writes it (finding F7 of "
            "C15) — the ordering theorems are about the interleaving model, the data race itself is C15's subject",
            "template argument deduction / overload resolution between start(T, Args&&...) and start(Runnable*) is covered only by the harness "
            "(it compiles and runs function pointers, 16- and 64-byte closures, a functor with non-const operator(), 0-2 lvalue arguments, "
            "Runnable subclasses, through start() and through the forwarding constructor)",
        ],
        "assumptions": [
            "arguments are lvalues that outlive join() (the statement's `lvalue argument list`); temporaries passed to start() are outside C20",
            "the Thread object is not destroyed or moved before join() returned; one start() per Thread object",
            "the callable and Runnable::run() terminate; the Runnable was allocated with new and is not used by the caller after start()",
            "interpretive choice: copying the argument pack into the closure (`[=]() mutable`) is NOT a violation of C20 (everything the new "
            "thread touches is alive; the statement does not say the callable must see the caller's objects) — C20_captures_ok accepts it and "
            "the replay compares the observed argument identity (caller's object / copy) with what the table says",
        ],
    },
}


# ------------------------------------------------------------------ translator (runs on every check)

def table_ok(t):
    """Python mirror of Thread.templateOk / runnableOk (only used to word the failure; the obligation itself is decided by Lean)"""
    a, b = t["startTemplate"], t["startRunnable"]
    problems = []
    if a["callable"] not in ("byCopy", "defaultCopy"):
        problems.append("template start(): the callable parameter `%s` is captured %s (introducer `%s`): the closure refers to a slot of "
                        "start()'s frame" % (t["names"]["callable"], a["callable"], a["introducer"]))
    if a["callable"] in ("byCopy", "defaultCopy") and not a["mutable"]:
        problems.append("template start(): callable captured by copy but the lambda is not `mutable` (a callable with a non-const operator() "
                        "cannot be invoked)")
    if a["args"] not in ("byRef", "defaultRef", "byCopy", "defaultCopy"):
        problems.append("template start(): argument pack captured %s" % a["args"])
    if a["this"] not in ("byCopy", "defaultCopy", "defaultRef"):
        problems.append("template start(): `this` captured %s" % a["this"])
    if a["body"] != ["invoke", "setFinished"]:
        problems.append("template start(): thread body is %s, expected [invoke, setFinished]" % a["body"])
    if b["callable"] not in ("byCopy", "defaultCopy"):
        problems.append("start(Runnable*): the pointer parameter is captured %s (introducer `%s`)" % (b["callable"], b["introducer"]))
    if b["this"] not in ("byCopy", "defaultCopy", "defaultRef"):
        problems.append("start(Runnable*): `this` captured %s" % b["this"])
    if b["body"] != ["run", "delete", "setFinished"]:
        problems.append("start(Runnable*): thread body is %s, expected [run, delete, setFinished]" % b["body"])
    if not t["joinIsStdJoin"]:
        problems.append("Thread::join() is not `m_thread.join();` but `%s`" % t["joinBody"])
    if not t["isFinishedReadsFlag"]:
        problems.append("Thread::isFinished() is not `return m_isFinished;` but `%s`" % t["isFinishedBody"])
    if not t["ctorForwardsToStart"]:
        problems.append("the forwarding constructor is not `start(ptr, std::forward<Args>(args)...);` but `%s`" % t["ctorBody"])
    return problems


_LAST_TABLE = {}


def translate(prop, spec):
    _LAST_TABLE.clear()
    t = thread_captures.translate(lib.REPO, GENERATED)
    _LAST_TABLE.update(t)
    return {"translator": "tools/translators/thread_captures.py",
            "sources": [os.path.join(lib.REPO, "include/tulz/threading/Thread.h"), os.path.join(lib.REPO, "src/threading/Thread.cpp")],
            "table": t, "obligation_C20_captures_ok_expected": not table_ok(t), "problems": table_ok(t),
            "generated_sha256": hashlib.sha256(open(GENERATED, "rb").read()).hexdigest()}


# ------------------------------------------------------------------ configurations and schedules

def configs():
    cs = ["%s:%s:%d" % (k, v, n) for k in CALLABLE_KINDS for v in VIAS for n in (0, 1, 2)]
    cs += ["runnable:start:0", "runnable:ctor:0"]
    return cs


def explicit_line(cfg, choices):
    return "run %s sched %s pts" % (cfg, " ".join(map(str, choices)))


def cfg_of(run):
    return run.line.split()[1]


# ------------------------------------------------------------------ trace monitors (the property, stated directly)

LIFETIME_ASAN = ["stack-use-after-return", "stack-use-after-scope", "heap-use-after-free", "attempting double-free",
                 "stack-buffer-underflow", "stack-buffer-overflow", "dynamic-stack-buffer-overflow", "use-after-poison", "SEGV"]


def asan_kind(stderr):
    m = re.search(r"ERROR: AddressSanitizer: (attempting double-free|[\w-]+)", stderr)
    return m.group(1) if m else None


def fin_of(tokens):
    for t in tokens:
        if t.startswith("fin="):
            return t[4:]
    return None


def monitor(cfg, run):
    """returns list of (clause, message); clause in alive | once | finished | join | runnable"""
    kind = cfg.split(":")[0]
    runnable = kind == "runnable"
    ev = [l.split() for l in run.events]
    names = [t[0] for t in ev]
    msgs = []
    begin, end = ("runnableRun", "runnableRunEnd") if runnable else ("invokeBegin", "invokeEnd")

    def idx(name):
        return [i for i, n in enumerate(names) if n == name]

    # --- alive
    for t in ev:
        if t[0] in ("DEAD-CALLABLE", "DEAD-RUNNABLE"):
            msgs.append(("alive", "canary: " + " ".join(t)))
        if t[0] == "UNJOINED":
            msgs.append(("join", "join() returned although the new thread has not finished (it was never joined)"))
    if run.status == "abort":
        k = asan_kind(run.stderr)
        where = "before the callable was entered" if not idx(begin) else "while the callable was running" if not idx(end) else "after the callable returned"
        if k:
            what = "Runnable" if runnable and k in ("heap-use-after-free", "attempting double-free") else "callable / closure field"
            msgs.append(("alive", "AddressSanitizer %s in the new thread %s (%s not alive)" % (k, where, what)))
        elif not any(t[0].startswith("DEAD-") or t[0] == "UNJOINED" for t in ev):
            tail = run.stderr.strip().split("\n")[-1][:200] if run.stderr.strip() else "killed by a signal, no report"
            msgs.append(("alive" if not idx(end) else "join", "execution crashed %s: %s" % (where, tail)))
    if run.status in ("deadlock", "hang"):
        msgs.append(("join", "execution does not complete: " + run.status))
    # --- once, on a new thread
    nb, ne = len(idx(begin)), len(idx(end))
    if nb > 1 or ne > 1:
        msgs.append(("once", "%s observed %d times, %s %d times" % (begin, nb, end, ne)))
    if run.status == "ok" and (nb != 1 or ne != 1):
        msgs.append(("once", "complete execution with %d x %s and %d x %s" % (nb, begin, ne, end)))
    for i in idx(begin):
        tt = [x for x in ev[i] if x.startswith("t=")]
        if tt and tt[0] == "t=0":
            msgs.append(("once", "the callable ran on the starting thread"))
    # --- isFinished() only after the callable has returned
    first_end = idx(end)[0] if idx(end) else None
    for i, t in enumerate(ev):
        if t[0] in (begin, end) and fin_of(t) == "1":
            msgs.append(("finished", "isFinished() is already true at `%s`" % " ".join(t)))
        if t[0] == "finishedSeen" and (first_end is None or i < first_end):
            msgs.append(("finished", "the starter saw isFinished() = true before the callable returned (event %d)" % i))
        if t[0] == "joinRet":
            if first_end is None or i < first_end:
                msgs.append(("join", "join() returned before the callable returned (event %d)" % i))
            if fin_of(t) != "1":
                msgs.append(("join", "join() returned while isFinished() is false"))
    # --- Runnable: run once, then destroyed once, then finished
    if runnable:
        d = idx("runnableDestroyed")
        if len(d) > 1:
            msgs.append(("runnable", "Runnable destroyed %d times" % len(d)))
        if run.status == "ok" and len(d) != 1:
            msgs.append(("runnable", "complete execution in which the Runnable was destroyed %d times" % len(d)))
        for i in d:
            if first_end is None or i < first_end:
                msgs.append(("runnable", "Runnable destroyed before run() returned (event %d)" % i))
            if fin_of(ev[i]) == "1":
                msgs.append(("runnable", "isFinished() already true when the Runnable is destroyed"))
        for i, t in enumerate(ev):
            if t[0] in ("finishedSeen", "joinRet") and (not d or i < d[0]):
                msgs.append(("runnable", "`%s` before the Runnable was destroyed" % t[0]))
        for t in ev:
            if t[0] == "args" and run.status == "ok":
                kv = dict(x.split("=") for x in t[1:])
                if kv.get("live") != "0" or kv.get("destroyed") != "1":
                    msgs.append(("runnable", "after join: live Runnables=%s destroyed=%s" % (kv.get("live"), kv.get("destroyed"))))
    return msgs


# ------------------------------------------------------------------ lock-step replay on the Lean model

ARGMODE = {"ref:callerLvalue": "caller", "copy": "copy", "none": "none"}


def canonical_steps(cfg, run):
    """driver lines + what the real code showed at that step: list of (line, expectations dict)"""
    kind, via, nargs = cfg.split(":")
    out = [("thr init runnable" if kind == "runnable" else "thr init callable %s" % nargs, {})]
    dead = unjoined = False
    for l in run.events:
        t = l.split()
        k = t[0]
        f = fin_of(t)
        exp = {"fin": f} if f is not None else {}
        if k == "startCall":
            out += [("thr step evalArgs", {}), ("thr step buildClosure", {})]
        elif k == "spawn":
            out.append(("thr step spawn", {}))
        elif k == "startRet":
            out.append(("thr step returnFromStart", {}))
        elif k == "clobber":
            out.append(("thr step clobberFrame", {}))
        elif k == "poll":
            out.append(("thr step poll", {"fin": "0"}))
        elif k == "finishedSeen":
            out.append(("thr step poll", {"fin": "1"}))
        elif k == "joinRet":
            out.append(("thr step join", exp))
        elif k == "scopeExit":
            out.append(("thr step scopeExit", {}))
        elif k in ("invokeBegin", "runnableRun"):
            am = [x[5:] for x in t if x.startswith("args=")]
            out += [("thr step begin", {}), ("thr step readCallable", {}), ("thr step invokeBegin", dict(exp, **({"args": am[0]} if am else {})))]
        elif k == "selfTouch":
            out.append(("thr step useSelf", {}))
        elif k == "argsTouch":
            out.append(("thr step useArgs", {}))
        elif k in ("invokeEnd", "runnableRunEnd"):
            out.append(("thr step invokeEnd", exp))
        elif k == "runnableDestroyed":
            out.append(("thr step delete", exp))
        elif k == "exit":
            out += [("thr step setFinished", {}), ("thr step exit", {})]
        elif k.startswith("DEAD-"):
            dead = True
        elif k == "UNJOINED":
            unjoined = True
    lifetime_abort = run.status == "abort" and not unjoined and (dead or asan_kind(run.stderr) in LIFETIME_ASAN or not run.stderr.strip())
    if run.status == "ok":
        out.append(("thr end", {}))
    elif lifetime_abort:
        out.append(("thr crash", {}))
    else:
        out.append(("thr status", {}))
    return out


def model_check(runs):
    """lock-step replay; returns per run None or the first disagreement"""
    lines, spans = [], []
    for r in runs:
        st = canonical_steps(cfg_of(r), r)
        spans.append((len(lines), st))
        lines += [x for x, _ in st]
    out, rc, err = lib.run_driver(lines)
    res = []
    for (a, st), r in zip(spans, runs):
        bad = None
        model_args = None
        for i, (line, exp) in enumerate(st):
            o = out[a + i] if a + i < len(out) else "<no driver output>"
            if i == 0:
                m = re.search(r"args=(\S+)", o)
                model_args = ARGMODE.get(m.group(1)) if m else None
            if o.startswith("MISMATCH") or o in ("bad-op", "bad-component", "<no driver output>"):
                bad = "%s -> %s" % (line, o)
                break
            if line.startswith("thr step"):
                kv = dict(x.split("=") for x in o.split()[1:] if "=" in x)
                if kv.get("bad") == "1":
                    bad = "%s -> the model says a dead object was accessed, the real code went on | %s" % (line, o)
                    break
                if "fin" in exp and exp["fin"] != kv.get("fin"):
                    bad = "%s -> isFinished(): real code %s, model %s" % (line, exp["fin"], kv.get("fin"))
                    break
                if "args" in exp and model_args is not None and exp["args"] != model_args:
                    bad = "%s -> the callable saw %s arguments, the generated table says %s" % (line, exp["args"], model_args)
                    break
        res.append(bad)
    return res


# ------------------------------------------------------------------ the tie

def build_both():
    deps = ["harness/sched/sched.h", "harness/sched/remap.h"]

    def asan():
        return schedtie.build("thr_asan", HARNESS, REPO_SRC)

    def plain():
        return lib.build_harness("thr_plain", [HARNESS], extra_flags=schedtie.SCHED_FLAGS, repo_sources=REPO_SRC, deps=deps, flags=PLAIN_FLAGS)

    with ThreadPoolExecutor(max_workers=2) as ex:
        fa, fp = ex.submit(asan), ex.submit(plain)
        return fa.result(), fp.result()


def explore(binary, cfgs, budget, nrand, rng):
    """per configuration: exhaustive stateless DFS (the preemption bound 64 never binds) + seeded random schedules;
    configurations are explored concurrently.  returns (dfs runs, random runs, complete?)"""
    def one(cfg):
        return schedtie.dfs(binary, lambda p: explicit_line(cfg, p), budget, 64)

    with ThreadPoolExecutor(max_workers=4) as ex:
        parts = list(ex.map(one, cfgs))
    runs = [r for rs, _ in parts for r in rs]
    complete = all(c for _, c in parts)
    lines = []
    for cfg in cfgs:
        for _ in range(nrand):
            lines.append("run %s seed %d pts" % (cfg, rng.next() % (1 << 40)))
    rr = schedtie.run_batch(binary, lines, max_restarts=60)
    return runs, rr, complete


def run_tie(prop, spec, tier, seed):
    res = TieResult()
    rng = lib.SplitMix(seed).fork("thread")
    (asan_bin, asan_out), (plain_bin, plain_out) = build_both()
    if asan_bin is None or plain_bin is None:
        res.failures.append(Failure("infra", "thread harness does not compile against the working tree (function pointer / closures / functor with "
                                    "non-const operator() / lvalue argument packs / Runnable, through start() and the constructor)",
                                    replay={"compiler": ((asan_out if asan_bin is None else plain_out) or "")[-4000:]}))
        return res
    # a generated obligation that is false is reported by name, next to whatever the search finds
    table = dict(_LAST_TABLE)
    if table:
        for p in table_ok(table):
            res.failures.append(Failure("proof", "generated obligation Thread.C20_captures_ok is false: " + p,
                                        replay={"obligation": "Thread.C20_captures_ok", "generated_table": table}))
    # 0. memory-model leg (free-running, real std::thread, ThreadSanitizer): a starter that polls isFinished()/isRunning()
    #    and then reads what the callable wrote must not race — "isFinished() becomes true only after the callable returned"
    tsan_bin, tsan_out = lib.build_harness("thr_tsan", ["harness/thread/thread_tsan.cpp"], repo_sources=REPO_SRC,
                                           flags=["-std=c++20", "-O1", "-g", "-fsanitize=thread"])
    if tsan_bin is None:
        res.failures.append(Failure("infra", "thread TSan probe does not compile against the working tree", replay={"compiler": (tsan_out or "")[-3000:]}))
    else:
        rounds = 150 if tier == "quick" else 1500
        env = dict(os.environ, TSAN_OPTIONS="exitcode=66:halt_on_error=1:second_deadlock_stack=1")
        try:
            p = subprocess.run([tsan_bin, str(rounds)], capture_output=True, text=True, timeout=300, env=env)
            rc, err = p.returncode, p.stderr
        except subprocess.TimeoutExpired:
            rc, err = -1, "timeout"
        res.extra["tsan_probe"] = {"rounds": rounds, "rc": rc}
        if rc != 0:
            rep = err if len(err) < 3000 else err[:3000]
            res.failures.append(Failure("violation",
                                        "tulz::Thread, ThreadSanitizer probe (poll isFinished()/isRunning(), then read the callable's output, %d rounds): %s"
                                        % (rounds, lib.err_summary(err)),
                                        signature="thread_tsan:%s" % lib.err_summary(err)[:80],
                                        replay={"component": "thread", "program": "harness/thread/thread_tsan.cpp", "rounds": rounds, "report": rep}))
    cfgs = configs()
    all_runs = []       # (build, run)
    # 1. corpus
    cdir = os.path.join(lib.VERIF, "corpus", "thread")
    corpus = []
    if os.path.isdir(cdir):
        for f in sorted(os.listdir(cdir)):
            if f.endswith(".json"):
                c = json.load(open(os.path.join(cdir, f)))
                corpus.append(explicit_line(c["cfg"], c["schedule"]))
    for b, binary in (("asan", asan_bin), ("plain", plain_bin)):
        all_runs += [(b, r) for r in schedtie.run_batch(binary, corpus)]
    # 2./3. exhaustive DFS over the schedule space of every configuration + seeded random schedules, both builds
    budget = 400 if tier == "quick" else 4000
    nrand = 6 if tier == "quick" else 200
    with ThreadPoolExecutor(max_workers=2) as ex:
        fa = ex.submit(explore, asan_bin, cfgs, budget, nrand, rng.fork("asan"))
        fp = ex.submit(explore, plain_bin, cfgs, budget, nrand, rng.fork("plain"))
        (da, ra, ca), (dp, rp, cp) = fa.result(), fp.result()
    all_runs += [("asan", r) for r in da + ra] + [("plain", r) for r in dp + rp]
    executed = [(b, r) for b, r in all_runs if r.status is not None]
    res.evaluations = len(executed)
    res.traces = len(executed)
    distinct = set()
    stat, late, early, inter = {}, 0, 0, 0
    for b, r in executed:
        stat[r.status] = stat.get(r.status, 0) + 1
        names = [l.split()[0] for l in r.events]
        distinct.add((cfg_of(r), tuple(names)))
        firstw = next((i for i, n in enumerate(names) if n in ("invokeBegin", "runnableRun")), None)
        sr = names.index("startRet") if "startRet" in names else None
        if firstw is not None and sr is not None:
            if firstw > sr:
                late += 1
            else:
                lastw = max(i for i, n in enumerate(names) if n in ("invokeEnd", "runnableRunEnd", "invokeBegin", "runnableRun"))
                if lastw < sr:
                    early += 1
                else:
                    inter += 1
    res.distinct = len(distinct)
    res.rule = ("executions of the real tulz::Thread under the controlled scheduler, two builds (ASan+UBSan with detect_stack_use_after_return; "
                "plain -O1 with canaries and stack clobber): %d configurations (callable kind fnptr/16-byte closure/64-byte closure/functor x "
                "start()/constructor x 0-2 lvalue arguments, Runnable x start()/constructor); per configuration stateless DFS over ALL schedules "
                "of the harness's scheduling points (%d + %d executions, %s) + %d seeded random schedules per configuration and build + %d corpus "
                "schedules; distinct_nontrivial = distinct (configuration, sequence of observable events)" %
                (len(cfgs), len(da), len(dp), "complete" if ca and cp else "budget-limited", nrand, len(corpus)))
    res.dist = {"status": stat, "new_thread_entered_after_startRet": late, "new_thread_finished_before_startRet": early,
                "callable_running_across_startRet": inter, "dfs_asan": len(da), "dfs_plain": len(dp), "random": len(ra) + len(rp),
                "skipped_after_crashes": len(all_runs) - len(executed), "configs": len(cfgs)}
    if executed:
        late_ok = [r for b, r in executed if r.status == "ok" and "startRet" in r.events and
                   r.events.index("startRet") < next((i for i, e in enumerate(r.events) if e.startswith(("invokeBegin", "runnableRun"))), 0)]
        for r in (late_ok[:1] + [executed[-1][1]]):
            res.samples.append({"run": r.line, "schedule": r.choices(), "events": r.events[:40], "status": r.status})

    # monitors
    nviol = 0
    seen_sig = set()
    clauses = {}
    for b, r in executed:
        msgs = monitor(cfg_of(r), r)
        if not msgs:
            continue
        nviol += 1
        for c, _ in msgs:
            clauses[c] = clauses.get(c, 0) + 1
        key = (cfg_of(r).split(":")[0], msgs[0][0], b)
        if key in seen_sig or sum(1 for k in seen_sig if k[2] == b) >= 3:
            continue
        seen_sig.add(key)
        binary = asan_bin if b == "asan" else plain_bin
        small = shrink(binary, r)
        m = monitor(cfg_of(small), small)
        res.failures.append(Failure("violation", "tulz::Thread, %s, %s build, schedule [%s]: %s" %
                                    (cfg_of(small), b, " ".join(map(str, small.choices())), "; ".join(x for _, x in m[:3])),
                                    signature="%s|%s|%s" % (cfg_of(small), b, " ".join(map(str, small.choices()))),
                                    replay={"component": "thread", "cfg": cfg_of(small), "build": b, "schedule": small.choices(),
                                            "events": small.events, "status": small.status, "monitor": [list(x) for x in m],
                                            "stderr": small.stderr[-2500:]}))
    res.extra["monitor_violations"] = nviol
    res.extra["violated_clauses"] = clauses
    # lock-step replay on the model
    mm = model_check([r for _, r in executed])
    nmm = 0
    for (b, r), bad in zip(executed, mm):
        if bad:
            nmm += 1
            if nmm <= 2:
                res.failures.append(Failure("drift", "lock-step replay: the real Thread and the Lean model (instantiated with the generated capture "
                                            "table) disagree (%s, %s build): %s" % (r.line, b, bad),
                                            replay={"correspondence": "thread lock-step replay", "run": r.line, "build": b, "schedule": r.choices(),
                                                    "events": r.events, "status": r.status, "mismatch": bad}))
    res.extra["model_mismatches"] = nmm
    return res


def shrink(binary, run):
    """shortest schedule prefix with the same verdict (the default policy continues the running thread afterwards)"""
    cfg = cfg_of(run)
    want = monitor(cfg, run)[0][0]
    best = run
    ch = run.choices()
    lo, hi = 0, len(ch)
    while lo < hi:
        mid = (lo + hi) // 2
        r = schedtie.run_batch(binary, [explicit_line(cfg, ch[:mid])])[0]
        m = monitor(cfg, r) if r.status is not None else []
        if m and m[0][0] == want:
            hi = mid
            best = r
        else:
            lo = mid + 1
    return best


def replay(prop, spec, path):
    data = json.load(open(path))
    rp = data.get("replay", {})
    if "cfg" not in rp:
        print(json.dumps(data, indent=1)[:6000])
        return 0
    thread_captures.translate(lib.REPO, GENERATED)
    lib.lake_build(["tulzdrv"])
    (asan_bin, ao), (plain_bin, po) = build_both()
    binary = asan_bin if rp.get("build", "asan") == "asan" else plain_bin
    if binary is None:
        print("harness does not compile:\n" + (ao if asan_bin is None else po)[-3000:])
        return 1
    r = schedtie.run_batch(binary, [explicit_line(rp["cfg"], rp["schedule"])])[0]
    for e in r.events:
        print(e)
    print("end", r.status)
    if r.stderr:
        print("\n".join(r.stderr.split("\n")[:12]))
    msgs = monitor(rp["cfg"], r)
    bad = model_check([r])[0]
    print("model replay:", bad or "agrees")
    for c, m in msgs:
        print("MONITOR[%s]: %s" % (c, m))
    if msgs:
        print("VIOLATION property=%s replay=%s" % (prop, path))
    return 1 if msgs else 0
