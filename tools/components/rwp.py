"""C01 / C02 / C03 / C12: tulz::rwp::Resource under the controlled scheduler, lock-step against the Lean model,
with direct trace monitors for each property (exclusion, deadlock / idle restoration, FIFO order, reader sharing)."""
import json
import re

import lib
import schedtie
from lib import Failure, TieResult

HARNESS = "harness/rwp/rwp_harness.cpp"
REPO_SRC = ["src/threading/rwp/Resource.cpp"]

TB = [
    "modelled, not verified: pthread mutex / condition-variable semantics (atomic release-and-block in wait, no lost notification under the mutex, notify_all reaches every thread blocked at that moment); spurious wake-ups are allowed in the safety theorems (C01, C03, C12_reader_fast) and excluded in the liveness ones",
    "execution model: sequentially consistent interleaving of m_mutex critical sections (justified by data-race freedom, C15)",
    "unbounded Nat tickets: the int64_t wrap-around of m_idCounter is not modelled; Rwp.idc_le_requests proves the counter never exceeds the number of lock requests made so far, so it cannot wrap before 2^63 requests on one Resource without an idle moment",
    "the tie is by exploration: controlled-scheduler executions of the real Resource.cpp are replayed step by step on the model (every critical section and notification must match)",
]
ASSUME = ["every holder eventually unlocks (finite critical sections)", "fair scheduler for liveness",
          "ReadLock/WriteLock add nothing to the model (constructor = lock*, destructor = unlock*): exercised by the harness through the guards"]

PROPS = {
    "C01": {
        "design_ref": "6.1/C01",
        "lean_modules": ["Tulz.Props.C01"],
        "theorems": ["Rwp.C01_exclusion", "Rwp.C01_writer_alone", "Rwp.reach_inv", "Rwp.xstep?_sound", "Rwp.xstep?_complete"],
        "technique": "Lean 4 inductive-invariant proof over a transition system with any number of threads (critical-section granularity) + lock-step replay of controlled-scheduler executions of the real Resource.cpp on the model",
        "level_text": "Machine-checked proof, for any number of threads and every interleaving (including spurious wake-ups and slow-waking batch members), that two distinct threads inside the lock are both readers; the invariant (queue well-formedness, ticket permutation, admitted-count = number of inside threads, kinds agree with the active mode) is inductive over all seven step kinds. The model is tied to Resource.cpp by replaying every scheduler-observed critical section / notification of the real code on the executable step function (proved equivalent to the step relation) and by a direct exclusion monitor on the same executions.",
        "level_note": "Trusted: Lean kernel; transcription of Resource.cpp at m_mutex critical-section granularity; pthread semantics; DRF (C15); schedule exploration only validates the tie (DFS with bounded preemptions for small configurations + seeded random schedules).",
        "trusted_base": TB, "assumptions": ASSUME,
    },
    "C02": {
        "design_ref": "6.1/C02",
        "lean_modules": ["Tulz.Props.C02", "Tulz.Proofs.Rwp.Warp", "Tulz.Proofs.Rwp.IdBound"],
        "theorems": ["Rwp.idc_le_requests", "Rwp.C02_no_deadlock", "Rwp.C02_measure_decreases", "Rwp.C02_idle_restored", "Rwp.C02_admitted_wakes",
                     "Rwp.C02_every_run_finishes", "Rwp.C02_idle_grants_immediately",
                     # not part of the property: the state from which the harness starts its long-busy runs is a reachable one
                     "Rwp.warp_reachable"],
        "technique": "Lean 4 proof of deadlock-freedom + strictly decreasing measure (termination of every run without spurious wake-ups) + idle-state restoration, any number of threads; lock-step replay and deadlock detection on the real code",
        "level_text": "Machine-checked proof that in every reachable state with unfinished threads some non-spurious step is enabled, that every such step strictly decreases a natural-number measure (so every run is finite and ends with all lock calls returned), that an admitted waiter can always complete its wake-up, and that when all threads are done the Resource fields equal the initial state, from which read and write requests take the fast path. Tied to Resource.cpp by lock-step replay, the scheduler's deadlock detector and an idle-state probe after every execution.",
        "level_note": "Trusted: as C01, plus fairness of the real scheduler and that notify_all wakes every blocked thread (pthread). Liveness is for finite programs of lock/unlock pairs.",
        "trusted_base": TB, "assumptions": ASSUME,
    },
    "C03": {
        "design_ref": "6.1/C03",
        "lean_modules": ["Tulz.Props.C03"],
        "theorems": ["Rwp.C03_no_overtake", "Rwp.C03_pending_order", "Rwp.C03_admitted_together_are_readers",
                     "Rwp.C03_never_granted_before_earlier_waiter"],
        "technique": "Lean 4 invariant proof with ghost arrival stamps (ticket order = arrival order; everybody inside arrived before everybody pending), any number of threads; FIFO trace monitor + lock-step replay on the real code",
        "level_text": "Machine-checked proof that whoever is inside the lock (holding, or admitted and about to wake) issued its request before every request still pending, that pending tickets are ordered by arrival, and that requests admitted together form one read batch with no writer ticket between them; hence a later request is never granted before an earlier waiting one except reads of one batch. Tied to Resource.cpp by lock-step replay and by a direct monitor of (park(a) < call(b) and ret(b) < ret(a)) pairs on every explored execution.",
        "level_note": "Trusted: as C01. 'Already waiting' = parked (its enqueue critical section completed) before the later call is issued.",
        "trusted_base": TB, "assumptions": ASSUME,
    },
    "C12": {
        "design_ref": "6.1/C12",
        "lean_modules": ["Tulz.Props.C12"],
        "theorems": ["Rwp.C12_reader_fast", "Rwp.C12_batch_together", "Rwp.C12_rendezvous"],
        "technique": "Lean 4 proof from the shared invariant (+ clause: a read entry at the queue head implies an active writer): reader fast path without writers, whole-entry admission, independent wake-up of batch members; rendezvous programs + never-parks monitor on the real code",
        "level_text": "Machine-checked proof that in any reachable state without an active or waiting writer the reader test is the fast path (a read request never parks), that two pending readers with no writer ticket between them are admitted by the same step, and that an admitted reader can complete its wake-up using only its own and pending notification steps (so a batch can rendezvous inside the lock). Tied to Resource.cpp by lock-step replay, a monitor that flags any parked reader while no writer is active or waiting, and reader-rendezvous programs that deadlock iff the batch is not admitted together.",
        "level_note": "Trusted: as C01/C02.",
        "trusted_base": TB, "assumptions": ASSUME,
    },
}


# ------------------------------------------------------------------ programs and schedules

def gen_programs(rng, tier):
    progs = []
    n = 2 + rng.below(4 if tier == "quick" else 6)
    style = rng.below(5)
    for _ in range(n):
        k = 1 + rng.below(2 if tier == "quick" else 3)
        p = ""
        for _ in range(k):
            if style == 0:
                c = "R"
            elif style == 1:
                c = rng.pick("RRW")
            else:
                c = rng.pick("RW")
            if rng.chance(1, 4):
                c = c.lower()
            elif c == "R" and rng.chance(1, 6):
                c = rng.pick("NNO")      # a read section taken while holding a read (N) / write (O) lock of an unrelated Resource
            elif c == "W" and rng.chance(1, 7):
                c = rng.pick("MP")       # a write section taken while holding a write (M) / read (P) lock of the unrelated Resource
            elif c == "R" and style == 0 and rng.chance(1, 5):
                c = "Q"                  # nested read sections of the same Resource (writer-free programs only)
            p += c
        progs.append(p)
    return ",".join(progs)


RENDEZVOUS = ["Rb,Rb", "Rb,Rb,Rb", "Rb,Rb,R", "H,Rb,Rb", "H,Rb,Rb,Rb", "HW,Rb,Rb", "HR,Rb,Rb", "H,Rb,Rb,Rb,Rb"]
DFS_CONFIGS_QUICK = ["W,R,R", "W,R,W", "R,W,R", "W,W,R", "R,R,W", "R,W,N", "W,M,O", "Q,R"]
DFS_CONFIGS_THOROUGH = DFS_CONFIGS_QUICK + ["R,W,N", "W,R,R,W", "R,W,R,W", "W,R,W,R", "WR,R,W", "RW,W,R", "H,Rb,Rb", "W,RR,R", "R,R,R"]


# ------------------------------------------------------------------ trace analysis

def parse(run):
    """normalised event tuples"""
    ev = []
    for l in run.events:
        t = l.split()
        ev.append(t)
    return ev


def canonical_steps(events):
    """driver lines: one per completed critical section / notification / observable return.
    A notify issued inside a critical section is reported right after that section's `cs` line."""
    out = []
    holding_mutex = {}
    deferred = {}
    for t in events:
        k = t[0]
        # only the Resource under test (mutex m0, condition variable c1; see rwp_harness.cpp) takes part in the replay
        if k in ("lock", "unlock") and len(t) > 2 and t[2] != "m0":
            continue
        if k in ("park", "notify") and len(t) > 2 and t[2] != "c1":
            continue
        if k == "lock":
            holding_mutex[t[1]] = True
        elif k == "unlock":
            holding_mutex[t[1]] = False
            out.append("rwp cs " + t[1])
            for d in deferred.pop(t[1], []):
                out.append(d)
        elif k == "park":
            holding_mutex[t[1]] = False
            out.append("rwp park " + t[1])
            for d in deferred.pop(t[1], []):
                out.append(d)
        elif k == "notify":
            line = "rwp notify " + t[1] + (" " + " ".join(t[4:]) if len(t) > 4 else "")
            if holding_mutex.get(t[1]):
                deferred.setdefault(t[1], []).append(line)
            else:
                out.append(line)
        elif k == "call":
            out.append("rwp call %s %s" % (t[1], t[2]))
        elif k in ("ret", "uret"):
            out.append("rwp %s %s" % (k, t[1]))
    return out


def monitor(prop, progs, run):
    """direct statement of the property on the observed trace; returns list of messages"""
    events = parse(run)
    msgs = []
    kinds = {}      # thread -> kind of current request
    if prop == "C01":
        holders = {}
        for t in events:
            if t[0] == "EXCL":
                msgs.append("exclusion monitor inside the critical section: " + " ".join(t))
            elif t[0] == "call":
                kinds[t[1]] = t[2]
            elif t[0] == "ret":
                k = kinds.get(t[1], "?")
                if (k == "W" and holders) or any(v == "W" for v in holders.values()):
                    msgs.append("thread %s returned from lock%s while %s hold the lock" % (t[1], k, dict(holders)))
                holders[t[1]] = k
            elif t[0] == "ucall":
                holders.pop(t[1], None)
        if run.status == "abort" and "Assertion" in run.stderr:
            msgs.append("library assertion failed: " + [x for x in run.stderr.split("\n") if "Assertion" in x][0].strip()[:200])
    elif prop == "C02":
        if run.status == "deadlock":
            msgs.append("deadlock: " + " ".join(events[-1]) if events else "deadlock")
        elif run.status == "hang":
            msgs.append("hang (no scheduling progress)")
        elif run.status == "abort":
            msgs.append("aborted: " + lib.err_summary(run.stderr))
        probe = False
        for t in events:
            if t[0] == "probe":
                probe = True
            elif probe and t[0] == "park":
                msgs.append("idle state not restored: the probe request parked after all locks were released")
    elif prop == "C03":
        reqs = []       # dict per request: thread, kind, call idx, park idx, ret idx
        cur = {}
        for i, t in enumerate(events):
            if t[0] == "call":
                r = {"t": t[1], "k": t[2], "call": i, "park": None, "ret": None, "enq": None, "ucall": None}
                reqs.append(r)
                cur[t[1]] = r
            elif t[0] in ("park", "unlock") and t[1] in cur and cur[t[1]]["ret"] is None and (cur[t[1]]["enq"] is None or (t[0] == "park" and cur[t[1]]["park"] is None)):
                if cur[t[1]]["enq"] is None:
                    cur[t[1]]["enq"] = i        # end of the first critical section of the request
                if t[0] == "park" and cur[t[1]]["park"] is None:
                    cur[t[1]]["park"] = i       # the request is queued for certain (it may have polled before: not the first event)
            elif t[0] == "ucall" and t[1] in cur:
                cur[t[1]]["ucall"] = i
            elif t[0] == "ret" and t[1] in cur and cur[t[1]]["ret"] is None:
                cur[t[1]]["ret"] = i
        def enq(r):
            return r["enq"]
        if run.status == "deadlock" and "b" not in progs:
            # `neither readers nor writers can be starved`: no section waits for anything, yet every thread is blocked and these
            # requests are still waiting (for instance because the wake-up of an admitted request went to another waiter)
            starved = [r for r in reqs if r["park"] is not None and r["ret"] is None]
            if starved:
                msgs.append("request(s) of thread(s) %s never granted: every thread is blocked although no critical section waits for anything (starved)" %
                            ",".join("%s(%s)" % (r["t"], r["k"]) for r in starved))
        for a in reqs:
            if a["park"] is None:
                continue
            for b in reqs:
                if b is a or b["call"] < a["park"] or b["ret"] is None:
                    continue
                if a["ret"] is not None and a["ret"] < b["ret"]:
                    continue
                if a["ret"] is None and run.status == "deadlock":
                    # the execution is over and nobody can move any more: a was never granted at all, yet b, issued after a
                    # was already parked, was — whatever their kinds (two reads may only be granted TOGETHER)
                    msgs.append("request of thread %s (%s, parked at event %d) was never granted although thread %s (%s, called later at event %d) was granted at %d" %
                                (a["t"], a["k"], a["park"], b["t"], b["k"], b["call"], b["ret"]))
                    continue
                # b was issued after a was observed parked, and b returned first
                if a["k"] == "R" and b["k"] == "R":
                    # legitimate when they share a batch, or when a was admitted earlier and is only slow to wake up:
                    # then every writer queued between them has completed its section before b is granted
                    # (a writer that was observed parked after a was parked and before b was even issued)
                    between = [c for c in reqs if c["k"] == "W" and c["park"] is not None and a["park"] < c["park"] < b["call"]]
                    if all(c["ucall"] is not None and c["ucall"] < b["ret"] for c in between):
                        continue
                    msgs.append("reader %s (called at event %d) was granted at %d before a writer queued ahead of it had its turn, overtaking reader %s parked at %d" %
                                (b["t"], b["call"], b["ret"], a["t"], a["park"]))
                else:
                    # one of them is a writer: they can never be inside together, so a was not yet admitted when b returned
                    msgs.append("request of thread %s (%s, parked at event %d) was overtaken by thread %s (%s, called at event %d, granted at %d)" %
                                (a["t"], a["k"], a["park"], b["t"], b["k"], b["call"], b["ret"]))
    elif prop == "C12":
        writer_busy = set()
        has_writer = any(c in "Ww" for c in progs)
        pending_call = {}
        after_ucall = set()
        barrier = "b" in progs
        for t in events:
            if t[0] == "probe":
                break
            if t[0] == "call":
                pending_call[t[1]] = t[2]
                if t[2] == "W":
                    writer_busy.add(t[1])
            elif t[0] == "ucall":
                after_ucall.add(t[1])
            elif t[0] == "uret" and t[1] in after_ucall:
                # a writer counts as active until its unlock call has RETURNED (an implementation may hand the lock over after
                # it has released its internal mutex, e.g. by releasing semaphore permits)
                after_ucall.discard(t[1])
                writer_busy.discard(t[1])
            elif t[0] == "park":
                if pending_call.get(t[1]) == "R" and not writer_busy:
                    msgs.append("reader %s parked although no writer is active or waiting" % t[1])
            elif t[0] == "ret":
                pending_call.pop(t[1], None)
        if barrier and run.status == "deadlock":
            msgs.append("readers that rendezvous inside the read section deadlocked: the batch was not admitted together")
        if not barrier and run.status == "deadlock" and pending_call and any(k in ("R", "N") for k in pending_call.values()):
            # sections that wait for nothing, and still nobody can move: the read requests that are queued were never granted
            # (`read requests that queued up behind a writer are granted together`), e.g. because their wake-up went to another waiter
            msgs.append("read request(s) of thread(s) %s never granted: every thread is blocked although no critical section waits for anything" %
                        ",".join(sorted(t for t, k in pending_call.items() if k in ("R", "N"))))
        if not has_writer and any(t[0] == "park" for t in events):
            pass  # already reported by the rule above
    return msgs


def model_check(progs, runs):
    """lock-step replay on the Lean model; returns per run (ok, first mismatch text)"""
    lines = []
    idx = []
    for r in runs:
        if "Q" in progs_of(r):
            # nested sections of one Resource by one thread are not programs of the model (a thread holds at most one
            # lock of the Resource there): such runs are judged by the trace monitors only
            idx.append(None)
            continue
        steps = canonical_steps(parse(r))
        start = len(lines)
        pg = re.sub(r"H\d+", "H", progs_of(r)).replace("V", "W")      # V = a late writer: a write request for the model
        # `@<bits>,…`: thread 0 first holds the write lock (with the id counters moved close to 2^bits), then runs its probe
        lines.append("rwp init HWR," + pg.split(",", 1)[1] if pg.startswith("@") else "rwp init WR," + pg)
        lines.extend(steps)
        lines.append("rwp end" if r.status == "ok" else "rwp stuck" if r.status in ("deadlock",) else "rwp status")
        idx.append((start, len(lines)))
    out, rc, err = lib.run_driver(lines)
    res = []
    for ab, r in zip(idx, runs):
        if ab is None:
            res.append(None)
            continue
        a, b = ab
        seg = out[a:b]
        bad = None
        for i, o in enumerate(seg):
            if o.startswith("MISMATCH") or o == "bad-op" or o == "bad-component":
                bad = "%s -> %s" % (lines[a + i], o)
                break
        if r.status == "abort" and bad is None:
            bad = None      # a crash is reported by the monitors, the replay up to it agreed
        res.append(bad)
    return res


def progs_of(run):
    return run.line.split()[1]


def explicit_line(progs, choices):
    return "run %s sched %s pts" % (progs, " ".join(map(str, choices)))


def run_tie(prop, spec, tier, seed):
    res = TieResult()
    rng = lib.SplitMix(seed).fork("rwp")
    binary, out = schedtie.build("rwp_harness", HARNESS, REPO_SRC)
    if binary is None:
        res.failures.append(Failure("infra", "harness does not compile against the working tree", replay={"compiler": out[-3000:]}))
        return res
    runs = []
    # 1. corpus (explicit schedules)
    corpus = []
    import os
    cdir = os.path.join(lib.VERIF, "corpus", "rwp")
    if os.path.isdir(cdir):
        for f in sorted(os.listdir(cdir)):
            if f.endswith(".json"):
                c = json.load(open(os.path.join(cdir, f)))
                corpus.append(explicit_line(c["progs"], c["schedule"]))
    runs += schedtie.run_batch(binary, corpus)
    ncorpus = len(runs)
    # 2. exhaustive DFS with bounded preemptions on small configurations
    dfs_total, dfs_complete = 0, True
    cfgs = DFS_CONFIGS_QUICK if tier == "quick" else DFS_CONFIGS_THOROUGH
    budget = 400 if tier == "quick" else 6000
    for cfg in cfgs:
        rs, complete = schedtie.dfs(binary, lambda p, cfg=cfg: explicit_line(cfg, p), budget, 2 if tier == "quick" else 3)
        runs += rs
        dfs_total += len(rs)
        dfs_complete = dfs_complete and complete
    # 3. seeded random schedules, random programs + rendezvous programs
    nrand = 1500 if tier == "quick" else 40000
    lines = []
    for i in range(nrand):
        progs = rng.pick(RENDEZVOUS) if rng.chance(1, 6) else gen_programs(rng, tier)
        lines.append("run %s seed %d pts" % (progs, rng.next() % (1 << 40)))
    # queue shapes with a read entry followed by a write entry behind an active writer, and a late reader (what a reader that
    # polls instead of queueing would overtake): many random schedules of the same small programs
    ntarget = 60 if tier == "quick" else 1500
    for cfg in ("W,R,W,R", "W,R,W,R,R", "W,R,W,W,R", "H2,R,W,L", "H2,R,W,L,L", "H3,R,W,W,L", "H2,R,W,L,W"):
        for i in range(ntarget):
            # half of them with the sticky scheduler (seed >= 2^62: the running thread is rarely interrupted)
            lines.append("run %s seed %d pts" % (cfg, rng.next() % (1 << 40) + ((1 << 62) if i % 2 else 0)))
    # crowds: one writer holds until every other thread (14-36 writers in random order with a few readers) has queued up
    # behind it — queue lengths around 16 and 32 entries, where a container inside the lock would have to grow
    ncrowd = 40 if tier == "quick" else 600
    for i in range(ncrowd):
        nw = rng.pick([14, 15, 16, 17, 18, 20, 30, 31, 32, 33, 34])
        ks = ["W"] * nw + ["R"] * (2 + rng.below(5))
        for a in range(len(ks) - 1, 0, -1):
            b = rng.below(a + 1)
            ks[a], ks[b] = ks[b], ks[a]
        lines.append("run H,%s seed %d pts" % (",".join(ks), rng.next() % (1 << 40)))
    # refills: k writers queue behind a holder that leaves as soon as they are parked; late writers (V) reach the queue while the
    # first of them has already been admitted from its front — a queue that has been consumed from the front AND is full again
    # (a ring whose head is not at slot 0 when it has to grow)
    nrf = 24 if tier == "quick" else 400
    for i in range(nrf):
        k = rng.pick([2, 3, 4, 4, 4, 5, 7, 8, 8, 9])
        nv = rng.pick([2, 3, 4, 5])
        ks = ["H%d" % k] + ["W"] * k + ["V"] * nv + (["R"] if rng.chance(1, 3) else [])
        lines.append("run %s seed %d pts" % (",".join(ks), rng.next() % (1 << 40) + ((1 << 62) if i % 2 else 0)))
    # reader crowds: 17-40 readers queue up behind one writer and form ONE read entry that has to be granted together (a wake-up
    # scheme that notifies per ticket, per slot or per batch of a fixed size shows here), sometimes with a writer behind them
    nrc = 16 if tier == "quick" else 300
    for i in range(nrc):
        nr = rng.pick([17, 18, 20, 23, 24, 25, 31, 33, 40])
        ks = ["R"] * nr + (["W"] if rng.chance(1, 3) else [])
        lines.append("run H,%s seed %d pts" % (",".join(ks), rng.next() % (1 << 40)))
    # long-busy Resources: the main thread holds the write lock with the id counters at 2^bits - 3 (what 2^bits - 3 queued
    # requests since the last idle moment leave behind), the other threads queue up behind it and cross the boundary
    nwarp = 48 if tier == "quick" else 600
    for i in range(nwarp):
        bits = rng.pick([8, 16, 31, 32, 32, 32])
        lines.append("run @%d,%s seed %d pts" % (bits, gen_programs(rng, "thorough").translate(str.maketrans("NOMPQ", "RRWWR")), rng.next() % (1 << 40)))
    runs += schedtie.run_batch(binary, lines)

    executed = [r for r in runs if r.status is not None]
    res.evaluations = len(executed)
    res.traces = len(executed)
    # distinct non-trivial = distinct canonical step sequences that contain at least one park (contention)
    distinct = set()
    stat = {"ok": 0, "deadlock": 0, "abort": 0, "hang": 0}
    parks = 0
    for r in executed:
        stat[r.status] = stat.get(r.status, 0) + 1
        steps = canonical_steps(parse(r))
        if any(s.startswith("rwp park") for s in steps):
            parks += 1
            distinct.add((progs_of(r), tuple(steps)))
    res.distinct = len(distinct)
    res.rule = ("executions of the real Resource.cpp under the controlled scheduler: corpus schedules (%d) + stateless DFS with <=%d preemptions over %s "
                "(%d executions, %s) + %d seeded random schedules of random 2-%d-thread programs, reader-rendezvous programs, crowds (a holder + 16-40 queued requests) and long-busy Resources (id counters at 2^8/2^16/2^31/2^32 - 3); "
                "distinct_nontrivial = distinct (program, sequence of critical sections/notifications) with at least one parked request" %
                (ncorpus, 2 if tier == "quick" else 3, cfgs, dfs_total, "complete within the bound" if dfs_complete else "budget-limited", nrand + ncrowd + nwarp + 7 * ntarget,
                 5 if tier == "quick" else 7))
    res.dist = {"status": stat, "executions_with_contention": parks, "dfs_executions": dfs_total, "random_executions": nrand, "crowd_executions": ncrowd, "id_warp_executions": nwarp,
                "skipped_after_crashes": len(runs) - len(executed)}
    if executed:
        res.samples = [{"run": executed[min(len(executed) - 1, ncorpus)].line, "steps": canonical_steps(parse(executed[min(len(executed) - 1, ncorpus)]))[:40]},
                       {"run": executed[-1].line, "steps": canonical_steps(parse(executed[-1]))[:40]}]

    # monitors (direct statement of the property on the trace)
    nviol = 0
    for r in executed:
        msgs = monitor(prop, progs_of(r), r)
        if msgs:
            nviol += 1
            if nviol <= 3:
                small = shrink(binary, prop, r)
                res.failures.append(Failure("violation", "rwp::Resource, programs %s: %s" % (progs_of(small), monitor(prop, progs_of(small), small)[0]),
                                            signature="%s|%s" % (progs_of(small), " ".join(map(str, small.choices()))),
                                            replay={"component": "rwp", "progs": progs_of(small), "schedule": small.choices(),
                                                    "events": small.events, "status": small.status, "stderr": small.stderr[-1500:]}))
    res.extra["monitor_violations"] = nviol
    # lock-step replay on the model
    mm = model_check(None, executed)
    nmm = 0
    for r, bad in zip(executed, mm):
        if bad:
            nmm += 1
            if nmm <= 2:
                res.failures.append(Failure("drift", "lock-step replay: real Resource and the Lean model disagree (%s): %s" % (r.line, bad),
                                            replay={"correspondence": "rwp lock-step replay", "run": r.line, "schedule": r.choices(), "events": r.events,
                                                    "mismatch": bad}))
    res.extra["model_mismatches"] = nmm
    return res


def shrink(binary, prop, run):
    """shorter explicit schedule with the same verdict: drop trailing choices (the default policy continues), then threads"""
    progs = progs_of(run)
    best = run
    ch = run.choices()
    lo, hi = 0, len(ch)
    # shortest prefix that still fails (monotone enough in practice; verified by re-running)
    while lo < hi:
        mid = (lo + hi) // 2
        r = schedtie.run_batch(binary, [explicit_line(progs, ch[:mid])])[0]
        if r.status is not None and monitor(prop, progs, r):
            hi = mid
            best = r
        else:
            lo = mid + 1
    return best


def replay(prop, spec, path):
    data = json.load(open(path))
    rp = data.get("replay", {})
    if "progs" not in rp:
        print(json.dumps(data, indent=1)[:4000])
        return 0
    binary, out = schedtie.build("rwp_harness", HARNESS, REPO_SRC)
    r = schedtie.run_batch(binary, [explicit_line(rp["progs"], rp["schedule"])])[0]
    for e in r.events:
        print(e)
    print("end", r.status)
    msgs = monitor(prop, rp["progs"], r)
    bad = model_check(None, [r])[0]
    if bad:
        print("model replay:", bad)
    for m in msgs:
        print("MONITOR:", m)
    if msgs:
        print("VIOLATION property=%s replay=%s" % (prop, path))
    return 1 if msgs else 0
