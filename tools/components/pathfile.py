"""C17 / C18: tulz::File, tulz::Path, tulz::DirectoryVisitor against the Lean models and direct Python oracles.

Three-way tie per case (list of op lines):  oracle (Python: bytes / dict tree / posixpath, stating the property),
impl (C++ harness on the real code, ASan+UBSan), model (tulzdrv).  impl != oracle -> violation (shrunk, replayable);
model != oracle -> drift.  Everything on disk lives under one fresh tempfile.mkdtemp(dir="/var/tmp") that is
always removed; every case gets its own sub-directory (`<tag> root @` is instantiated with it).
"""
import hashlib
import itertools
import json
import os
import posixpath
import re
import shutil
import subprocess
import tempfile
import time

import lib
import seqtie
from lib import Failure, TieResult

FILE_HARNESS = "harness/file/file_harness.cpp"
PATH_HARNESS = "harness/path/path_harness.cpp"
FILE_SRCS = ["src/File.cpp", "src/Path.cpp", "src/Exception.cpp"]
PATH_SRCS = ["src/Path.cpp", "src/DirectoryVisitor.cpp", "src/Exception.cpp"]
TMP_PARENT = "/var/tmp"
HARNESS_TIMEOUT = 900      # Lean driver
# File::read() on a stream that cannot be read (AppendText; a directory) never returns.  Nothing generates that on the
# unchanged code; a harness stream that does not finish in time is killed and the hanging case is located.
STREAM_TIMEOUT = [75]
SHRINK_TIMEOUT = 15

PROPS = {
    "C17": {
        "design_ref": "6.6/C17",
        "technique": "Lean 4 proof over a transcription of File.cpp on top of a written-down stdio/POSIX specification (round trip, append/truncate, fgetc/feof counting loop, size, open errors, every seek/tell/size/read history) + three-way differential correspondence on real files",
        "level_text": "Partial by nature (libc and the kernel are specified, not verified): machine-checked proof that, given the stdio specification of Model/Stdio.lean, every byte string written through File in any write/append mode with any split into write calls is read back identically by read(), readStr() and read(buffer,..) in both read modes, append adds after the old content and write truncates, the fgetc/feof loop counts exactly the remaining bytes for any bytes (0xFF, 0x00 included), size() equals the content length and leaves the position, a missing file gives NotFound and a directory NotFile, and every history of seek/tell/size/read calls equals the byte-list specification. The stdio specification and the transcription are tied to glibc and File.cpp on every run by running model, a Python oracle and the real File on generated contents, splits, modes and call sequences.",
        "level_note": "Trusted: Lean kernel; the stdio/POSIX specification (Stdio.lean) — validated against glibc only by the correspondence run; transcription of File.cpp; no buffering/second stream; wrong-direction I/O is outside the statement.",
        "lean_modules": ["Tulz.Props.C17"],
        "theorems": ["Tulz.C17_roundtrip", "Tulz.C17_truncate", "Tulz.C17_append", "Tulz.C17_read_back",
                     "Tulz.C17_count_loop", "Tulz.C17_count_loop_diverges", "Tulz.C17_size", "Tulz.C17_open_errors",
                     "Tulz.C17_history", "Tulz.C17_history_from_open"],
        "trusted_base": [
            "modelled, not verified: C stdio + POSIX file semantics as written down in lean/Tulz/Model/Stdio.lean (fopen r/rb/w/wb/a/ab, "
            "fwrite, fread, fgetc, feof, fseek, ftell, fclose on binary streams; text = binary on POSIX; append streams write at the end "
            "and start with ftell = size; no buffering: one stream per file while it is being written, external observation only after close)",
            "Path::exists / Path::isDirectory are modelled on the flat disk of Stdio.lean (fopen(path,\"r\") succeeds on files and directories, opendir on directories)",
            "Array<byte>(n) = n uninitialised cells; malloc/free not modelled; sizes are unbounded Nat (no size_t/long overflow, files < 2^63 bytes)",
        ],
        "assumptions": ["POSIX (text mode = binary mode)", "the parent directory exists and is writable; no other process touches the files",
                        "reading from a stream that is not open for reading is outside the statement (File::read() on AppendText hangs; "
                        "the model reports it as Err.hang, theorem C17_count_loop_diverges)"],
    },
    "C18": {
        "design_ref": "6.6/C18",
        "technique": "Lean 4 proofs: string identities of join/getPathName/getParentDirectory over all strings (2^64 size_t wrap modelled), structural induction over a file-system tree for size/listChildren, well-nestedness induction for DirectoryVisitor; exhaustive short-string + generated-tree correspondence on the real code",
        "level_text": "String part proved outright for every string: name(join(d,n)) = n, parent(join(d,n)) = d without one trailing '/', join with an absolute path yields that path, isAbsolute iff leading '/', and no find/erase position ever leaves the string (total, no hypothesis). File-system part partial by nature (the OS is a specification): on a finite tree exists/isFile/isDirectory agree with the tree, listChildren is a duplicate-free permutation of the entry names without . and .. for every readdir order, a directory's size is the sum of the regular files beneath it, and any well-nested sequence of DirectoryVisitor lifetimes restores the working directory. Tied to Path.cpp/DirectoryVisitor.cpp on every run: all strings up to length 5 over a separator-rich alphabet and generated temp trees with nested visitors, compared across model, Python oracle (posixpath/os.scandir) and the real code (also against std::filesystem).",
        "level_note": "Trusted: Lean kernel; libstdc++ string primitives as transcribed; the finite-tree / readdir / chdir specifications (validated by the correspondence run only); no symlinks, permissions, paths >= FILENAME_MAX.",
        "lean_modules": ["Tulz.Props.C18"],
        "theorems": ["Tulz.C18_name_of_join", "Tulz.C18_parent_of_join", "Tulz.C18_join_absolute", "Tulz.C18_isAbsolute", "Tulz.C18_total",
                     "Tulz.C18_exists_isFile_isDirectory", "Tulz.C18_listChildren", "Tulz.C18_listChildren_errors", "Tulz.C18_size_dir",
                     "Tulz.C18_size_sum_files", "Tulz.C18_size_missing", "Tulz.C18_visitor_restores", "Tulz.C18_visitor_restores_nested"],
        "trusted_base": [
            "string part: std::string::find_last_of / find / erase / back as transcribed in lean/Tulz/Model/PathStr.lean (libstdc++ semantics, size_t = 64 bit)",
            "modelled, not verified (tree part): the kernel file system as a finite tree (lean/Tulz/Model/FsTree.lean): fopen(path,\"r\") succeeds iff the path "
            "resolves, opendir iff it is a directory, readdir = the entries plus . and .. in any order (ReaddirSpec), ftell at the end = file size",
            "modelled, not verified (visitor part): chdir/getcwd as Tulz.Dv.OsSpec (getcwd returns an absolute non-empty path to which chdir returns from anywhere)",
        ],
        "assumptions": ["strings shorter than 2^64-1 bytes (every std::string)", "no symlinks, special files, permission errors or concurrent modification",
                        "paths shorter than FILENAME_MAX; the working directory is not deleted while a visitor is alive",
                        "names within one directory are unique and are not . or .. (WF)"],
    },
}


class Invalid(Exception):
    pass


def hx(b):
    return b.hex() if b else "-"


def unhx(s):
    return b"" if s == "-" else bytes.fromhex(s)


_fnv_cache = {}


def show_bytes(b):
    """same rule as the harness and the Lean driver: long data is printed as #<length>:<FNV-1a 64>"""
    b = bytes(b)
    if len(b) <= 64:
        return hx(b)
    key = hashlib.sha1(b).digest()
    if key not in _fnv_cache:
        h = 14695981039346656037
        for x in b:
            h = ((h ^ x) * 1099511628211) & 0xFFFFFFFFFFFFFFFF
        _fnv_cache[key] = "#%d:%016x" % (len(b), h)
    return _fnv_cache[key]


# =================================================================================================== C18 strings

SEP1 = (b"/", b"\\")


def o_name(s):
    """last segment, keeping ONE trailing separator; a lone separator names nothing"""
    if s in SEP1:
        return b""
    body, tail = (s[:-1], s[-1:]) if s[-1:] in SEP1 else (s, b"")
    return re.split(rb"[/\\]", body)[-1] + tail


def o_parent(s):
    """everything before the last separator, after dropping ONE trailing separator; nothing if there is none"""
    t = s[:-1] if s[-1:] in SEP1 else s
    m = re.match(rb"(?s)(.*)[/\\][^/\\]*\Z", t)
    return m.group(1) if m else b""


def str_expected(line):
    t = line.split()
    op = t[1]
    a = unhx(t[2])
    if op == "name":
        return hx(o_name(a))
    if op == "parent":
        return hx(o_parent(a))
    if op == "abs":
        return "b=1" if posixpath.isabs(a) else "b=0"
    b = unhx(t[3])
    if op == "join":
        return hx(posixpath.join(a, b))
    # the property itself: d non-empty, n non-empty and separator-free
    if not a or not b or b"/" in b or b"\\" in b:
        raise Invalid()
    if op == "nj":
        return hx(b)
    if op == "pj":
        return hx(a[:-1] if a.endswith(b"/") else a)
    raise Invalid()


ALPHABET = [b"/", b"\\", b"a", b"b", b".", b" ", b"\xc3"]


def words(maxlen, minlen=0, alphabet=ALPHABET):
    for n in range(minlen, maxlen + 1):
        for w in itertools.product(alphabet, repeat=n):
            yield b"".join(w)


def gen_string_lines(rng, tier):
    lines = []
    full = 5 if tier == "quick" else 6
    for w in words(full):
        h = hx(w)
        lines += ["ps name " + h, "ps parent " + h, "ps abs " + h]
    names = [w for w in words(2, 1) if b"/" not in w and b"\\" not in w]
    dmax = 3 if tier == "quick" else 4
    for d in words(dmax, 1):
        for n in names:
            lines += ["ps nj %s %s" % (hx(d), hx(n)), "ps pj %s %s" % (hx(d), hx(n))]
    for p in words(3):
        for q in words(2):
            lines.append("ps join %s %s" % (hx(p), hx(q)))
    # random longer strings: segments and separators, any byte value now and then
    segs = [b"a", b"bc", b"..", b".", b" ", b"d e", b"\xc3\xa9", b"\xe6\x97\xa5", b"x.txt", b".h", b"C:", b""]

    def rnd_path():
        parts = []
        if rng.chance(1, 3):
            parts.append(rng.pick([b"/", b"\\", b"//", b"/\\"]))
        for _ in range(1 + rng.below(8)):
            if rng.chance(1, 10):
                parts.append(bytes(rng.below(256) for _ in range(1 + rng.below(4))))
            else:
                parts.append(rng.pick(segs))
            parts.append(rng.pick([b"/", b"/", b"\\", b"//", b"", b"/"]))
        if rng.chance(1, 2) and parts:
            parts.pop()
        return b"".join(parts)

    def rnd_name():
        while True:
            n = rng.pick(segs[:-1] + [bytes(rng.below(256) for _ in range(1 + rng.below(6)))])
            n = n.replace(b"/", b"_").replace(b"\\", b"_")
            if n:
                return n

    for _ in range(2000 if tier == "quick" else 20000):
        p, q = rnd_path(), rnd_path()
        lines += ["ps name " + hx(p), "ps parent " + hx(p), "ps abs " + hx(p), "ps join %s %s" % (hx(p), hx(q))]
        if p:
            n = rnd_name()
            lines += ["ps nj %s %s" % (hx(p), hx(n)), "ps pj %s %s" % (hx(p), hx(n))]
        if rng.chance(1, 4):
            lines.append("ps join %s %s" % (hx(p), hx(b"/" + q)))
    return lines


# =================================================================================================== C18 tree + visitor

NAME_POOL = [b"a", b"b", b"c", b"d e", b" lead", b"trail ", b"\xc3\xa9", b"\xe6\x97\xa5\xe6\x9c\xac", b"..x", b"...", b".hidden", b"x.", b"z.txt",
             b"a.b.c", b"-", b"\\", b"tab\tname", b"long" * 12, b"\xff\xfe", b"..a..", b". ."]


class FsRef:
    """the description of the tree (dict name -> node; node = int size | dict) and the property-level answers"""

    def __init__(self):
        self.tree = {}
        self.cwd = []          # segments below the root
        self.saved = []        # working directories saved by live visitors (what each destructor must restore)

    @staticmethod
    def segs(h):
        return [s for s in unhx(h).split(b"/") if s]

    def find(self, segs):
        n = self.tree
        for s in segs:
            if not isinstance(n, dict) or s not in n:
                return None
            n = n[s]
        return n

    @staticmethod
    def total(n):
        return n if not isinstance(n, dict) else sum(FsRef.total(c) for c in n.values())

    @staticmethod
    def lst(names):
        return "l=" + ",".join(sorted(hx(n) for n in names))

    def cwdline(self):
        return "cwd=" + hx(b"/" + b"/".join(self.cwd))

    def step(self, line):
        t = line.split()
        op = t[1]
        if op == "root":
            self.__init__()
            return "ok"
        if op == "fds":
            return "n=0"          # no call of Path / DirectoryVisitor leaves a descriptor open
        if op in ("mkdir", "mkfile"):
            segs = self.segs(t[2])
            parent = self.find(segs[:-1])
            if not segs or not isinstance(parent, dict) or segs[-1] in parent:
                raise Invalid()
            parent[segs[-1]] = {} if op == "mkdir" else int(t[3])
            return "ok"
        if op in ("exists", "isfile", "isdir", "size", "list", "sfs_size", "sfs_list"):
            n = self.find(self.segs(t[2]))
            if n is not None and not isinstance(n, dict) and unhx(t[2]).endswith(b"/"):
                n = None          # `file/` names nothing: the final separator asks for an entry below a regular file (ENOTDIR)
            if op == "exists":
                return "b=%d" % (n is not None)
            if op == "isfile":
                return "b=%d" % (n is not None and not isinstance(n, dict))
            if op == "isdir":
                return "b=%d" % isinstance(n, dict)
            if n is None:
                return "!NotFound"
            if op in ("size", "sfs_size"):
                return "n=%d" % self.total(n)
            if not isinstance(n, dict):
                return "!NotDirectory"
            return self.lst(n.keys())
        if op in ("dv_push", "dv_visit", "chdir"):
            d = unhx(t[2])
            if op == "dv_push":
                self.saved.append(None)               # a visitor that has not visited anything restores nothing
            elif op == "dv_visit" and not self.saved:
                raise Invalid()
            if d:
                if op != "chdir":
                    self.saved[-1] = list(self.cwd)   # visit(): remember the directory that is current NOW
                cur = [] if d.startswith(b"/") else list(self.cwd)
                for s in d.split(b"/"):
                    if s == b"..":
                        if not cur:
                            raise Invalid()          # would leave the temporary tree
                        cur.pop()
                    elif s and s != b".":
                        cur.append(s)
                if isinstance(self.find(cur), dict):  # chdir succeeds exactly on directories
                    self.cwd = cur
            elif op == "dv_visit":
                raise Invalid()                       # set("") + visit() is not generated
            return self.cwdline()
        if op in ("dv_pop", "dv_restore"):
            if not self.saved:
                raise Invalid()
            if self.saved[-1] is not None:
                self.cwd = list(self.saved[-1])       # the property: the working directory from before the visit is back
            if op == "dv_pop":
                self.saved.pop()
            return self.cwdline()
        if op == "cwd":
            return self.cwdline()
        raise Invalid()


def fs_expected(case):
    r = FsRef()
    return [r.step(l) for l in case]


def fs_valid(case):
    try:
        fs_expected(case)
        return bool(case) and case[0].split()[1] == "root"
    except Invalid:
        return False


def deep_cases():
    """directory chains whose absolute path is 300 - 1500 bytes long (every component a legal name, far below PATH_MAX), with
    a DirectoryVisitor scope opened at every level by a RELATIVE path: a working-directory buffer sized for one component
    shows here"""
    out = []
    for names in ([b"d%02d_" % i + b"x" * 34 for i in range(9)],
                  [b"a b." + bytes([0xc3, 0xa9]) * 20 + b"%d" % i for i in range(12)],
                  [b"n" * 200 + b"%d" % i for i in range(7)]):
        case = ["ps root @"]
        for i in range(len(names)):
            case.append("ps mkdir " + hx(b"/".join(names[:i + 1])))
        case.append("ps mkfile %s 7" % hx(b"/".join(names) + b"/f"))
        case.append("ps cwd")
        for i, n in enumerate(names):
            case += ["ps dv_push " + hx(n), "ps cwd"]
        for i in range(len(names)):
            case += ["ps dv_pop", "ps cwd"]
        # nested scopes entered by absolute paths from a deep working directory
        case += ["ps dv_push " + hx(b"/" + b"/".join(names)), "ps dv_push " + hx(b"/" + names[0]), "ps cwd", "ps dv_pop", "ps cwd", "ps dv_pop", "ps cwd",
                 "ps size " + hx(names[0]), "ps list " + hx(b"/".join(names))]
        out.append(case)
    return out


def huge_cases():
    """directories whose total (and single files whose size) pass 2^31 and 2^32: sums must be taken in size_t.  The harness
    creates files from 16 MiB on as sparse files."""
    G = 1 << 30
    out = []
    for sizes in ([3 * G // 2, 3 * G // 2], [2 * G - 1, 1], [2 * G + 5], [G, G, G, G, 7], [5 * G, 300]):
        case = ["ps root @", "ps mkdir " + hx(b"d"), "ps mkdir " + hx(b"d/sub")]
        for i, n in enumerate(sizes):
            case.append("ps mkfile %s %d" % (hx((b"d/f%d" if i % 2 == 0 else b"d/sub/g%d") % i), n))
        case.append("ps mkfile %s 12" % hx(b"d/small"))
        for q in (b"d", b"d/sub", b"d/f0", b""):
            case += ["ps size " + hx(q), "ps sfs_size " + hx(q)]
        out.append(case)
    return out


def gen_fs_case(rng, tier, big):
    ref = FsRef()
    case = ["ps root @"]
    dirs = [[]]
    files = []
    depth_max = 1 + rng.below(5)                                    # depth <= 5
    budget = 6 + rng.below(60 if tier == "quick" else 160)

    def rel(segs):
        return hx(b"/".join(segs))

    def emit(l):
        ref.step(l)
        case.append(l)

    frontier = [[]]
    while frontier and budget > 0:
        d = frontier.pop(rng.below(len(frontier)))
        fan = 1 + rng.below(5) if not d else rng.below(6)            # fan-out <= 5; below the root 0 = empty directory
        names = []
        while len(names) < fan:
            n = rng.pick(NAME_POOL)
            if n not in names:
                names.append(n)
        for n in names:
            budget -= 1
            p = d + [n]
            if len(p) < depth_max and rng.chance(1, 2):
                emit("ps mkdir " + rel(p))
                dirs.append(p)
                frontier.append(p)
            elif rng.chance(1, 8):
                emit("ps mkdir " + rel(p))          # a directory that stays empty
                dirs.append(p)
            else:
                k = rng.below(10)
                size = 0 if k < 2 else 1 + rng.below(300) if k < 6 else rng.pick([4095, 4096, 4097, 65536, 65537, 100000])
                if big and k == 9:
                    size = (1 << 20) + rng.below(1 << 18)
                emit("ps mkfile %s %d" % (rel(p), size))
                files.append(p)
    # queries: every node, plus missing paths and a file used as a directory
    for p in dirs:
        for op in ("exists", "isfile", "isdir", "size", "sfs_size", "list", "sfs_list"):
            emit("ps %s %s" % (op, rel(p)))
        if p and rng.chance(1, 3):
            emit("ps size " + hx(b"/".join(p) + b"/"))          # trailing separator on a directory
            emit("ps list " + hx(b"/".join(p) + b"/"))
    for p in files[:6]:
        for op in ("exists", "isfile", "isdir", "size", "sfs_size", "list"):
            emit("ps %s %s" % (op, hx(b"/".join(p) + rng.pick([b"/", b"//"]))))      # trailing separator(s) on a regular file
    for p in files:
        for op in ("exists", "isfile", "isdir", "size", "sfs_size"):
            emit("ps %s %s" % (op, rel(p)))
        if rng.chance(1, 2):
            emit("ps list " + rel(p))
            emit("ps sfs_list " + rel(p))
    for _ in range(3):
        base = rng.pick(dirs)
        miss = base + [b"missing" + bytes([97 + rng.below(26)])]
        for op in ("exists", "isfile", "isdir", "size", "list"):
            emit("ps %s %s" % (op, rel(miss)))
    if files:
        f = rng.pick(files)
        emit("ps exists " + rel(f + [b"x"]))
        emit("ps size " + rel(f + [b"x"]))
    # nested visitors: a random well-nested push/pop word; all popped at the end
    emit("ps cwd")
    depth = 0
    for _ in range(rng.below(24)):
        if depth and rng.chance(2, 5):
            emit("ps dv_pop")
            depth -= 1
            continue
        k = rng.below(10)
        here = ref.cwd
        node = ref.find(here)
        subs = [n for n, c in node.items() if isinstance(c, dict)] if isinstance(node, dict) else []
        if k < 4:
            arg = b"/" + b"/".join(rng.pick(dirs))
        elif k < 6 and subs:
            arg = rng.pick(subs)                                   # relative to the working directory
        elif k == 6 and here:
            arg = rng.pick([b"..", b"../", b"./.."])
        elif k == 7:
            arg = b""                                              # default constructor: visits nothing
        elif k == 8 and files:
            arg = b"/" + b"/".join(rng.pick(files))                # chdir fails (not a directory)
        else:
            arg = rng.pick([b"/nope", b"nope", b"/" + b"/".join(rng.pick(dirs)) + b"/"])
        emit("ps dv_push " + hx(arg))
        depth += 1
        if rng.chance(1, 6):
            emit("ps cwd")
        if rng.chance(1, 4):
            # the same visitor object is used again: restore(), the working directory changes by other means, visit() again
            emit("ps dv_restore")
            if rng.chance(2, 3):
                emit("ps chdir " + hx(b"/" + b"/".join(rng.pick(dirs))))
            emit("ps dv_visit " + hx(b"/" + b"/".join(rng.pick(dirs))))
    while depth:
        emit("ps dv_pop")
        depth -= 1
    emit("ps cwd")
    return case


def tree_shape(case):
    r = FsRef()
    for l in case:
        if l.split()[1] in ("root", "mkdir", "mkfile"):
            r.step(l)

    def sh(n):
        if not isinstance(n, dict):
            return "f0" if n == 0 else "fL" if n >= (1 << 20) else "f"
        return "(" + ",".join(sorted(sh(c) for c in n.values())) + ")"
    return sh(r.tree)


def os_tree(path):
    """the tree as the operating system reports it (os.scandir / os.path.getsize)"""
    out = {}
    for e in os.scandir(os.fsencode(path)):
        if e.is_symlink():
            out[e.name] = "symlink"
        elif e.is_dir():
            out[e.name] = os_tree(e.path)
        else:
            out[e.name] = os.path.getsize(e.path)
    return out


# =================================================================================================== C17 oracle

MODES = {"rt": ("r", False), "r": ("r", True), "wt": ("w", False), "w": ("w", True), "at": ("a", False), "a": ("a", True)}


def dealias_line(line, alias):
    """symbolic links are transparent for File (fopen follows them): `file mklink L T` makes L another name for T.
    The oracle and the Lean model see the target's name; only the real code sees the link."""
    t = line.split()
    if len(t) > 1 and t[0] == "file":
        if t[1] == "mklink":
            alias[t[2]] = alias.get(t[3], t[3])
            return "file root @"                     # a no-op with the answer `ok` on every side
        if t[1] == "open" and len(t) > 3 and t[3] in alias:
            t[3] = alias[t[3]]
        elif t[1] in ("fsize", "cat") and len(t) > 2 and t[2] in alias:
            t[2] = alias[t[2]]
        return " ".join(t)
    return line


def dealias_case(case):
    alias = {}
    return [dealias_line(l, alias) for l in case]


class FileRef:
    """files are byte strings; an open File is (name, kind r|w|a, position)"""

    def __init__(self):
        self.files = {}
        self.dirs = set()
        self.objs = {}
        self.alias = {}

    def step(self, line):
        line = dealias_line(line, self.alias)
        t = line.split()
        op = t[1]
        if op == "root":
            return "ok"
        if op == "mkfile":
            if t[2] in self.dirs:
                raise Invalid()
            self.files[t[2]] = bytearray(unhx(t[3]))
            return "ok"
        if op == "mkdir":
            if t[2] in self.files or t[2] in self.dirs:
                raise Invalid()
            self.dirs.add(t[2])
            return "ok"
        if op == "fds":
            return "n=%d" % sum(1 for o in self.objs.values() if o is not None)      # one descriptor per open File, nothing else
        if op == "procread":
            return "b=1"        # a text-mode read() of a file that reports a smaller size than it has returns the whole content
        if op == "fsize":
            return "n=%d" % len(self.files[t[2]]) if t[2] in self.files else "!NotFound"
        if op == "cat":
            return "data=" + show_bytes(self.files[t[2]]) if t[2] in self.files else "!NotFound"
        if op == "open":
            name, mode = t[3], t[4]
            fresh = t[2] not in self.objs
            exists = name in self.files or name in self.dirs
            if not exists and mode not in ("wt", "w", "at", "a"):
                return "!NotFound"
            if name in self.dirs:
                return "!NotFile"
            if mode not in MODES:
                if not fresh:
                    self.objs[t[2]] = None          # the old stream was closed before the exception
                return "!InvalidMode"
            kind = MODES[mode][0]
            if kind == "w":
                self.files[name] = bytearray()
            elif kind == "a":
                self.files.setdefault(name, bytearray())
            self.objs[t[2]] = {"name": name, "kind": kind, "pos": len(self.files[name]) if kind == "a" else 0, "mode": mode}
            if kind != "r":
                # the file changes behind the back of the read streams that are open on it: what their buffers hold is stdio's
                # business, but the questions that go to the file itself (size) keep their meaning (see `allowed`)
                for k2, o2 in self.objs.items():
                    if o2 and k2 != t[2] and o2["name"] == name and o2["kind"] == "r":
                        o2["stale"] = True
            return "ok"
        if t[2] not in self.objs:
            raise Invalid()
        o = self.objs[t[2]]
        if op == "drop":
            del self.objs[t[2]]
            return "ok"
        if op == "isopen":
            return "b=%d" % (o is not None)
        if op == "mode":
            raise Invalid()
        if o is None:
            return "!NotOpen"
        data = self.files[o["name"]]
        if op == "close":
            self.objs[t[2]] = None
            return "ok"
        if op in ("write", "writea", "writes"):
            if o["kind"] == "r":
                raise Invalid()                      # writing to a read stream: outside the property
            b = unhx(t[3])
            ret = len(b)
            if op == "write":
                esz = int(t[4])
                ret = len(b) // esz if esz else 0
                b = b[:ret * esz]
            if not b:
                ret = 0
            elif o["kind"] == "r":
                ret = 0
            elif o["kind"] == "a":
                data += b
                o["pos"] = len(data)
            else:
                if o["pos"] > len(data):
                    data += bytes(o["pos"] - len(data))
                data[o["pos"]:o["pos"] + len(b)] = b
                o["pos"] += len(b)
            return "n=%d tell=%d" % (ret, o["pos"])
        if op in ("read", "readstr"):
            if o["kind"] != "r":
                raise Invalid()                      # outside the property (AppendText: never returns)
            o["pos"] = len(data)
            return "data=%s tell=%d" % (show_bytes(data), o["pos"])
        if op == "readbuf":
            if o["kind"] != "r":
                # outside the property; glibc even discards pending output when such a read is larger than its buffer
                raise Invalid()
            sz, cnt = int(t[3]), int(t[4])
            got = bytes(data[o["pos"]:o["pos"] + sz * cnt]) if o["kind"] == "r" else b""
            o["pos"] += len(got)
            return "n=%d data=%s tell=%d" % (len(got) // sz if sz else 0, show_bytes(got), o["pos"])
        if op == "seek":
            off, org = int(t[3]), int(t[4])
            target = (0, o["pos"], len(data))[org] + off
            if target < 0:
                return "r=-1 tell=%d" % o["pos"]
            o["pos"] = target
            return "r=0 tell=%d" % target
        if op == "tell":
            return "n=%d" % o["pos"]
        if op == "size":
            return "n=%d tell=%d" % (len(data), o["pos"])
        if op == "flush":
            return "r=0"
        raise Invalid()

    def allowed(self, line):
        if line.split()[1] == "mklink":
            return True
        line = dealias_line(line, dict(self.alias))
        """stdio buffering is not part of the model: a file is looked at from outside, or through a second stream,
        only while no writer has it open (several readers are fine)"""
        t = line.split()
        if t[1] in ("fsize", "cat", "mkfile"):
            return not any(o and o["name"] == t[2] for o in self.objs.values())
        if t[1] == "open" and t[4] in MODES:
            others = [o for k, o in self.objs.items() if o and o["name"] == t[3] and k != t[2]]
            if others and MODES[t[4]][0] != "r" and all(o["kind"] == "r" for o in others) and (t[3] in self.files):
                return True       # a writer next to read streams: the readers go stale (below)
            return not (others and (MODES[t[4]][0] != "r" or any(o["kind"] != "r" for o in others)))
        o = self.objs.get(t[2]) if len(t) > 2 else None
        if o and o.get("stale") and t[1] not in ("size", "tell", "close", "isopen", "drop"):
            return False          # a stale read stream is only asked what does not depend on its buffer
        return True


def file_expected(case):
    r = FileRef()
    out = []
    for l in case:
        if not r.allowed(l):
            raise Invalid()
        out.append(r.step(l))
    return out


def file_valid(case):
    try:
        file_expected(case)
        return bool(case) and case[0].split()[1] == "root"
    except (Invalid, KeyError, IndexError, ValueError):
        return False


def rnd_content(rng, maxlen):
    k = rng.below(10)
    n = rng.pick([0, 1, 2, 3, 5, 8, 17, 64, 65, 255, 256, 1000, 4096, 4097]) if rng.chance(2, 3) else rng.below(maxlen + 1)
    n = min(n, maxlen)
    if k == 0:
        return b""
    if k == 1:
        return bytes(n)                                             # NUL bytes
    if k == 2:
        return b"\xff" * n
    if k == 3:
        return (b"\r\n" * n)[:n]
    if k == 4:
        return bytes(rng.pick([13, 10, 13, 10, 26, 0, 255, 65]) for _ in range(n))
    if k == 5:
        return (b"line\n\rtext\r\n\x1a\x00\xff" * (n // 14 + 1))[:n]
    if n > 65536:                                                   # large: cheap pseudo-random bytes
        seedb = rng.next().to_bytes(8, "little")
        out = bytearray()
        while len(out) < n:
            seedb = hashlib.sha256(seedb).digest()
            out += seedb * 64
        return bytes(out[:n])
    return bytes(rng.below(256) for _ in range(n))


def split_chunks(rng, b):
    if not b:
        return [b""] if rng.chance(1, 2) else []
    cuts = sorted(set(rng.below(len(b) + 1) for _ in range(rng.below(min(8, len(b)) + 1))))
    parts, prev = [], 0
    for c in cuts + [len(b)]:
        parts.append(b[prev:c])
        prev = c
    if rng.chance(1, 4):
        parts.insert(rng.below(len(parts) + 1), b"")               # an empty write in between
    return parts


def write_line(rng, obj, chunk, plain=False):
    k = 0 if plain else rng.below(4)
    if k == 0:
        return "file writea %s %s" % (obj, hx(chunk))
    if k == 1:
        return "file writes %s %s" % (obj, hx(chunk))
    esz = 1
    if k == 3:
        divs = [e for e in (2, 3, 4, 7, 16) if chunk and len(chunk) % e == 0]
        esz = rng.pick(divs) if divs else 1
    return "file write %s %s %d" % (obj, hx(chunk), esz)


def read_lines(rng, obj, n):
    k = rng.below(6)
    if k == 0:
        return ["file read " + obj]
    if k == 1:
        return ["file readstr " + obj]
    if k == 2:
        return ["file readbuf %s 1 %d" % (obj, n + rng.below(3))]
    if k == 3:
        return ["file readbuf %s %d 1" % (obj, max(n, 1))]
    if k == 4:
        return ["file read " + obj, "file seek %s 0 0" % obj, "file readstr " + obj]
    return ["file size " + obj, "file readbuf %s %d 2" % (obj, (n + 1) // 2 + 1)]


def gen_roundtrip(rng, maxlen, content=None, chunks=None, wmode=None, rmode=None):
    content = rnd_content(rng, maxlen) if content is None else content
    chunks = split_chunks(rng, content) if chunks is None else chunks
    wmode = wmode or rng.pick(["w", "wt", "a", "at"])
    rmode = rmode or rng.pick(["r", "rt"])
    case = ["file root @"]
    old = None
    if rng.chance(1, 2):
        old = rnd_content(rng, 300)
        case.append("file mkfile f " + hx(old))
    case.append("file open W f " + wmode)
    if rng.chance(1, 3):
        case.append("file tell W")
    for c in chunks:
        case.append(write_line(rng, "W", c, plain=len(c) > 65536))
        if rng.chance(1, 5):
            case.append("file size W")
    case += [rng.pick(["file close W", "file drop W"]), "file fsize f", "file cat f", "file open R f " + rmode]
    total = len(content) + (len(old) if old is not None and wmode in ("a", "at") else 0)
    case += read_lines(rng, "R", total)
    case += ["file tell R", "file size R", "file close R"]
    return case


def gen_all_splits(maxlen):
    """every split of a fixed content into successive writes, every write mode x read mode"""
    cases = []
    base = bytes([0, 255, 13, 10, 65, 26])
    for n in range(0, maxlen + 1):
        content = base[:n]
        for mask in range(1 << max(n - 1, 0)):
            chunks, prev = [], 0
            for i in range(1, n):
                if mask >> (i - 1) & 1:
                    chunks.append(content[prev:i])
                    prev = i
            chunks.append(content[prev:])
            for wm in ("w", "wt", "a", "at"):
                for rm in ("r", "rt"):
                    c = ["file root @", "file mkfile f 0102", "file open W f " + wm]
                    for i, ch in enumerate(chunks):
                        c.append(["file writea W %s", "file writes W %s", "file write W %s 1"][(i + mask) % 3] % hx(ch))
                    c += ["file close W", "file cat f", "file open R f " + rm, "file read R", "file tell R", "file seek R 0 0", "file readstr R",
                          "file seek R 0 0", "file readbuf R 1 %d" % (n + 3), "file size R", "file close R"]
                    cases.append(c)
    return cases


def gen_history(rng, maxlen):
    """random seek/tell/size/read sequences; mostly on readable streams, sometimes on write/append streams"""
    ref = FileRef()
    case = []

    def emit(l):
        try:
            ref.step(l)
            case.append(l)
        except Invalid:
            pass

    emit("file root @")
    content = rnd_content(rng, maxlen)
    emit("file mkfile f " + hx(content))
    kind = rng.pick(["r", "rt", "r", "rt", "r", "rt", "w", "wt", "a", "at"])
    emit("file open F f " + kind)
    readable = kind in ("r", "rt")
    for _ in range(4 + rng.below(40)):
        o = ref.objs["F"]
        size, pos = len(ref.files["f"]), o["pos"]
        k = rng.below(100)
        if k < 30:
            org = rng.below(3)
            base = (0, pos, size)[org]
            target = rng.pick([0, size, size - 1, size + 1, pos, size // 2, rng.below(size + 5), -1, -rng.below(4) - 1, size + 3 + rng.below(50)])
            emit("file seek F %d %d" % (target - base, org))
        elif k < 40:
            emit("file tell F")
        elif k < 55:
            emit("file size F")
        elif k < 80:
            sz = rng.pick([1, 1, 1, 2, 3, 4, 7, 0, 16])
            cnt = rng.pick([0, 1, 2, 3, 5, 64, size + 1, rng.below(size + 2)])
            if not readable:
                emit(write_line(rng, "F", rnd_content(rng, rng.pick([0, 1, 5, 40, 5000]))))
            elif sz * cnt <= 1 << 16:
                emit("file readbuf F %d %d" % (sz, cnt))
        elif k < 96:
            if readable:
                emit(rng.pick(["file read F", "file readstr F"]))
            else:
                emit(write_line(rng, "F", rnd_content(rng, 40)))
        else:
            emit("file flush F")
    emit("file tell F")
    emit("file close F")
    emit("file fsize f")
    emit("file cat f")
    return case


def gen_errors(rng):
    ref = FileRef()
    case = []

    def emit(l):
        try:
            if ref.allowed(l):
                ref.step(l)
                case.append(l)
        except Invalid:
            pass

    emit("file root @")
    emit("file mkfile f " + hx(rnd_content(rng, 50)))
    emit("file mkfile g " + hx(rnd_content(rng, 50)))
    emit("file mkdir d")
    # symbolic links: to a directory, to a regular file, and a dangling one (File must follow them like fopen does)
    emit("file mklink ld d")
    emit("file mklink lf f")
    emit("file mklink lm missing3")
    for _ in range(6 + rng.below(14)):
        obj = rng.pick(["A", "B", "C"])
        k = rng.below(12)
        if k < 5:
            name = rng.pick(["f", "g", "d", "missing", "missing2", "h", "ld", "lf", "lm", "ld", "lm"])
            mode = rng.pick(["r", "rt", "w", "wt", "a", "at", "none"])
            emit("file open %s %s %s" % (obj, name, mode))
        elif obj in ref.objs:
            if k == 5:
                emit("file close " + obj)
            elif k == 6:
                emit("file isopen " + obj)
            elif k == 7:
                emit("file drop " + obj)
            elif k == 8:
                emit("file size " + obj)
            elif k == 9:
                o = ref.objs[obj]
                if o and o["kind"] == "r":
                    emit("file read " + obj)
                else:
                    emit(write_line(rng, obj, rnd_content(rng, 12)))
            elif k == 10:
                emit("file tell " + obj)
            else:
                emit("file seek %s %d %d" % (obj, rng.below(9) - 3, rng.below(3)))
    for obj in sorted(ref.objs):
        emit("file isopen " + obj)
        emit("file drop " + obj)
    for name in ("f", "g", "h", "missing", "missing3"):
        emit("file fsize " + name)
        emit("file cat " + name)
    return case


def gen_grown_behind_reader(rng):
    """a read stream is open (and has been asked for its size, perhaps has read something) while the file is appended to or
    rewritten through a second File that is closed again: size() of the first stream is the size of the FILE"""
    c0 = rnd_content(rng, 300)
    c1 = rnd_content(rng, 300) or b"x"
    rmode = rng.pick(["r", "rt"])
    case = ["file root @", "file mkfile f " + hx(c0), "file open R f " + rmode, "file size R"]
    if rng.chance(1, 2) and c0:
        case.append("file readbuf R 1 %d" % (1 + rng.below(len(c0))))
    case += ["file open W f " + rng.pick(["a", "at", "a", "w"]), "file writes W " + hx(c1), "file close W",
             "file size R", "file tell R", "file size R", "file close R", "file fsize f", "file cat f"]
    return case


def gen_file_cases(rng, tier):
    cases = []
    cases += [c for c in (gen_grown_behind_reader(rng) for _ in range(60 if tier == "quick" else 600)) if file_valid(c)]
    cases += gen_all_splits(5 if tier == "quick" else 6)
    nrt, nh, ne = (700, 900, 300) if tier == "quick" else (6000, 8000, 2500)
    cases += [gen_roundtrip(rng, 5000) for _ in range(nrt)]
    cases += [gen_history(rng, rng.pick([0, 1, 7, 40, 300, 5000])) for _ in range(nh)]
    cases += [gen_errors(rng) for _ in range(ne)]
    cases += [["file root @", "file procread"]]
    # large contents
    sizes = [1 << 16, (1 << 18) + 3] if tier == "quick" else [1 << 16, (1 << 20) + 1, (1 << 21) + 12345, 1 << 22, (1 << 22) - 1]
    for n in sizes:
        for wm, rm in (("w", "r"), ("at", "rt"), ("a", "rt"), ("wt", "r")):
            content = rnd_content_fixed(rng, n)
            step = rng.pick([1 << 16, 65537, 100000, n // 3 + 1])
            chunks = [content[i:i + step] for i in range(0, n, step)]
            cases.append(gen_roundtrip(rng, n, content=content, chunks=chunks, wmode=wm, rmode=rm))
    return cases


def rnd_content_fixed(rng, n):
    seedb = rng.next().to_bytes(8, "little")
    out = bytearray()
    while len(out) < n:
        seedb = hashlib.sha256(seedb).digest()
        out += seedb * 32
    out = out[:n]
    # sprinkle the bytes the property names
    for i in range(0, n, 4099):
        out[i] = (0, 255, 13, 10, 26)[(i // 4099) % 5]
    return bytes(out)


def model_feasible(case):
    """the Lean model keeps bytes in a List: fgetc at position p costs p steps, so the counting loop of a text-mode
    read() is quadratic.  Cases that count more than 48 KiB that way are tied impl-vs-oracle only."""
    ref = FileRef()
    for l in case:
        t = l.split()
        try:
            ref.step(l)
        except Invalid:
            return True
        if any(o and o.get("stale") for o in ref.objs.values()):
            return False          # two streams on one file: outside the one-stream stdio specification of the model
        if t[1] in ("read", "readstr"):
            o = ref.objs.get(t[2])
            if o and o["mode"] in ("rt", "at") and len(ref.files[o["name"]]) > 48 * 1024:
                return False
    return True


# =================================================================================================== running

class Workdir:
    """one fresh directory under /var/tmp per run_tie/replay; every instantiated case gets a sub-directory"""

    def __init__(self):
        self.top = os.path.realpath(tempfile.mkdtemp(dir=TMP_PARENT, prefix="tulz_pathfile_"))
        self.n = 0

    def instantiate(self, case):
        self.n += 1
        d = os.path.join(self.top, "c%d" % self.n)
        os.mkdir(d)
        return [case[0].replace("@", d.encode().hex())] + list(case[1:]), d

    def cleanup(self):
        shutil.rmtree(self.top, ignore_errors=True)


def run_stream_t(binary, cases, reset_line, timeout):
    """seqtie.run_stream for the harness with hang handling: when the harness does not finish within `timeout` it is
    killed, the case in which the output stopped gets `!TIMEOUT` and the stream resumes after it (the harness
    flushes after every line).  A sanitizer abort is attributed the same way (`!ABORT …`)."""
    results = [None] * len(cases)
    start = 0
    env = dict(os.environ)
    env.update(lib.ASAN_ENV)
    while start < len(cases):
        lines, bounds = [], []
        for c in cases[start:]:
            lines.append(reset_line)
            bounds.append((len(lines), len(lines) + len(c)))
            lines.extend(c)
        p = subprocess.Popen([binary], stdin=subprocess.PIPE, stdout=subprocess.PIPE, stderr=subprocess.PIPE, text=True, env=env)
        timed_out = False
        try:
            so, se = p.communicate("\n".join(lines) + "\n", timeout=timeout)
        except subprocess.TimeoutExpired:
            p.kill()
            so, se = p.communicate()
            timed_out = True
        out = so.split("\n")
        if out and out[-1] == "":
            out.pop()
        done = 0
        complete = True
        for k, (a, b) in enumerate(bounds):
            if b <= len(out):
                results[start + k] = out[a:b]
                done += 1
            else:
                part = out[a:] if a <= len(out) else []
                mark = "!TIMEOUT after %ds (the call never returned)" % timeout if timed_out else \
                    "!ABORT rc=%s %s" % (p.returncode, seqtie.summarize_err(se[-3000:]))
                results[start + k] = part + [mark]
                done += 1
                complete = False
                break
        if complete:
            break
        start += done
    return results


def run_impl(binary, wd, cases, tag, timeout=None):
    inst, dirs = [], []
    for c in cases:
        i, d = wd.instantiate(c)
        inst.append(i)
        dirs.append(d)
    cwd = os.getcwd()
    try:
        outs = run_stream_t(binary, inst, tag + " reset", timeout or STREAM_TIMEOUT[0])
    finally:
        os.chdir(cwd)
    return outs, dirs


IMPL_ONLY = {"ps": "ps fds", "file": "file fds"}


def run_model(cases, tag):
    """model outputs; `<tag> fds` (descriptors still open) is a question to the process, not to the model: the line is not sent
    and the oracle's answer is put in its place"""
    q = IMPL_ONLY.get(tag)
    # `file procread` is a question about the machine's procfs: like `fds` it is answered by the oracle on the model's behalf
    qs = {q, "file procread"} if tag == "file" else {q}
    if tag == "file":
        cases = [dealias_case(c) for c in cases]
    stripped = [[l for l in c if l not in qs] for c in cases]
    outs = seqtie.run_stream(None, stripped, tag + " reset", is_driver=True, timeout=HARNESS_TIMEOUT)
    if not any(l in qs for c in cases for l in c):
        return outs
    res = []
    expected = fs_expected if tag == "ps" else file_expected
    for c, o in zip(cases, outs):
        if not any(l in qs for l in c):
            res.append(o)
            continue
        try:
            e = expected(c)
        except Exception:
            e = None
        it = iter(o)
        row = []
        for i, l in enumerate(c):
            if l in qs:
                row.append(e[i] if e is not None else "n=0")
            else:
                row.append(next(it, "<missing>"))
        row += list(it)
        res.append(row)
    return res


def run_batched(binary, wd, cases, exp, tag, first, size):
    """impl outputs batch by batch; stops after the first batch with a mismatch (a defect can make every case slow:
    a listChildren that reports "." sends Path::size down ./././… until the path is too long).
    returns (impl outputs, directories, number of cases actually run)"""
    impl, dirs = [], []
    start, n = 0, first
    while start < len(cases):
        o, d = run_impl(binary, wd, cases[start:start + n], tag)
        impl += o
        dirs += d
        bad = any(seqtie.first_diff(e, x) is not None for e, x in zip(exp[start:start + n], o))
        start += n
        n = size
        if bad:
            break
    return impl, dirs, len(impl)


def chunked(lines, n):
    return [lines[i:i + n] for i in range(0, len(lines), n)]


def build(prop):
    if prop == "C17":
        return lib.build_harness("pf_file", [FILE_HARNESS], repo_sources=FILE_SRCS)
    return lib.build_harness("pf_path", [PATH_HARNESS], repo_sources=PATH_SRCS)


SHRINK_BUDGET_S = 40


def shrink_case(binary, wd, case, tag, expected, valid, deadline):
    """delta-debug the ops after the `root` line (until `deadline`); returns (small case, expected, got)"""
    def fails(cand):
        c = [case[0]] + cand
        if time.time() > deadline or not valid(c):
            return False
        got = run_impl(binary, wd, [c], tag, SHRINK_TIMEOUT)[0][0]
        return seqtie.first_diff(expected(c), got) is not None
    small = [case[0]] + seqtie.ddmin(case[1:], fails)
    got = run_impl(binary, wd, [small], tag, SHRINK_TIMEOUT)[0][0]
    return small, expected(small), got


def run_tie(prop, spec, tier, seed):
    res = TieResult()
    binary, out = build(prop)
    if binary is None:
        res.failures.append(Failure("infra", "harness does not compile against the working tree", replay={"compiler": out[-3000:]}))
        return res
    STREAM_TIMEOUT[0] = 75 if tier == "quick" else 480
    wd = Workdir()
    try:
        if prop == "C17":
            tie_file(res, binary, wd, tier, lib.SplitMix(seed).fork("pathfile/C17"))
        else:
            tie_path(res, binary, wd, tier, lib.SplitMix(seed).fork("pathfile/C18"))
    finally:
        wd.cleanup()
    return res


def compare(res, prop, what, cases, exp, impl, model, binary, wd, tag, expected, valid, component):
    """three-way comparison of stateful cases; returns (impl mismatches, model mismatches)"""
    nimpl = nmodel = 0
    deadline = time.time() + SHRINK_BUDGET_S
    for c, e, o, m in zip(cases, exp, impl, model):
        d = seqtie.first_diff(e, o)
        if d is not None:
            nimpl += 1
            if nimpl <= 3:
                small, ee, oo = shrink_case(binary, wd, c, tag, expected, valid, deadline)
                dd = seqtie.first_diff(ee, oo) or d
                res.failures.append(Failure(
                    "violation", "%s differs from the %s at op %d (%s): expected %r, got %r" %
                    (what, "oracle", dd[0], small[dd[0]] if dd[0] < len(small) else "?", dd[1], dd[2]),
                    signature=";".join(small[1:]),
                    replay={"component": component, "ops": small, "expected": ee, "got": oo}))
        if m is not None:
            d = seqtie.first_diff(e, m)
            if d is not None:
                nmodel += 1
                if nmodel <= 3:
                    res.failures.append(Failure("drift", "Lean model of %s disagrees with the oracle at op %d (%s): expected %r, model %r" %
                                                (what, d[0], c[d[0]] if d[0] < len(c) else "?", d[1], d[2]),
                                                replay={"correspondence": component + " model vs oracle", "ops": c, "expected": e, "model": m}))
    return nimpl, nmodel


def tie_file(res, binary, wd, tier, rng):
    corpus = [c for c in lib.load_corpus("pathfile") if c and c[0].startswith("file ")]
    cases = corpus + gen_file_cases(rng, tier)
    cases = [c for c in cases if file_valid(c)]
    cases = [c + ["file fds"] if c[-1] != "file fds" else c for c in cases]
    exp = [file_expected(c) for c in cases]
    impl, _, nrun = run_batched(binary, wd, cases, exp, "file", 200, 1000)
    cases, exp = cases[:nrun], exp[:nrun]
    feasible = [model_feasible(c) for c in cases]
    mcases = [c for c, f in zip(cases, feasible) if f]
    mouts = iter(run_model(mcases, "file"))
    model = [next(mouts) if f else None for f in feasible]
    ni, nm = compare(res, "C17", "tulz::File", cases, exp, impl, model, binary, wd, "file", file_expected, file_valid, "file")
    ops, distinct = {}, set()
    maxlen = 0
    for c, e in zip(cases, exp):
        kinds = []
        for l, x in zip(c, e):
            t = l.split()
            ops[t[1]] = ops.get(t[1], 0) + 1
            if t[1] == "open":
                kinds.append(t[4] + ("!" if x.startswith("!") else ""))
            elif t[1] in ("write", "writea", "writes"):
                n = len(t[3]) // 2 if t[3] != "-" else 0
                maxlen = max(maxlen, n)
                kinds.append(t[1][5:] + ("0" if n == 0 else "1" if n < 64 else "L"))
            elif t[1] == "readbuf":
                kinds.append("rb" + x.split()[0])
            elif t[1] == "seek":
                kinds.append("sk" + t[4] + x.split()[0][2:] + ("p" if not t[3].startswith("-") else "n"))
            elif t[1] in ("read", "readstr", "size", "tell", "close", "drop"):
                kinds.append(t[1])
        distinct.add(hashlib.sha1(" ".join(kinds).encode()).hexdigest())
    res.evaluations = len(cases)
    res.distinct = len(distinct)
    res.rule = ("cases = corpus (%d) + every split of a %s-byte content {00,ff,0d,0a,41,1a} into writes x 4 write modes x 2 read modes + "
                "seeded random round trips (contents: empty/NUL/0xFF/CRLF/mixed/random, random splits, three write overloads, element sizes, "
                "old file present or not) + random seek/tell/size/read(buffer)/read()/readStr() histories on read, write and append streams + "
                "open/close/error sequences over three File objects + large contents; distinct_nontrivial = distinct sequences of "
                "(open mode+outcome, write overload+size class, readbuf return, seek origin+result+sign, other op names) per case"
                % (len(corpus), "0..5" if tier == "quick" else "0..6"))
    res.dist = {"ops": ops, "cases": len(cases), "total_ops": sum(ops.values()), "largest_single_write_bytes": maxlen,
                "cases_tied_to_model": len(mcases), "cases_impl_vs_oracle_only": len(cases) - len(mcases)}
    res.samples = [cases[len(corpus)], cases[-1][:6] + ["…"]]
    res.extra["impl_mismatches"] = ni
    res.extra["model_mismatches"] = nm


def tie_path(res, binary, wd, tier, rng):
    corpus = [c for c in lib.load_corpus("pathfile") if c and c[0].startswith("ps ")]
    # ---- strings: stateless lines, run in blocks
    lines = gen_string_lines(rng.fork("strings"), tier)
    sexp = [str_expected(l) for l in lines]
    blocks = chunked(lines, 2000)
    smodel = [x for b in run_model(blocks, "ps") for x in b]
    nsi = nsm = 0
    seen_sig = set()
    sblocks = run_stream_t(binary, blocks, "ps reset", STREAM_TIMEOUT[0])
    simpl = [x for b in sblocks for x in b]
    crashed = [(b, o) for b, o in zip(blocks, sblocks) if o and (o[-1].startswith("!ABORT") or o[-1].startswith("!TIMEOUT"))]
    if crashed:
        b, o = crashed[0]
        k = min(len(o) - 1, len(b) - 1)      # the line whose output is missing
        res.failures.append(Failure("violation", "Path string function aborts on %r: %s" % (b[k], o[-1]),
                                    signature=b[k], replay={"component": "path", "ops": ["ps root @", b[k]], "expected": ["ok", str_expected(b[k])], "got": o[-2:]}))
    elif len(simpl) != len(lines) or len(smodel) != len(lines):
        res.failures.append(Failure("infra", "string stream returned %d/%d lines for %d inputs" % (len(simpl), len(smodel), len(lines))))
    else:
        rows = list(zip(lines, sexp, simpl, smodel))
        # report the property's own identities (name/parent of join, join with an absolute path) before raw differences
        rows.sort(key=lambda r: 0 if r[0].split()[1] in ("nj", "pj") else 1)
        for l, e, o, m in rows:
            if o != e:
                nsi += 1
                op = l.split()[1]
                if nsi <= 40 and op not in seen_sig and len(seen_sig) < 3:
                    seen_sig.add(op)
                    args = [unhx(x) for x in l.split()[2:]]
                    res.failures.append(Failure("violation", "Path::%s%r = %r, expected %r" %
                                                ({"name": "getPathName", "parent": "getParentDirectory", "abs": "isAbsolute", "join": "join",
                                                  "nj": "getPathName(join)", "pj": "getParentDirectory(join)"}[op], tuple(args), o, e),
                                                signature=l, replay={"component": "path", "ops": ["ps root @", l], "expected": ["ok", e], "got": ["ok", o]}))
            if m != e:
                nsm += 1
                if nsm <= 3:
                    res.failures.append(Failure("drift", "Lean string model disagrees with the oracle on %r: expected %r, model %r" % (l, e, m),
                                                replay={"correspondence": "PathStr model vs oracle", "ops": [l], "expected": [e], "model": [m]}))
    # ---- trees and visitors
    frng = rng.fork("fs")
    ncases = 400 if tier == "quick" else 2000
    cases = [c for c in corpus if fs_valid(c)]
    for i in range(ncases):
        cases.append(gen_fs_case(frng, tier, big=(tier != "quick" and i % 25 == 0)))
    cases += huge_cases() + deep_cases()
    cases = [c + ["ps fds"] if c[-1] != "ps fds" else c for c in cases]
    exp = [fs_expected(c) for c in cases]
    impl, dirs, nrun = run_batched(binary, wd, cases, exp, "ps", 10, 40)
    cases, exp = cases[:nrun], exp[:nrun]
    model = run_model(cases, "ps")
    # what the operating system itself says about the trees the harness built (os.scandir / getsize)
    os_bad = 0
    for c, d in zip(cases, dirs):
        r = FsRef()
        for l in c:
            if l.split()[1] in ("root", "mkdir", "mkfile"):
                r.step(l)
        seen = os_tree(d)
        if seen != r.tree:
            os_bad += 1
            if os_bad <= 2:
                res.failures.append(Failure("infra", "the tree on disk differs from its description", replay={"dir": d, "described": repr(r.tree)[:2000], "on_disk": repr(seen)[:2000]}))
    ni, nm = compare(res, "C18", "tulz::Path/DirectoryVisitor", cases, exp, impl, model, binary, wd, "ps", fs_expected, fs_valid, "path")
    ops = {}
    for l in lines:
        k = l.split()[1]
        ops[k] = ops.get(k, 0) + 1
    shapes = set()
    dv_words = set()
    nodes = 0
    for c in cases:
        shapes.add(tree_shape(c))
        w = []
        for l in c:
            t = l.split()
            ops[t[1]] = ops.get(t[1], 0) + 1
            if t[1] in ("mkdir", "mkfile"):
                nodes += 1
            if t[1] == "dv_push":
                a = unhx(t[2])
                w.append("e" if not a else "A" if a.startswith(b"/") else "R")
            elif t[1] == "dv_pop":
                w.append(")")
        dv_words.add("".join(w))
    res.evaluations = len(lines) + len(cases)
    res.distinct = len(set(lines)) + len(shapes) + len(dv_words)
    res.rule = ("string lines = every string over {/,\\,a,b,.,space,0xC3} up to length %d x {name,parent,abs} + name/parent of join(d,n) for every d of length 1..%d "
                "and every separator-free n of length 1..2 + join of every pair (len<=3, len<=2) + seeded random longer paths (segments, separators, arbitrary bytes); "
                "tree cases = corpus (%d) + seeded random trees (fan-out<=5, depth<=5, empty dirs, empty/large files, names with spaces, dots, UTF-8, non-UTF-8 bytes) queried "
                "at every node through tulz::Path and std::filesystem and checked against os.scandir, followed by a random well-nested DirectoryVisitor word; "
                "distinct_nontrivial = distinct string lines + distinct tree shapes (file size classes 0/small/>=1MiB) + distinct visitor words (absolute/relative/empty push, pop)"
                % (5 if tier == "quick" else 6, 3 if tier == "quick" else 4, len(corpus)))
    res.dist = {"ops": ops, "string_lines": len(lines), "tree_cases": len(cases), "tree_nodes": nodes, "tree_shapes": len(shapes), "visitor_words": len(dv_words)}
    res.samples = [lines[100:104], cases[len(corpus)][:12] + ["…"]]
    res.extra["impl_mismatches"] = ni + nsi
    res.extra["model_mismatches"] = nm + nsm
    res.extra["os_tree_mismatches"] = os_bad


def replay(prop, spec, path):
    data = json.load(open(path))
    ops = data.get("replay", {}).get("ops")
    if not ops:
        print(json.dumps(data, indent=1))
        return 0
    tag = ops[0].split()[0]
    is_file = tag == "file"
    binary, out = build("C17" if is_file else "C18")
    if binary is None:
        print(out[-3000:])
        return 2
    if ops[0].split()[1] != "root":
        ops = [tag + " root @"] + ops
    wd = Workdir()
    try:
        o = run_impl(binary, wd, [ops], tag, 60)[0][0]
    finally:
        wd.cleanup()
    m = run_model([ops], tag)[0]
    if is_file:
        e = file_expected(ops)
    else:
        r = FsRef()
        e = [str_expected(l) if l.split()[1] in ("name", "parent", "abs", "join", "nj", "pj") else r.step(l) for l in ops]
    bad = False
    for i, l in enumerate(ops):
        ee, oo, mm = e[i], (o[i] if i < len(o) else "<missing>"), (m[i] if i < len(m) else "<missing>")
        flag = "" if ee == oo else "   <-- differs"
        bad = bad or bool(flag)
        print("%-40s oracle: %-28s impl: %-28s model: %s%s" % (l[:200], ee[:200], oo[:300], mm[:200], flag))
    if bad:
        print("VIOLATION property=%s replay=%s" % (prop, path))
    return 1 if bad else 0
