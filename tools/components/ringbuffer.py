"""C04 / C09: tulz::RingBuffer against the Lean slot model and the bounded-deque oracle."""
import itertools

import iterspec
import lib
import seqtie
from lib import Failure, TieResult

HARNESS = "harness/ringbuffer/rb_harness.cpp"

COMMON_TB = [
    "modelled, not verified: malloc/realloc/free/memcpy (realloc moving or not is not distinguished), C++ object-lifetime rules as encoded by Mem.lean",
    "unbounded Nat: size_t/ssize_t conversions for capacities >= 2^63 and allocation failure are not modelled",
    "exceptions thrown by element constructors are not modelled",
]

PROPS = {
    "C04": {
        "design_ref": "6.2/C04",
        "technique": "Lean 4 refinement proof (slot-level model of RingBuffer.h refines a bounded deque, per operation and by induction over every history) + three-way differential correspondence model/oracle/real code",
        "level_text": "Machine-checked proof: every valid operation of the transcribed model (all members incl. the three resize layouts, copy/move/assign, iteration) succeeds, returns the bounded deque's answer and preserves the representation invariant, for every capacity, head position, overwrite mode and element type; lifted by induction to every finite history over several objects. The model is tied to the header in /repo on every run by running model, a Python bounded-deque oracle and the real RingBuffer<Tracked/long/double> on the same generated histories (every reachable layout x every op, exhaustive short words, seeded random).",
        "level_note": "Trusted: Lean kernel; hand transcription of RingBuffer.h (checked by the correspondence run, not proved); malloc/realloc/memcpy modelled as slot relocation (sound only for bitwise-relocatable T, the property's own restriction); unbounded Nat (no size_t overflow, no allocation failure); signed modCap related to the Nat index arithmetic by C04_modCap_signed. RandomAccessIndexIterator is modelled operator by operator with its size_t/ptrdiff_t arithmetic modulo 2^64 (Model/IndexIter.lean): the begin..end and end..begin loops yield the deque contents, iterator arithmetic follows integer positions while they fit a ptrdiff_t, the six comparisons are mutually consistent (Props/C04Iter.lean); tied by iterator scripts (`rb it`) run on model, oracle and the real iterator and const_iterator.",
        "lean_modules": ["Tulz.Props.C04", "Tulz.Props.C04Iter"],
        "theorems": ["Tulz.C04_op_refines", "Tulz.C04_history", "Tulz.C04_history_from_empty", "Tulz.C04_resize_keeps_front",
                     "Tulz.C04_push_full_discards_opposite", "Tulz.C04_modCap_signed",
                     "Tulz.C04_iter_forward", "Tulz.C04_iter_backward", "Tulz.C04_iter_is_toList", "Tulz.C04_iter_random_access",
                     "Tulz.C04_iter_script_positions", "Tulz.C04_iter_operator_laws"],
        "trusted_base": COMMON_TB,
        "assumptions": ["element type is bitwise relocatable (the property's own restriction)", "capacity >= 1 except for moved-from objects"],
    },
    "C09": {
        "design_ref": "6.2/C09",
        "technique": "Lean 4 invariant proof over the slot-level memory model (every destructor/placement-new/assignment is a partial primitive that fails when wrong; live values = deque contents as multisets) + differential lifetime tracking on the real code under ASan",
        "level_text": "Machine-checked proof that no operation of any valid history fails on the slot model (no out-of-allocation access, no destructor on storage without an object, no construction over a live element) and that after every operation the multiset of live values in all blocks equals the bounded deques' contents (so exactly the logically removed elements were destroyed, once each, and none is abandoned); destructor leaves no live value. Tied to /repo by comparing, per operation, the net change of live Tracked values and the end-of-scope live set of the real RingBuffer with model and oracle, under ASan/UBSan.",
        "level_note": "Trusted: Lean kernel; transcription of RingBuffer.h into Mem primitives; C++ lifetime rules as encoded in Mem.lean; moved-from shells are tolerated and not compared; element constructors do not throw.",
        "lean_modules": ["Tulz.Props.C09"],
        "theorems": ["Tulz.C09_no_bad_access", "Tulz.C09_live_exactly_contents", "Tulz.C09_history_live", "Tulz.C09_drop_destroys_all",
                     "Tulz.C09_resize_destroys_tail"],
        "trusted_base": COMMON_TB,
        "assumptions": ["element type is bitwise relocatable", "moved-from shells left by pop are tolerated (not compared)"],
    },
}


# ------------------------------------------------------------------ oracle (bounded deque + live multiset)

class Invalid(Exception):
    pass


class Ref:
    def __init__(self):
        self.st = {}

    def need(self, i):
        if i not in self.st:
            raise Invalid()
        return self.st[i]

    def fresh(self, i):
        if i in self.st:
            raise Invalid()

    @staticmethod
    def delta(lost, gained):
        parts = ["-%d" % v for v in sorted(lost)] + ["+%d" % v for v in sorted(gained)]
        return "d:" + " ".join(parts)

    def step(self, line):
        t = line.split()
        assert t[0] == "rb"
        op = t[1]
        a = t[2:]
        lost, gained = [], []
        res = "ok"
        if op == "new":
            i, cap, ow = int(a[0]), int(a[1]), a[2] == "1"
            self.fresh(i)
            if cap < 1:
                raise Invalid()
            self.st[i] = [ow, cap, []]
        elif op == "init":
            i, ow = int(a[0]), a[1] == "1"
            vs = [int(x) for x in a[3:]]
            cap = len(vs) if a[2] == "-" else int(a[2])
            self.fresh(i)
            if not vs or len(vs) > cap or len(vs) > 4:
                raise Invalid()
            self.st[i] = [ow, cap, vs]
            gained = list(vs)
        elif op in ("pb", "eb", "pf", "ef", "pbs", "ebs", "pfs", "efs"):
            o = self.need(int(a[0]))
            if op.endswith("s"):
                # aliasing push: the argument is the buffer's own element a[1] (its value at the time of the call)
                if int(a[1]) >= len(o[2]):
                    raise Invalid()
                v = o[2][int(a[1])]
                op = op[:-1]
            else:
                v = int(a[1])
            if o[1] < 1:
                raise Invalid()
            full = len(o[2]) == o[1]
            if full and not o[0]:
                raise Invalid()
            if op in ("pb", "eb"):
                if full:
                    lost.append(o[2].pop(0))
                o[2].append(v)
            else:
                if full:
                    lost.append(o[2].pop())
                o[2].insert(0, v)
            gained.append(v)
            res = "v=%d" % v
        elif op in ("popb", "popf"):
            o = self.need(int(a[0]))
            if not o[2]:
                raise Invalid()
            v = o[2].pop() if op == "popb" else o[2].pop(0)
            lost.append(v)
            res = "v=%d" % v
        elif op in ("front", "back"):
            o = self.need(int(a[0]))
            if not o[2]:
                raise Invalid()
            res = "v=%d" % (o[2][0] if op == "front" else o[2][-1])
        elif op == "get":
            o = self.need(int(a[0]))
            k = int(a[1])
            if k >= len(o[2]):
                raise Invalid()
            res = "v=%d" % o[2][k]
        elif op == "iter":
            o = self.need(int(a[0]))
            res = "l=" + " ".join(map(str, o[2]))
        elif op == "it":
            o = self.need(int(a[0]))
            try:
                res = iterspec.oracle(o[2], int(a[1]), a[2:])
            except iterspec.BadScript:
                raise Invalid()
        elif op == "size":
            res = "n=%d" % len(self.need(int(a[0]))[2])
        elif op == "cap":
            res = "n=%d" % self.need(int(a[0]))[1]
        elif op == "resize":
            o = self.need(int(a[0]))
            nc = int(a[1])
            if o[1] < 1 or nc < 1:
                raise Invalid()
            lost = o[2][nc:]
            o[2] = o[2][:nc]
            o[1] = nc
        elif op == "copy":
            d, s = int(a[0]), int(a[1])
            self.fresh(d)
            o = self.need(s)
            self.st[d] = [o[0], o[1], list(o[2])]
            gained = list(o[2])
        elif op == "cassign":
            d, s = int(a[0]), int(a[1])
            od, os_ = self.need(d), self.need(s)
            if od[0] != os_[0]:
                raise Invalid()
            if d != s:
                lost = od[2]
                gained = list(os_[2])
                self.st[d] = [od[0], os_[1], list(os_[2])]
        elif op == "mctor":
            d, s = int(a[0]), int(a[1])
            self.fresh(d)
            o = self.need(s)
            self.st[d] = [o[0], o[1], o[2]]
            self.st[s] = [o[0], 0, []]
        elif op == "massign":
            d, s = int(a[0]), int(a[1])
            od, os_ = self.need(d), self.need(s)
            if od[0] != os_[0]:
                raise Invalid()
            if d != s:
                self.st[d], self.st[s] = [od[0], os_[1], os_[2]], [os_[0], od[1], od[2]]
        elif op == "eq":
            x, y = self.need(int(a[0])), self.need(int(a[1]))
            res = "b=1" if x[2] == y[2] else "b=0"
        elif op == "drop":
            o = self.need(int(a[0]))
            lost = o[2]
            del self.st[int(a[0])]
        elif op == "live":
            allv = sorted(v for o in self.st.values() for v in o[2])
            return "live=" + " ".join(map(str, allv))
        else:
            raise Invalid()
        # a value both lost and gained in one op nets out
        for v in list(lost):
            if v in gained:
                lost = list(lost)
                lost.remove(v)
                gained.remove(v)
        return res + " | " + self.delta(lost, gained)


def expected(case):
    r = Ref()
    return [r.step(l) for l in case]


def valid(case):
    try:
        expected(case)
        return True
    except Invalid:
        return False


# ------------------------------------------------------------------ generators

def gen_random_case(rng, maxcap, maxlen):
    r = Ref()
    case = []
    nextv = [rng.below(50) + 1]
    nobj = 1 + (rng.below(3) if rng.chance(1, 3) else 0)
    nid = [0]

    def val():
        if rng.chance(1, 14):
            return 0                             # the value with two representations in the double instantiation
        if rng.chance(1, 8) and nextv[0] > 2:
            return 1 + rng.below(nextv[0])       # repeated value
        nextv[0] += 1
        return nextv[0]

    def emit(line):
        try:
            r.step(line)
        except Invalid:
            return False
        case.append(line)
        return True

    def new_obj():
        nid[0] += 1
        ow = rng.below(2)
        cap = 1 + rng.below(maxcap)
        if rng.chance(1, 5):
            n = 1 + rng.below(min(4, cap))
            vs = [val() for _ in range(n)]
            c = "-" if rng.chance(1, 2) else str(max(n, cap))
            emit("rb init %d %d %s %s" % (nid[0], ow, c, " ".join(map(str, vs))))
        else:
            emit("rb new %d %d %d" % (nid[0], cap, ow))

    for _ in range(nobj):
        new_obj()
    length = 4 + rng.below(maxlen)
    bias_push = rng.below(3)        # 0: balanced, 1: fill up, 2: drain
    while len(case) < length:
        ids = sorted(r.st.keys())
        if not ids:
            new_obj()
            continue
        i = rng.pick(ids)
        ow, cap, items = r.st[i]
        k = rng.below(100)
        if cap == 0:
            # moved-from object: only assignment into it, queries, destruction
            k = rng.pick([70, 75, 80, 86, 90, 95, 99])
        if k < 40:
            pushw = [28, 36, 16][bias_push]
            if k < pushw:
                if items and rng.chance(1, 5):
                    # push an element of the buffer itself: first, last or any (the discarded one when full and overwriting)
                    j = rng.pick([0, len(items) - 1, rng.below(len(items))])
                    emit("rb %s %d %d" % (rng.pick(["pbs", "pfs", "ebs", "efs"]), i, j))
                else:
                    emit("rb %s %d %d" % (rng.pick(["pb", "pf", "eb", "ef"]), i, val()))
            else:
                emit("rb %s %d" % (rng.pick(["popb", "popf"]), i))
        elif k < 52:
            # resize targets around size, last index and capacity
            base = rng.pick([len(items), cap, max(1, len(items) - 1), cap + 1, cap - 1, 1, len(items) + 1, 1 + rng.below(maxcap + 3)])
            emit("rb resize %d %d" % (i, max(1, base)))
        elif k < 58:
            emit("rb iter %d" % i)
        elif k < 62:
            st, cmds = iterspec.gen(rng, items)
            emit("rb it %d %d %s" % (i, st, " ".join(cmds)))
        elif k < 68:
            if items:
                emit("rb get %d %d" % (i, rng.below(len(items))))
        elif k < 72:
            emit("rb %s %d" % (rng.pick(["front", "back", "size", "cap"]), i))
        elif k < 78:
            nid[0] += 1
            emit("rb copy %d %d" % (nid[0], i))
        elif k < 84:
            j = rng.pick(ids)
            emit("rb cassign %d %d" % (i, j))
        elif k < 88:
            nid[0] += 1
            emit("rb mctor %d %d" % (nid[0], i))
        elif k < 93:
            j = rng.pick(ids)
            emit("rb massign %d %d" % (i, j))
        elif k < 97:
            j = rng.pick(ids)
            emit("rb eq %d %d" % (i, j))
        else:
            if len(ids) > 1 or rng.chance(1, 4):
                emit("rb drop %d" % i)
    # end of scope: observe everything, destroy everything, nothing may stay alive
    for i in sorted(r.st.keys()):
        emit("rb iter %d" % i)
    for i in sorted(r.st.keys()):
        emit("rb drop %d" % i)
    emit("rb live")
    return case


def gen_wide_cases(rng, n):
    """capacities around 2^8 (an index kept in a narrow integer type shows here): the buffer is driven past its capacity so that
    the head wraps, then observed, resized across the boundary, copied and compared"""
    cases = []
    for k in range(n):
        cap = rng.pick([255, 256, 257, 300])
        ow = 1 if k % 4 else 0
        c = ["rb new 1 %d %d" % (cap, ow)]
        total = cap + rng.below(cap) if ow else cap - rng.below(3)
        v = 1
        for _ in range(total):
            c.append("rb %s 1 %d" % ("pb" if rng.chance(5, 6) else "pf", v))
            v += 1
            if not ow and rng.chance(1, 8) and len(c) > 3:
                c.append("rb %s 1" % rng.pick(["popf", "popb"]))
        c += ["rb size 1", "rb front 1", "rb back 1", "rb get 1 %d" % rng.below(200), "rb iter 1"]
        for _ in range(6):
            c.append("rb %s 1" % rng.pick(["popf", "popb"]))
        for _ in range(4):
            c.append("rb %s 1 %d" % (rng.pick(["pb", "pf"]), v))
            v += 1
        c += ["rb copy 2 1", "rb eq 1 2", "rb resize 1 %d" % rng.pick([255, 256, 257, 300, 128, 513]), "rb iter 1", "rb eq 1 2",
              "rb cassign 2 1", "rb iter 2", "rb drop 1", "rb iter 2", "rb drop 2"]
        if valid(c):
            cases.append(c)
    return cases


def gen_zero_cases():
    """two buffers built independently with the same values, among them 0 (which the double instantiation stores with
    alternating sign): contiguous and wrapped layouts, both overwrite modes, compared after every step"""
    cases = []
    for ow in (0, 1):
        for cap in (1, 2, 3, 4):
            for pre in (0, 1, 2):
                c = ["rb new 1 %d %d" % (cap, ow), "rb new 2 %d %d" % (cap, ow), "rb eq 1 2"]
                for _ in range(pre):                       # rotate the head of buffer 1 only
                    c += ["rb pb 1 9", "rb popf 1"]
                seq = [0, 5, 0, 0, 7][:cap]
                for v in seq:
                    c += ["rb pb 1 %d" % v, "rb pf 2 %d" % v if False else "rb pb 2 %d" % v, "rb eq 1 2", "rb eq 2 1"]
                c += ["rb copy 3 1", "rb eq 3 2", "rb popf 1", "rb eq 1 2", "rb popf 2", "rb eq 1 2", "rb iter 1", "rb iter 2"]
                if valid(c):
                    cases.append(c)
    return cases


def gen_layout_cases(maxcap):
    """every reachable (pos, size, cap) layout x every operation, applied on the implementation:
    a buffer of capacity c is driven to head position p with s elements, then one op is applied"""
    cases = []
    for ow in (0, 1):
        for cap in range(1, maxcap + 1):
            for pos in range(cap):
                for size in range(cap + 1):
                    prefix = ["rb new 1 %d %d" % (cap, ow)]
                    # move the head: push + pop_front `pos` times
                    for k in range(pos):
                        prefix += ["rb pb 1 %d" % (900 + k), "rb popf 1"]
                    prefix += ["rb pb 1 %d" % (100 + k) for k in range(size)]
                    tails = [["rb pb 1 7"], ["rb pf 1 7"], ["rb popb 1"], ["rb popf 1"], ["rb pbs 1 0"], ["rb pfs 1 %d" % max(0, size - 1)],
                             ["rb ebs 1 %d" % max(0, size - 1)], ["rb efs 1 0"], ["rb copy 2 1", "rb iter 2", "rb drop 2"],
                             ["rb new 2 3 %d" % ow, "rb pb 2 5", "rb cassign 2 1", "rb iter 2", "rb drop 2"]]
                    tails += [["rb resize 1 %d" % nc] for nc in range(1, maxcap + 3)]
                    for t in tails:
                        c = prefix + t + ["rb iter 1", "rb size 1", "rb cap 1", "rb pb 1 8" if ow else "rb size 1", "rb iter 1", "rb drop 1", "rb live"]
                        if valid(c):
                            cases.append(c)
    return cases


def gen_exhaustive(maxcap, length):
    alphabet = ["pb", "pf", "popb", "popf", "resize1", "resize2", "resize3"]
    cases = []
    for ow in (0, 1):
        for cap in range(1, maxcap + 1):
            for seq in itertools.product(alphabet, repeat=length):
                c = ["rb new 1 %d %d" % (cap, ow)]
                v = 10
                for s in seq:
                    if s in ("pb", "pf"):
                        v += 1
                        c.append("rb %s 1 %d" % (s, v))
                    elif s.startswith("resize"):
                        c.append("rb resize 1 %s" % s[-1])
                    else:
                        c.append("rb %s 1" % s)
                    c.append("rb iter 1")
                c += ["rb drop 1", "rb live"]
                if valid(c):
                    cases.append(c)
    return cases


# ------------------------------------------------------------------ the tie

def with_layout(case):
    """driver-only stream: a `layout` query before every op (coverage of (pos,size,cap,op))"""
    out = []
    for l in case:
        t = l.split()
        if len(t) > 2 and t[1] not in ("new", "init", "live", "copy", "mctor"):
            out.append("rb layout %s" % t[2])
        else:
            out.append("rb layout 0")
        out.append(l)
    return out


def project(prop, line):
    """C04 compares values / sizes / capacities / results; C09 additionally the lifetime deltas and the end-of-scope live set"""
    if prop == "C04":
        return line.split(" | ")[0]
    return line


def run_tie(prop, spec, tier, seed):
    res = TieResult()
    rng = lib.SplitMix(seed).fork("ringbuffer")
    binary, out = lib.build_harness("rb_tracked", [HARNESS], deps=["harness/tracked.h", "harness/iter_script.h"])
    if binary is None:
        res.failures.append(Failure("infra", "harness does not compile against the working tree", replay={"compiler": out[-3000:]}))
        return res
    bin_long = None
    if prop == "C04":
        bin_long, out2 = lib.build_harness("rb_long", [HARNESS], extra_flags=["-DELEM_LONG"], deps=["harness/tracked.h", "harness/iter_script.h"])
        if bin_long is None:
            res.failures.append(Failure("infra", "harness (long) does not compile", replay={"compiler": out2[-3000:]}))
            return res

    bin_double = None
    if prop == "C04":
        bin_double, out3 = lib.build_harness("rb_double", [HARNESS], extra_flags=["-DELEM_DOUBLE"], deps=["harness/tracked.h", "harness/iter_script.h"])
        if bin_double is None:
            res.failures.append(Failure("infra", "harness (double) does not compile", replay={"compiler": out3[-3000:]}))
            return res

    # the lifetime-tracked element type once more, with a move constructor that is not noexcept
    bin_tm, out4 = lib.build_harness("rb_tmove", [HARNESS], extra_flags=["-DELEM_TMOVE"], deps=["harness/tracked.h", "harness/iter_script.h"])
    if bin_tm is None:
        res.failures.append(Failure("infra", "harness (throwing-move element) does not compile", replay={"compiler": out4[-3000:]}))
        return res

    cases = lib.load_corpus("ringbuffer")
    ncorpus = len(cases)
    if tier == "quick":
        cases += gen_exhaustive(3, 4)
        cases += gen_layout_cases(4)
        cases += [gen_random_case(rng, 9, 60) for _ in range(6000)]
        cases += gen_wide_cases(rng.fork("wide"), 8)
        cases += gen_zero_cases()
    else:
        cases += gen_exhaustive(3, 6)
        cases += gen_layout_cases(8)
        cases += [gen_random_case(rng, 12, 120) for _ in range(60000)]
        cases += gen_wide_cases(rng.fork("wide"), 60)
        cases += gen_zero_cases()

    exp = [expected(c) for c in cases]
    impl = seqtie.run_stream(binary, cases, "rb reset")
    drv_cases = [with_layout(c) for c in cases]
    model_raw = seqtie.run_stream(None, drv_cases, "rb reset", is_driver=True)
    model, layouts = [], []
    for c, raw in zip(cases, model_raw):
        model.append(raw[1::2])
        layouts.append(raw[0::2])
    impl_tm = seqtie.run_stream(bin_tm, cases, "rb reset")
    impl_long = seqtie.run_stream(bin_long, cases, "rb reset") if bin_long else None
    impl_double = seqtie.run_stream(bin_double, cases, "rb reset") if bin_double else None

    distinct = set()
    opcount = {}
    branch = {}
    for c, lay in zip(cases, layouts):
        for l, y in zip(c, lay):
            t = l.split()
            opcount[t[1]] = opcount.get(t[1], 0) + 1
            if t[1] in ("size", "cap", "live", "iter", "it", "get", "front", "back", "eq"):
                continue
            key = (t[1], y, t[3] if t[1] == "resize" else "")
            distinct.add(key)
    res.evaluations = len(cases)
    res.distinct = len(distinct)
    res.rule = ("cases = corpus (%d) + all op words of fixed length over {push/pop both ends, resize 1..3} for cap<=3 + every reachable "
                "(pos,size,cap) layout x every mutating op + seeded random valid histories over 1-4 buffers (copy/move/assign/eq/drop, "
                "resize targets around size/lastIndex/cap); distinct_nontrivial = distinct (mutating op, (pos,size,cap) layout before, resize target) "
                "triples as reported by the model" % ncorpus)
    res.dist = {"ops": opcount, "cases": len(cases), "total_ops": sum(opcount.values())}
    res.samples = [cases[ncorpus] if len(cases) > ncorpus else cases[0], cases[-1]]

    def check(kind_impl, outs, which):
        nfail = 0
        for ci, (c, e, o) in enumerate(zip(cases, exp, outs)):
            if o == ["!SKIPPED"]:
                res.extra["skipped_after_crashes"] = res.extra.get("skipped_after_crashes", 0) + 1
                continue
            pe = [project(prop if which not in ("long", "double") else "C04", x) for x in e]
            po = [project(prop if which not in ("long", "double") else "C04", x) for x in o]
            d = seqtie.first_diff(pe, po)
            if d is None:
                continue
            nfail += 1
            if nfail > 3:
                continue
            if which == "model":
                res.failures.append(Failure("drift", "Lean model disagrees with the bounded-deque oracle at op %d: expected %r, model %r" % (d[0], d[1], d[2]),
                                            replay={"correspondence": "ringbuffer model vs oracle", "ops": c, "expected": e, "model": o}))
                continue
            b = binary if which == "impl" else bin_tm if which == "tmove" else bin_long if which == "long" else bin_double
            pj = prop if which in ("impl", "tmove") else "C04"

            def fails(cand):
                if not valid(cand):
                    return False
                ee = [project(pj, x) for x in expected(cand)]
                oo = seqtie.run_stream(b, [cand], "rb reset")[0]
                return seqtie.first_diff(ee, [project(pj, x) for x in oo]) is not None
            small = seqtie.ddmin(c, fails)
            ee = expected(small)
            oo = seqtie.run_stream(b, [small], "rb reset")[0]
            dd = seqtie.first_diff([project(pj, x) for x in ee], [project(pj, x) for x in oo])
            res.failures.append(Failure("violation",
                                        "RingBuffer<%s> differs from the bounded deque at op %d (%s): expected %r, got %r" %
                                        ("Tracked" if which == "impl" else "TrackedM (move not noexcept)" if which == "tmove" else which, dd[0], small[dd[0]] if dd[0] < len(small) else "?", dd[1], dd[2]),
                                        signature=";".join(small),
                                        replay={"component": "ringbuffer", "element": which, "ops": small, "expected": ee, "got": oo}))
        return nfail

    res.extra["impl_mismatches"] = check("impl", impl, "impl")
    res.extra["impl_tmove_mismatches"] = check("impl", impl_tm, "tmove")
    if impl_long is not None:
        res.extra["impl_long_mismatches"] = check("impl", impl_long, "long")
    if impl_double is not None:
        res.extra["impl_double_mismatches"] = check("impl", impl_double, "double")
    res.extra["model_mismatches"] = check("model", model, "model")
    return res


def replay(prop, spec, path):
    import json
    data = json.load(open(path))
    ops = data.get("replay", {}).get("ops")
    if not ops:
        print(json.dumps(data, indent=1))
        return 0
    which = data["replay"].get("element", "impl")
    binary, out = lib.build_harness({"impl": "rb_tracked", "tmove": "rb_tmove", "long": "rb_long", "double": "rb_double"}[which], [HARNESS],
                                    extra_flags={"impl": [], "tmove": ["-DELEM_TMOVE"], "long": ["-DELEM_LONG"], "double": ["-DELEM_DOUBLE"]}[which], deps=["harness/tracked.h", "harness/iter_script.h"])
    e = expected(ops)
    o = seqtie.run_stream(binary, [ops], "rb reset")[0]
    m = seqtie.run_stream(None, [ops], "rb reset", is_driver=True)[0]
    bad = False
    for i, l in enumerate(ops):
        ee, oo, mm = e[i], (o[i] if i < len(o) else "<missing>"), (m[i] if i < len(m) else "<missing>")
        flag = "" if project(prop, ee) == project(prop, oo) else "   <-- differs"
        bad = bad or bool(flag)
        print("%-28s oracle: %-24s impl: %-24s model: %s%s" % (l, ee, oo, mm, flag))
    if bad:
        print("VIOLATION property=%s replay=%s" % (prop, path))
    return 1 if bad else 0
