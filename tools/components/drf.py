"""C15: data-race freedom of the threading components — PARTIAL by nature, translator-tied.

  leg P   lean/Tulz/Props/C15.lean: C15_discipline_sound (generic lockset / reader-writer / confinement / publication
          soundness), C15_table_follows (kernel evaluation over the REGENERATED access table), C15_no_race (their
          combination for executions that are instances of table rows)
  tie     tools/translators/locksets.py, run on every check (translate): clang AST of the working tree -> access table
          (Generated/AccessTable.lean).  A data race is no observable difference in outputs, so there is NO
          correspondence check for this property; the translator is trusted and its table is dumped into the evidence.
  leg S   ThreadSanitizer builds (g++ -fsanitize=thread, REAL std::mutex / condition_variable / thread) of three
          free-running seeded stress programs under harness/drf/ compiled against $TULZ_REPO; a TSan data-race report
          with a tulz frame is a concrete failing schedule (report text + program + arguments + seed = replay).
          Nothing is claimed on the strength of leg S.
"""
import hashlib
import json
import os
import re
import subprocess
import sys
import time
from concurrent.futures import ThreadPoolExecutor

import lib
from lib import Failure, TieResult

sys.path.insert(0, os.path.join(lib.VERIF, "tools", "translators"))
import locksets  # noqa: E402

GENERATED = os.path.join(lib.LEAN_DIR, "Tulz", "Generated", "AccessTable.lean")
TSAN_FLAGS = ["-std=c++20", "-O1", "-g", "-fsanitize=thread", "-fno-omit-frame-pointer", "-DNDEBUG"]   # asserts off, as in the library's own RelWithDebInfo build: a broken exclusion must show as the race it causes, not as an abort
TSAN_ENV = {"TSAN_OPTIONS": "halt_on_error=0:exitcode=66:report_thread_leaks=0:second_deadlock_stack=1:history_size=4"}
PROGRAMS = {
    "resource": ("harness/drf/stress_resource.cpp", ["src/threading/rwp/Resource.cpp"]),
    "pool": ("harness/drf/stress_pool.cpp", ["src/threading/ThreadPool.cpp", "src/threading/Thread.cpp", "src/threading/Runnable.cpp"]),
    "router": ("harness/drf/stress_router.cpp", ["src/threading/rwp/Resource.cpp", "src/observer/routing/SubjectRouter.cpp",
                                                 "src/observer/routing/RoutingKey.cpp", "src/observer/routing/RoutingKeyBuilder.cpp",
                                                 "src/observer/routing/RoutingLevelView.cpp"]),
}
MIX_TEXT = {
    "resource": {0: "80% ReadLock / 20% WriteLock", 1: "raw lockRead/unlockRead/lockWrite/unlockWrite 50/50", 2: "writers only",
                 3: "readers only", 4: "95/5 on two resources, a third of the read sections of resource 1 nested inside a read section of resource 0"},
    "pool": {0: "balanced start/clear/update/stop/getters/sleep", 1: "start-heavy, no stop", 2: "stop/start cycles (+setters on the empty pool)",
             3: "expiry-heavy (1 ms timeout, sleeps, update)"},
    "router": {0: "balanced six operations", 1: "notify-heavy", 2: "subscribe/unsubscribe/shrink-heavy", 3: "read-only operations",
               4: "balanced, int payload", 5: "balanced, half of the notifies bridged through a second router"},
}
RUN_TIMEOUT = {"quick": 20, "thorough": 90}

PROPS = {
    "C15": {
        "design_ref": "6.5/C15",
        "technique": "Lean 4 proof that every well-formed execution following a locking discipline (mutex-guarded, reader-writer-guarded, "
                     "atomic, thread-confined, immutable-after-publication, self-synchronised) is data-race free + kernel evaluation of a "
                     "hand-written discipline over an access/lockset table regenerated from the C++ sources by an AST-based translator on "
                     "every run; ThreadSanitizer stress runs only as failing-input search",
        "level_text": "PARTIAL, translator-trusted.  Machine-checked for all traces, thread counts and lengths: a trace that is well-formed "
                      "w.r.t. lock semantics (std::mutex; rwp::Resource through its specification C01) and fork/join and that follows a "
                      "discipline has no two conflicting plain accesses unordered by happens-before (program order + release->acquire + "
                      "fork/join).  Re-checked on every run by kernel evaluation: each of the ~300 rows (entry point, member, object, "
                      "read/write, locks lexically held with if/else path sensitivity, declared atomic or not, constructor or not) of the "
                      "access table that the translator extracts from Resource.cpp, ThreadPool.{h,cpp}, Thread.{h,cpp}, "
                      "ConcurrentSubjectRouter.h (looking through SubjectRouter/Subject/Observer/Subscription) follows the hand-written "
                      "discipline; and the combination: executions whose access events are instances of table rows are race free.  "
                      "NOT proved: that real executions are instances of table rows (translator, lock semantics, role assignment, "
                      "intended-use contract are assumptions, listed).  No correspondence check exists for this property by nature; "
                      "ThreadSanitizer runs of three stress programs on the real code only search for counterexamples.",
        "level_note": "Trusted: Lean kernel; the AST-based translator tools/translators/locksets.py and clang's AST; the hand-written discipline "
                      "and role table (lean/Tulz/Model/Discipline.lean); pthread/libstdc++ semantics; C01 as the specification of rwp::Resource; "
                      "the intended-use contract (one owner thread per pool, setters only on a pool without workers, no observer "
                      "invalidation, callbacks do not touch tulz internals).  TSan can miss races that do not occur in the sampled runs.",
        "lean_modules": ["Tulz.Props.C15"],
        "theorems": ["Tulz.C15_discipline_sound", "Tulz.C15_table_follows", "Tulz.C15_no_race", "Tulz.Drf.instance_follows",
                     "Tulz.Drf.discipline_sound", "Tulz.Drf.guarded_ordered", "Tulz.Drf.no_sharing_with_writer", "Tulz.Drf.quiescent_ordered",
                     "Tulz.racyTrace_race", "Tulz.racyTrace_wf", "Tulz.goodTrace_wf", "Tulz.goodTrace_follows", "Tulz.table_has_queue_rows",
                     "Tulz.goodTrace_instances"],
        "trusted_base": [
            "NO correspondence check for this property (a data race is not an observable difference): the tie is the translator "
            "tools/translators/locksets.py (clang >= 16 json AST of harness/drf/ast_probe.cpp, abstract execution of every entry point), "
            "re-run on every check; its complete table is in the evidence under `generated.table` for audit",
            "clang's AST and overload/template resolution for ONE representative instantiation (int) of each template",
            "the translator's read/write classification of library calls: const member or [container.requirements.dataraces] member = read, "
            "everything else = write; a short list of forwarding functions (emplace*, push_*, insert, make_*, min/max) reads its lvalue arguments",
            "hand-written lean/Tulz/Model/Discipline.lean: rule per member, role per entry point, excluded contract conditions",
            "C++ memory model facts used as definitions: happens-before = program order + mutex release->acquire + thread creation/join; "
            "std::atomic accesses, mutex and condition-variable operations never race; DRF-SC",
            "semantics of std::scoped_lock / std::unique_lock / lock()...unlock() / rwp::ReadLock / rwp::WriteLock scopes and of "
            "condition_variable::wait (predicate and continuation run with the mutex held)",
            "C01 (proved for the Rwp model, tied to Resource.cpp by the rwp component) as the specification of the reader-writer resource: "
            "hypothesis WF.acqExcl / WF.acqShared; release->acquire edges of the resource come from its internal mutex",
            "leg S only: g++ 12 ThreadSanitizer runtime; three stress programs under harness/drf/",
        ],
        "assumptions": [
            "A1 translator completeness/correctness: every access of tulz code to a tulz data member in a real execution is an instance "
            "(Tulz.Drf.IsInstance) of a table row, with the listed locks really held",
            "A2 real executions are well-formed traces (pthread mutex semantics; C01 for rwp::Resource; a thread runs between its creation and its join)",
            "A3 roles: a ThreadPool and the Thread objects it creates are used by ONE owner thread; PooledRunnable::run / TRunnable::run / "
            "the PooledThread accessors run in the worker they belong to; arguments of entry points are the calling thread's own objects; "
            "user tasks and observer callbacks do not touch tulz internals and do not call back into the router",
            "A4 intended-use contract: objects are constructed before they are shared (PrePub); ThreadPool::setExpiryTimeout/setMaxThreadCount "
            "are called only while the pool has no live worker (Quiescent); observers are never invalidated, so the lazily-removing branch of "
            "Subject::notify (`!observer->isValid()`), a WRITE under the router's READ lock, is never executed (contract condition 1)",
            "A5 a subscription handle's ConcurrentInvoker::m_resource is the m_resource of the router owning the Subject the handle points "
            "into (checked syntactically in ConcurrentSubjectRouter::subscribe on every run); symbolic ownership = real ownership",
            "destructors of tulz objects (delete thread after join, ~ReadLock inlined) add no unordered access; implicit destructors are not analysed",
            "the discipline is that of the REPAIRED code: ThreadPool::m_isRunning and Thread::m_isFinished are std::atomic<bool> (F6/F7, repairs/F7.patch)",
        ],
    },
}


# ------------------------------------------------------------------ translator (runs on every check)

def translate(prop, spec):
    info = locksets.translate(lib.REPO, GENERATED)
    return info


# ------------------------------------------------------------------ which rows break C15_table_follows

OFFENDING_SRC = """import Tulz.Generated.AccessTable
open Tulz.Drf Tulz.Model Tulz.Generated
#eval (AccessTable.entries.filter (fun e => !followsDiscipline discipline entryRole excludedConds e)).forM
  (fun e => IO.println ("OFFENDING " ++ e.site))
#eval IO.println s!"ROWS {AccessTable.entries.length}"
"""


def offending_rows():
    """evaluates the table check row by row (the same function the theorem is about); returns (rows, offending sites) or (None, error)"""
    ok, out = lib.lake_build(["Tulz.Generated.AccessTable"])
    if not ok:
        return None, out[-3000:]
    os.makedirs(os.path.join(lib.BUILD, "audit"), exist_ok=True)
    path = os.path.join(lib.BUILD, "audit", "C15_offending_%d.lean" % os.getpid())
    with open(path, "w") as f:
        f.write(OFFENDING_SRC)
    with lib.LakeLock():
        rc, out = lib.sh(["lake", "env", "lean", path], cwd=lib.LEAN_DIR, timeout=900)
    os.unlink(path)
    m = re.search(r"ROWS (\d+)", out)
    if rc != 0 or not m:
        return None, out[-3000:]
    return int(m.group(1)), [l[len("OFFENDING "):] for l in out.split("\n") if l.startswith("OFFENDING ")]


# ------------------------------------------------------------------ ThreadSanitizer runs

def build_all():
    def one(name):
        src, repo_srcs = PROGRAMS[name]
        return name, lib.build_harness("drf_" + name, [src], repo_sources=repo_srcs, deps=["harness/drf/drf_common.h"], flags=TSAN_FLAGS)
    with ThreadPoolExecutor(max_workers=3) as ex:
        return dict(ex.map(one, PROGRAMS))


REPORT_RE = re.compile(r"={18}\n(WARNING: ThreadSanitizer: .*?)\n={18}", re.S)


def in_repo(path):
    rp = os.path.realpath(path)
    root = os.path.realpath(lib.REPO) + os.sep
    return rp[len(root):] if rp.startswith(root) else None


ACCESS_RE = re.compile(r"(Write|Read|Previous write|Previous read|Atomic write|Atomic read|Previous atomic write|Previous atomic read) of size")
FRAME_RE = re.compile(r"#\d+ (.*) (<null>|\S+?:\d+(?::\d+)?) \((\S+)\)$")


def own_name(sym):
    """the qualified name of the function itself: template arguments and parameter lists removed"""
    out, depth = [], 0
    for ch in sym:
        if ch in "<(":
            depth += 1
        elif ch in ">)":
            depth = max(0, depth - 1)
        elif depth == 0:
            out.append(ch)
    return "".join(out).strip()


def frame_label(sym, loc):
    """label of a frame that belongs to tulz (source file inside the repository under test, or a function of namespace tulz
    when the symbolizer has no line information); None for library / harness frames"""
    if loc != "<null>":
        path, ln = loc.split(":")[0], loc.split(":")[1]
        rel = in_repo(path)
        if rel:
            return "%s:%s" % (rel, ln)
        return None
    name = own_name(sym)
    m = re.search(r"(tulz::[\w:~]+)", name)
    return m.group(1) if m else None


def access_stacks(block):
    """the two access stacks of a report, innermost frame first: tulz label or None per frame"""
    stacks, cur = [], None
    for line in block.split("\n"):
        s = line.strip()
        if ACCESS_RE.match(s):
            cur = []
            stacks.append(cur)
        elif s.startswith(("Location is", "Thread T", "Mutex M", "SUMMARY")):
            cur = None
        elif cur is not None and s.startswith("#"):
            m = FRAME_RE.match(s)
            if m:
                cur.append(frame_label(m.group(1), m.group(2)))
    return stacks


def parse_reports(stderr):
    """-> list of {kind, tulz_frames (frames whose SOURCE FILE is in the repository under test), tops (innermost such frame of
    each access: where tulz code performs or calls into the racing access), text}"""
    res = []
    for m in REPORT_RE.finditer(stderr):
        block = m.group(1)
        kind = block.split("\n", 1)[0]
        kind = re.sub(r"\s*\(pid=\d+\)", "", kind.replace("WARNING: ThreadSanitizer: ", ""))
        stacks = access_stacks(block)
        frames = [f for st in stacks for f in st if f]
        tops = []
        for st in stacks:
            top = next((f for f in st if f), None)
            if top:
                tops.append(top)
        res.append({"kind": kind, "tulz_frames": frames, "tops": sorted(tops), "text": block})
    return res


def run_one(binary, name, threads, iters, seed, mix, timeout):
    env = dict(os.environ)
    env.update(TSAN_ENV)
    cmd = [binary, str(threads), str(iters), str(seed), str(mix)]
    t0 = time.time()
    try:
        p = subprocess.run(cmd, stdout=subprocess.PIPE, stderr=subprocess.PIPE, text=True, timeout=timeout, env=env)
        out, err, rc, hung = p.stdout, p.stderr, p.returncode, False
    except subprocess.TimeoutExpired as e:
        out = (e.stdout or b"").decode("utf-8", "replace") if isinstance(e.stdout, bytes) else (e.stdout or "")
        err = (e.stderr or b"").decode("utf-8", "replace") if isinstance(e.stderr, bytes) else (e.stderr or "")
        rc, hung = None, True
    return {"program": name, "threads": threads, "iters": iters, "seed": seed, "mix": mix, "argv": cmd[1:], "rc": rc, "hung": hung,
            "stdout": out[-300:], "stderr": err, "wall": round(time.time() - t0, 2)}


def plan(tier, rng):
    """list of (program, threads, iterations, seed, mix)"""
    q = tier == "quick"
    cfgs = []
    for mix in (0, 1, 2, 3, 4):
        for th in ((4, 8) if q else (2, 4, 6, 8)):
            cfgs.append(("resource", th, 15000 if q else 40000, mix))
    for mix in (0, 1, 2, 3):
        for th in ((2, 6) if q else (1, 2, 4, 8)):
            cfgs.append(("pool", th, 4000 if q else 12000, mix))
    for mix in (0, 1, 2, 3, 4, 5):
        for th in ((4, 8) if q else (4, 5, 6, 7, 8)):
            cfgs.append(("router", th, 4000 if q else 12000, mix))
    seeds = 2 if q else 5
    runs = []
    for (name, th, iters, mix) in cfgs:
        r = rng.fork("%s/%d/%d" % (name, th, mix))
        for _ in range(seeds):
            runs.append((name, th, iters, r.next() % 1000000007 + 1, mix))
    return runs


def signature_of(rep):
    return "tsan:%s|%s" % (rep["kind"], "|".join(rep["tops"]) or "|".join(sorted(set(rep["tulz_frames"]))[:2]))


def run_tie(prop, spec, tier, seed):
    res = TieResult()
    rng = lib.SplitMix(seed).fork("drf")
    t0 = time.time()

    # ---- the generated obligation, row by row (names the offending rows when C15_table_follows is broken)
    rows, off = offending_rows()
    if rows is None:
        res.failures.append(Failure("proof", "the regenerated access table does not build", replay={"lake_output": off}))
    elif off:
        res.failures.append(Failure("proof", "C15_table_follows is broken: %d of %d rows of the regenerated access table do not follow the "
                                             "discipline: %s" % (len(off), rows, " ;; ".join(off[:6]) + (" ;; …" if len(off) > 6 else "")),
                                    replay={"generated_obligation": "Tulz.C15_table_follows", "offending_rows": off}))
    res.extra["table_rows"] = rows
    res.extra["table_rows_not_following"] = off if rows is not None else None

    # ---- leg S
    bins = build_all()
    for name, (b, out) in bins.items():
        if b is None:
            res.failures.append(Failure("infra", "stress program %s does not compile against the working tree" % name, replay={"compiler": out[-3000:]}))
    runs = [r for r in plan(tier, rng) if bins[r[0]][0] is not None]
    timeout = RUN_TIMEOUT[tier]
    deadline = t0 + (55 if tier == "quick" else 450)

    def go(r):
        if time.time() > deadline:
            return None
        return run_one(bins[r[0]][0], r[0], r[1], r[2], r[3], r[4], timeout)
    with ThreadPoolExecutor(max_workers=4) as ex:
        done = [d for d in ex.map(go, runs) if d is not None]

    res.evaluations = len(done)
    res.traces = len(done)
    res.distinct = len({(d["program"], d["threads"], d["mix"]) for d in done if not d["hung"] and d["rc"] in (0, 66)})
    res.rule = ("free-running ThreadSanitizer executions (g++ -fsanitize=thread, real std::mutex/condition_variable/thread) of the three stress "
                "programs harness/drf/stress_{resource,pool,router}.cpp compiled against the working tree; one evaluation = one program run "
                "(thousands of operations); distinct_nontrivial = distinct (program, thread count, operation mix) configurations that ran to completion; "
                "%d of %d planned runs executed within the time budget" % (len(done), len(runs)))
    per_prog = {}
    hung = []
    reports_total, filtered = 0, []
    seen_sig = set()
    for d in done:
        pp = per_prog.setdefault(d["program"], {"runs": 0, "hung": 0, "tsan_reports": 0, "wall_s": 0.0, "thread_counts": set(), "mixes": set()})
        pp["runs"] += 1
        pp["wall_s"] = round(pp["wall_s"] + d["wall"], 2)
        pp["thread_counts"].add(d["threads"])
        pp["mixes"].add(d["mix"])
        reps = parse_reports(d["stderr"])
        pp["tsan_reports"] += len(reps)
        reports_total += len(reps)
        if d["hung"]:
            # a hang (deadlock / lost wake-up, cf. C08 and finding F6) is not a data race: recorded, never a C15 violation;
            # the TSan reports printed before the hang still count
            pp["hung"] += 1
            hung.append({"program": d["program"], "argv": d["argv"], "timeout_s": timeout})
        elif d["rc"] not in (0, 66):
            res.failures.append(Failure("infra", "stress program %s %s exited with status %s" % (d["program"], " ".join(d["argv"]), d["rc"]),
                                        replay={"program": d["program"], "argv": d["argv"], "stderr_tail": d["stderr"][-3000:], "stdout": d["stdout"]}))
        for rep in reps:
            if "data race" not in rep["kind"]:
                filtered.append({"why": "not a data race", "kind": rep["kind"], "program": d["program"], "argv": d["argv"], "head": rep["text"][:600]})
                continue
            if not rep["tulz_frames"]:
                filtered.append({"why": "no tulz frame in either access stack (libstdc++ / harness only)", "kind": rep["kind"],
                                 "program": d["program"], "argv": d["argv"], "head": rep["text"][:1200]})
                continue
            sig = signature_of(rep)
            if sig in seen_sig:
                continue
            seen_sig.add(sig)
            src, repo_srcs = PROGRAMS[d["program"]]
            res.failures.append(Failure(
                "violation", "ThreadSanitizer: %s between %s (program %s, threads=%d iterations=%d seed=%d mix=%d [%s])"
                % (rep["kind"], " and ".join(rep["tops"]) or ", ".join(rep["tulz_frames"][:2]), d["program"], d["threads"], d["iters"], d["seed"], d["mix"],
                   MIX_TEXT[d["program"]][d["mix"]]),
                signature=sig,
                replay={"component": "drf", "program": d["program"], "source": src, "repo_sources": repo_srcs, "argv": d["argv"],
                        "build": "g++ %s -I$TULZ_REPO/include -Iharness %s %s -lpthread" % (" ".join(TSAN_FLAGS), src, " ".join("$TULZ_REPO/" + s for s in repo_srcs)),
                        "env": TSAN_ENV, "tsan_report": rep["text"][:6000], "accesses": rep["tops"]}))
    for name, pp in per_prog.items():
        if pp["runs"] and pp["hung"] == pp["runs"]:
            res.failures.append(Failure("infra", "no run of stress program %s finished within %d s (deadlock or lost wake-up — not a data race, "
                                                 "see C08/F6 — but leg S has no completed execution of this program)" % (name, timeout),
                                        replay={"hung_runs": [h for h in hung if h["program"] == name]}))
    res.extra["hung_runs_not_a_data_race"] = hung
    for pp in per_prog.values():
        pp["thread_counts"] = sorted(pp["thread_counts"])
        pp["mixes"] = sorted(pp["mixes"])
    res.dist = {"per_program": per_prog, "tsan_reports_total": reports_total, "tsan_reports_filtered": len(filtered),
                "mix_legend": {k: {str(i): t for i, t in v.items()} for k, v in MIX_TEXT.items()}}
    res.extra["filtered_reports"] = filtered[:5]
    res.samples = [{"program": d["program"], "argv": d["argv"], "stdout": d["stdout"].strip(), "wall_s": d["wall"],
                    "tsan_reports": len(parse_reports(d["stderr"]))} for d in done[:2] + done[len(done) // 2: len(done) // 2 + 2] + done[-2:]]
    res.extra["leg_S_wall_s"] = round(time.time() - t0, 1)
    res.extra["partial"] = "C15 is partial by nature: proved = discipline soundness + table follows discipline + instantiation; assumed = A1..A5 (see assumptions)"
    return res


def replay(prop, spec, path):
    data = json.load(open(path))
    rp = data.get("replay", {})
    if data.get("kind") == "unproved" or "program" not in rp:
        print(json.dumps(data, indent=1)[:6000])
        try:
            translate(prop, spec)                    # the table of the CURRENT working tree
        except Exception as e:
            print("translator failed:", repr(e))
            return 1
        rows, off = offending_rows()
        if rows is not None:
            print("access table: %d rows, %d not following the discipline" % (rows, len(off)))
            for o in off:
                print("  OFFENDING", o)
            return 1 if off else 0
        return 1
    name = rp["program"]
    src, repo_srcs = PROGRAMS[name]
    b, out = lib.build_harness("drf_" + name, [src], repo_sources=repo_srcs, deps=["harness/drf/drf_common.h"], flags=TSAN_FLAGS)
    if b is None:
        print(out[-3000:])
        return 2
    want = set(rp.get("accesses", []))
    threads, iters, seed, mix = [int(x) for x in rp["argv"]]
    for attempt in range(1, 9):
        d = run_one(b, name, threads, iters, seed, mix, 25)
        reps = [r for r in parse_reports(d["stderr"]) if "data race" in r["kind"] and r["tulz_frames"]]
        same = [r for r in reps if set(r["tops"]) == want] or reps
        if same:
            print("attempt %d: %s %s" % (attempt, name, " ".join(rp["argv"])))
            print(same[0]["text"])
            print("VIOLATION property=%s replay=%s" % (prop, path))
            return 1
    print("the recorded report did not recur in 8 free-running executions of %s %s (the working tree may have been repaired)" % (name, " ".join(rp["argv"])))
    return 0
