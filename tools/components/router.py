"""C06 / C13: tulz::SubjectRouter and tulz::ConcurrentSubjectRouter (one thread) against the Lean Router model
and a direct Python statement of the two properties.

Oracle = a dict from concrete key tuples to observer lists + the set of stored keys, level-wise matching with
`re.fullmatch`; shrink is stated non-recursively: a stored key disappears iff no stored key at or below it has an
observer and the parent of every stored key at or below it is visited by the pattern (length <= pattern, levels match).
"""
import hashlib
import time
import itertools
import json
import os
import re
import shutil
import subprocess

import lib
import seqtie
from lib import Failure, TieResult

HDIR = "harness/router"
SIGS = ("v", "i", "s", "r", "is", "t")
HSRC = [HDIR + "/rt_main.cpp"] + [HDIR + "/rt_sig_%s.cpp" % s for s in SIGS]
HDEPS = [HDIR + "/rt_common.h"]
RSRC = ["src/observer/routing/SubjectRouter.cpp", "src/observer/routing/RoutingKey.cpp",
        "src/observer/routing/RoutingKeyBuilder.cpp", "src/observer/routing/RoutingLevelView.cpp",
        "src/threading/rwp/Resource.cpp"]

COMMON_TB = [
    "modelled, not verified: std::map (sorted list of children, lookup by name), std::forward_list/std::set inside Subject (ordered observer list), std::function, std::unique_ptr",
    "std::regex_match is an abstract parameter `rm` in every theorem; the driver instantiates it with a derivative matcher for the subset "
    "`literal . * + ? [set] | ( )`, the oracle uses Python re.fullmatch, the harness generates only that subset for std::regex",
    "template argument deduction and copy/move/forward of callback arguments are C++ semantics outside the model: covered by the correspondence check only "
    "(signatures (), (int), (std::string), (const std::string&), (int, std::string), by-value class)",
    "the reinterpret_cast of Subject<> to Subject<Args...> in SubjectRouter is formally UB and outside the model (harness built with -fno-sanitize=vptr)",
    "ConcurrentSubjectRouter is exercised from one thread only (real rwp::Resource compiled in); its atomicity is C11",
    "use of a handle / observer pointer whose node was erased by shrink (dangling by design) is excluded from histories (model: OpErr.dangling ends the history)",
]

PROPS = {
    "C06": {
        "design_ref": "6.4/C06",
        "technique": "Lean 4 proof over a tree model of SubjectRouter (nested inductive, recursion on the remaining pattern) for an arbitrary regex matcher: notify = filter of the flat key list by level-wise match, count = matched keys holding a subject, preserved through every history + three-way differential correspondence on SubjectRouter and ConcurrentSubjectRouter over six argument signatures",
        "level_text": "Machine-checked proof, for every well-formed tree, every pattern (concrete, wildcard, regex at any level, with the regex matcher an arbitrary parameter) and every history of subscribe/unsubscribe/invalidate/shrink/notify from the empty router, that notify's delivery log is exactly the observers stored under the keys that have as many levels as the pattern and match it level by level (each valid observer once, with the passed value), that the returned count is the number of matched keys holding a subject, that stored keys are pairwise different and children stay ordered, and that with fresh observer ids no observer occurs twice in a log. Argument passing through the templates (by value, const reference, several arguments, by-value class) is outside the model and is covered by the correspondence run on the real code for both router classes.",
        "level_note": "Trusted: Lean kernel; transcription of SubjectRouter.{h,cpp}, RoutingLevelView, RoutingKeyBuilder; std::map/forward_list/set/function as modelled; std::regex is an abstract matcher in the theorems (the tie covers literal . * + ? [set] | ( )); the reinterpret_cast of Subject<> is UB outside the model; delivery order across keys is compared as a multiset.",

        "lean_modules": ["Tulz.Props.C06", "Tulz.Props.C06C05"],
        "theorems": ["Tulz.C06_leaf_is_C05", "Tulz.C06_flat_nodup", "Tulz.C06_notify", "Tulz.C06_notify_ids_once", "Tulz.C06_history", "Tulz.C06_history_sorted", "Tulz.C06_history_once"],
        "trusted_base": COMMON_TB,
        "assumptions": ["every notify passes arguments of the signature the reached subjects were subscribed with (the API's own precondition)",
                        "callbacks do not call back into the router (re-entrancy is C10)"],
    },
    "C13": {
        "design_ref": "6.4/C13",
        "technique": "Lean 4 proof over the same router tree model: shrink leaves every later delivery log unchanged, exact characterisation of the keys it removes, exists = some stored key matches, prefix-closedness and depth, for every history and an arbitrary matcher + three-way differential correspondence with probe notifies, exists on the whole key universe and depth after every shrink",
        "level_text": "Machine-checked proof, for every tree, every pair of patterns and an arbitrary regex matcher, that shrink never changes which observers any later notify reaches, that a key survives a shrink iff it is the root or something at or below it still has a subscription or the pattern does not visit the parent of every stored key at or below it (so only dead keys along the pattern are removed, live keys are kept, and a full-depth wildcard shrink removes every dead branch), that exists(pattern) is true exactly when some stored key matches level by level, that stored keys are prefix-closed, and that depth() is one more than the longest stored key; well-formedness holds after every history. Tied to SubjectRouter.cpp by running model, Python oracle (non-recursive statement of the same characterisation) and both real router classes on generated histories with probes after every shrink.",
        "level_note": "Trusted: as C06; an invalidated observer counts as live until a notify removes it (the code's notion); handles whose node was erased by shrink dangle by design and are never used again.",

        "lean_modules": ["Tulz.Props.C13"],
        "theorems": ["Tulz.C13_shrink_invisible", "Tulz.C13_shrink_exact", "Tulz.C13_keeps_live", "Tulz.C13_removes_only",
                     "Tulz.C13_full_wildcard", "Tulz.C13_exists", "Tulz.C13_prefix_closed", "Tulz.C13_depth", "Tulz.C13_history"],
        "trusted_base": COMMON_TB,
        "assumptions": ["liveness of a key uses the code's notion hasSubscriptions(): an invalidated observer that was not yet removed lazily by a notify still counts",
                        "handles whose node was erased by shrink are never used again"],
    },
}


# ------------------------------------------------------------------ parallel harness build (same cache discipline as lib.build_harness)

def build_router_harness():
    """one object per translation unit, compiled concurrently (a single g++ run over all units takes > 60 s under ASan).
    Cached by content hash of the repo tree, the harness sources and the flags, like lib.build_harness."""
    flags = list(lib.SAN_FLAGS) + ["-Wno-subobject-linkage"]
    srcs = [os.path.join(lib.VERIF, s) for s in HSRC]
    rsrcs = [os.path.join(lib.REPO, s) for s in RSRC]
    hdeps = [os.path.join(lib.VERIF, d) for d in HDEPS]
    missing = [p for p in rsrcs if not os.path.exists(p)]
    if missing:
        return None, "missing repo sources: %s" % missing
    key = hashlib.sha256((lib.repo_hash() + lib.file_hash(srcs + hdeps) + " ".join(flags) + lib.REPO).encode()).hexdigest()[:16]
    os.makedirs(lib.BUILD, exist_ok=True)
    out = os.path.join(lib.BUILD, "rt-%s" % key)
    if os.path.exists(out):
        return out, "cached"
    for f in os.listdir(lib.BUILD):
        if f.startswith("rt-") and not f.endswith(".tmp") and ".obj." not in f:
            try:
                # only old builds: a concurrent check against another tree may still be using its own
                if time.time() - os.path.getmtime(os.path.join(lib.BUILD, f)) > 3600:
                    os.unlink(os.path.join(lib.BUILD, f))
            except OSError:
                pass
    odir = out + ".obj.%d" % os.getpid()
    os.makedirs(odir, exist_ok=True)
    procs = []
    inc = ["-I" + os.path.join(lib.REPO, "include"), "-I" + os.path.join(lib.VERIF, "harness")]
    for i, s in enumerate(srcs + rsrcs):
        o = os.path.join(odir, "%d.o" % i)
        procs.append((o, subprocess.Popen(["g++"] + flags + inc + ["-c", s, "-o", o], stdout=subprocess.PIPE, stderr=subprocess.STDOUT, text=True)))
    log, ok = "", True
    for o, p in procs:
        so, _ = p.communicate()
        if p.returncode != 0:
            ok = False
            log += so
    if ok:
        tmp = out + ".%d.tmp" % os.getpid()
        rc, so = lib.sh(["g++"] + flags + [o for o, _ in procs] + ["-o", tmp, "-lpthread"], timeout=900)
        if rc != 0:
            ok = False
            log += so
        else:
            os.replace(tmp, out)
    shutil.rmtree(odir, ignore_errors=True)
    return (out if ok else None), log


# ------------------------------------------------------------------ oracle

class Invalid(Exception):
    pass


def parse_pattern(s):
    """'/=a/~b.*' -> [('=', 'a'), ('~', 'b.*')]"""
    lv = []
    for tok in s.split("/"):
        if not tok:
            continue
        if tok == "*":
            lv.append(("~", ".*"))          # RoutingKeyBuilder::all() is the regex level `.*`
            continue
        if tok[0] not in "=~":
            raise Invalid()
        lv.append((tok[0], tok[1:]))
    return lv


_rx = {}


def level_matches(level, name):
    kind, text = level
    if kind == "=":
        return name == text
    r = _rx.get(text)
    if r is None:
        r = _rx[text] = re.compile(text)
    return r.fullmatch(name.replace("^", "\n")) is not None       # `^` is the wire form of a line feed inside a level name


def match_key(pat, key):
    return len(pat) == len(key) and all(level_matches(l, k) for l, k in zip(pat, key))


def visited(pat, key):
    """the pattern reaches the node `key`: not longer than the pattern and its levels match"""
    return len(key) <= len(pat) and all(level_matches(l, k) for l, k in zip(pat, key))


def show_key(k):
    return "/" + "/".join(k)


def keys_up_to(names, d):
    res = []
    for n in range(1, d + 1):
        res.extend(itertools.product(names, repeat=n))
    return res


PROBES = ["/", "/~.*", "/~.*/~.*", "/~.*/~.*/~.*", "/~.*/~.*/~.*/~.*"]


class Ref:
    def __init__(self):
        self.nodes = {()}              # stored keys (prefix closed), () = root
        self.subj = {}                 # key -> [[h, valid], ...]   (present = the node holds a subject)
        self.handles = {}              # h -> dict(key, mode, dangling, cleared)
        self.sig = None
        self.branch = {}

    def hit(self, b):
        self.branch[b] = self.branch.get(b, 0) + 1

    # ---- the two properties, stated directly
    def deliveries(self, pat):
        """C06: who is reached by notify(pat): matched stored keys in map order, their valid observers in order"""
        keys = sorted(k for k in self.nodes if match_key(pat, k))
        count = sum(1 for k in keys if k in self.subj)
        reached = [(k, h) for k in keys for h, v in self.subj.get(k, []) if v]
        return keys, count, reached

    def live_at_or_below(self, k):
        return any(self.subj.get(k2) for k2 in self.nodes if k2[:len(k)] == k)

    def removed_by_shrink(self, pat):
        """C13: a stored key disappears iff nothing at or below it has an observer and the pattern visits the parent
        of every stored key at or below it"""
        rem = set()
        for k in self.nodes:
            if k == ():
                continue
            below = [k2 for k2 in self.nodes if k2[:len(k)] == k]
            if all(not self.subj.get(k2) and visited(pat, k2[:-1]) for k2 in below):
                rem.add(k)
        return rem

    def step(self, line):
        t = line.split()
        if len(t) < 2 or t[0] != "rt":
            raise Invalid()
        op, a = t[1], t[2:]
        if op == "init":
            if self.sig is not None or a[0] not in ("S", "C") or a[1] not in SIGS:
                raise Invalid()
            self.sig = a[1]
            return "ok"
        if self.sig is None:
            raise Invalid()
        if op == "sub":
            h, pat, mode = int(a[0]), parse_pattern(a[1]), a[2]
            if h in self.handles or any(k != "=" for k, _ in pat) or mode not in ("f", "p"):
                raise Invalid()
            key = tuple(n for _, n in pat)
            for i in range(len(key) + 1):
                self.nodes.add(key[:i])
            self.subj.setdefault(key, []).append([h, True])
            self.handles[h] = {"key": key, "mode": mode, "dangling": False, "cleared": False}
            return "ok"
        if op == "unsub":
            hd = self.handles.get(int(a[0]))
            if hd is None or hd["dangling"] or hd["cleared"]:
                raise Invalid()          # null / dangling handle: outside the statement
            lst = self.subj[hd["key"]]
            for e in lst:
                if e[0] == int(a[0]):
                    lst.remove(e)
                    hd["cleared"] = True
                    return "ok"
            self.hit("stale-unsubscribe")
            return "!inv"
        if op == "inval":
            hd = self.handles.get(int(a[0]))
            if hd is None or hd["dangling"] or hd["mode"] != "p":
                raise Invalid()
            for e in self.subj[hd["key"]]:
                if e[0] == int(a[0]):
                    e[1] = False
                    return "ok"
            raise Invalid()              # observer destroyed: the pointer dangles
        if op == "notify":
            pat = parse_pattern(a[0])
            arg = a[1]
            if not valid_arg(self.sig, arg):
                raise Invalid()
            keys, count, reached = self.deliveries(pat)
            for k in keys:
                if k in self.subj:
                    if any(not v for _, v in self.subj[k]):
                        self.hit("lazy-removal")
                    self.subj[k] = [e for e in self.subj[k] if e[1]]
            if any(kd == "~" for kd, _ in pat):
                self.hit("regex-level")
            if len({k for k, _ in reached}) > 1:
                self.hit("several-keys-reached")
            if len(reached) > len({k for k, _ in reached}):
                self.hit("several-observers-on-a-key")
            if count > len({k for k, _ in reached}):
                self.hit("subject-without-live-observer-counted")
            return "n=%d" % count + "".join(" %s:%d=%s" % (show_key(k), h, arg) for k, h in reached)
        if op == "shrink":
            pat = parse_pattern(a[0])
            before = {p: self.deliveries(parse_pattern(p))[2] for p in PROBES}
            rem = self.removed_by_shrink(pat)
            # the statement's own clauses, checked on the oracle itself
            for k in rem:
                assert not self.live_at_or_below(k) and visited(pat, k[:-1])
            self.nodes -= rem
            for k in rem:
                self.subj.pop(k, None)
            for hd in self.handles.values():
                if hd["key"] in rem:
                    hd["dangling"] = True
            for p in PROBES:
                assert self.deliveries(parse_pattern(p))[2] == before[p]
            if rem:
                self.hit("shrink-removes")
            if any(len(k) > 1 and k[:-1] not in rem for k in rem):
                self.hit("shrink-removes-below-survivor")
            if any(not self.subj.get(k) and k != () for k in self.nodes):
                self.hit("dead-key-survives-shrink")
            return "ok"
        if op == "exists":
            pat = parse_pattern(a[0])
            return "b=1" if any(match_key(pat, k) for k in self.nodes) else "b=0"
        if op == "depth":
            return "n=%d" % (1 + max(len(k) for k in self.nodes))
        if op == "snap":
            names = [n for n in a[0].split(",") if n]
            bits = "".join("1" if k in self.nodes else "0" for k in keys_up_to(names, int(a[1])))
            return "d=%d e=%s" % (1 + max(len(k) for k in self.nodes), bits)
        raise Invalid()


def valid_arg(sig, arg):
    try:
        if sig == "v":
            return arg == "-"
        if sig in ("i", "t"):
            return 0 <= int(arg) < 2 ** 31
        if sig in ("s", "r"):
            return bool(re.fullmatch(r"[A-Za-z0-9_]+", arg)) and arg not in ("EMPTY", "MOVED", "GARBAGE")
        if sig == "is":
            i, s = arg.split(",")
            return 0 <= int(i) < 2 ** 31 and bool(re.fullmatch(r"[A-Za-z0-9_]+", s)) and s not in ("EMPTY", "MOVED", "GARBAGE")
    except ValueError:
        return False
    return False


def expected(case, ref=None):
    r = ref or Ref()
    return [r.step(l) for l in case]


def valid(case):
    try:
        expected(case)
        return True
    except (Invalid, KeyError, IndexError, ValueError, re.error):
        return False


# ------------------------------------------------------------------ generators

NAME_POOL = ["a", "ab", "b", "ba", "aa", "abb", "a!b", "", "a^b", "^"]      # `!` = a `/` INSIDE a level name, `^` = a line feed (rt_main.cpp decodeName), "" = the empty name


def gen_regex(rng):
    """the subset `literal . * + ? [set] | ( )` over the letters a, b; at most one level of grouping and
    at most 14 characters (std::regex backtracks exponentially on deeply nested quantifiers)"""
    def atom(depth):
        k = rng.below(10)
        if k < 4:
            return rng.pick(["a", "b"])
        if k < 5:
            return "."
        if k < 7:
            return rng.pick(["[ab]", "[a-b]", "[^a]", "[^b]", "[b]"])
        if depth < 1:
            return "(" + alt(depth + 1) + ")"
        return rng.pick(["a", "b"])

    def piece(depth):
        a = atom(depth)
        k = rng.below(10)
        return a + ("*" if k < 2 else "+" if k < 3 else "?" if k < 5 else "")

    def seq(depth):
        return "".join(piece(depth) for _ in range(1 + rng.below(3 - depth)))

    def alt(depth):
        s = seq(depth)
        if rng.chance(1, 3):
            s += "|" + seq(depth)
        return s
    for _ in range(8):
        r = alt(0)
        if len(r) <= 14:
            return r
    return "[ab]+"


def gen_level(rng, names):
    k = rng.below(100)
    if k < 40:
        return "=" + rng.pick(names)
    if k < 60:
        return "*" if rng.chance(1, 2) else "~.*"      # RoutingKeyBuilder::all()  /  the same regex written out
    if k < 70:
        return "~" + rng.pick(["a.*", "[ab]+", "a?b+", ".+b", "(a|ab)", "a|b", "(a|b)b?", "[^a].*", ".", "a.?"])
    if k < 76:
        return "=" + rng.pick(NAME_POOL)          # possibly a name that is nowhere in the tree
    return "~" + gen_regex(rng)


def gen_arg(rng, sig):
    def text():
        k = rng.below(4)
        base = rng.pick(["x", "hello", "Q7", "payload"])
        if k == 0:
            return base                                     # short (SSO)
        return base + "_" + "".join(rng.pick("abcdefghijklmnopqrstuvwxyz0123456789") for _ in range(20 + rng.below(40)))
    if sig == "v":
        return "-"
    if sig in ("i", "t"):
        return str(rng.below(100000))
    if sig in ("s", "r"):
        return text()
    return "%d,%s" % (rng.below(100000), text())


def gen_case(rng, maxops, force_sig=None):
    ref = Ref()
    case = []
    kind = rng.pick(["S", "C"])
    sig = force_sig or rng.pick(SIGS)
    nnames = 2 + rng.below(3)
    k3 = rng.below(6)
    if k3 < 3:
        names = NAME_POOL[:3]
    elif k3 == 3:
        names = rng.pick([["a", "b", "a!b"],          # a level name containing the separator character: ("a/b") vs ("a","b")
                          ["a", "", "b"],             # the empty level name (what splitting "a//b" yields): not the root
                          ["a", "a^b", "^"]])         # names containing a line feed: no `.` matches them, `[^a]` does
    else:
        names = sorted(set(rng.pick(NAME_POOL) for _ in range(nnames + 1)))
    maxdepth = 2 + rng.below(2) if rng.chance(4, 5) else 4
    nexth = [0]

    def emit(line):
        try:
            ref.step(line)
        except (Invalid, re.error):
            return False
        case.append(line)
        return True

    def key_str(k):
        return "/" + "/".join("=" + n for n in k) if k else "/"

    def rand_key():
        k = rng.below(10)
        nodes = sorted(ref.nodes)
        if k < 3 and len(nodes) > 1:
            base = rng.pick(nodes)                          # an existing node (prefix of a full key, or a full key)
            return base
        if k < 6:
            base = rng.pick(nodes)
            if len(base) < maxdepth:
                return base + (rng.pick(names),)            # extend an existing node
            return base
        n = rng.below(maxdepth + 1)
        if n == 0 and not rng.chance(1, 4):
            n = 1
        return tuple(rng.pick(names) for _ in range(n))

    def rand_pattern():
        k = rng.below(10)
        depth = max(len(x) for x in ref.nodes)
        if k < 5:
            n = max(0, depth - rng.below(2))
        elif k < 7:
            n = depth + 1
        else:
            n = rng.below(maxdepth + 2)
        if rng.chance(1, 4) and len(ref.nodes) > 1:
            # a stored key, some of its levels generalised
            key = rng.pick(sorted(ref.nodes))
            lv = []
            for nm in key:
                lv.append("=" + nm if rng.chance(1, 2) else gen_level(rng, names))
            return "/" + "/".join(lv) if lv else "/"
        return "/" + "/".join(gen_level(rng, names) for _ in range(n)) if n else "/"

    def probes():
        emit("rt snap %s %d" % (",".join([n for n in names if n] or ["a"]), min(maxdepth, 3)))
        for p in PROBES[:maxdepth + 1]:
            emit("rt notify %s %s" % (p, gen_arg(rng, sig)))
        if rng.chance(1, 2):
            emit("rt exists %s" % rand_pattern())

    emit("rt init %s %s" % (kind, sig))
    nops = 6 + rng.below(maxops)
    # start with a few subscriptions so that the tree is not trivial
    for _ in range(2 + rng.below(5)):
        nexth[0] += 1
        emit("rt sub %d %s %s" % (nexth[0], key_str(rand_key()), rng.pick(["f", "p"])))
    while len(case) < nops:
        k = rng.below(100)
        live = [h for h, hd in ref.handles.items() if not hd["dangling"] and not hd["cleared"]]
        if k < 22:
            nexth[0] += 1
            emit("rt sub %d %s %s" % (nexth[0], key_str(rand_key()), rng.pick(["f", "p"])))
        elif k < 38:
            if live:
                emit("rt unsub %d" % rng.pick(sorted(live)))
        elif k < 48:
            cand = [h for h in live if ref.handles[h]["mode"] == "p" and any(e[0] == h for e in ref.subj[ref.handles[h]["key"]])]
            if cand:
                emit("rt inval %d" % rng.pick(sorted(cand)))
        elif k < 72:
            emit("rt notify %s %s" % (rand_pattern(), gen_arg(rng, sig)))
        elif k < 88:
            if rng.chance(1, 3):
                probes()                                    # the same probe set before the shrink
            j = rng.below(10)
            if j < 3:
                n = rng.below(maxdepth + 2)
                pat = "/" + "/".join("~.*" for _ in range(n)) if n else "/"
            else:
                pat = rand_pattern()
            emit("rt shrink %s" % pat)
            probes()
        elif k < 94:
            emit("rt exists %s" % rand_pattern())
        else:
            emit("rt depth")
    # final observation
    emit("rt shrink " + ("/" + "/".join("~.*" for _ in range(maxdepth)) if rng.chance(1, 2) else rand_pattern()))
    probes()
    emit("rt depth")
    return case


def fixed_cases():
    """small hand-written histories: the repository's own test scenarios and the documented corner cases"""
    cs = []
    for kind in ("S", "C"):
        # SubscribeNotify / Exists / Shrink / Depth of the repo's test, as one history
        cs.append(["rt init %s v" % kind, "rt sub 1 /=foo/=bar f", "rt sub 2 /=foo/=baz f", "rt sub 3 /=foo/=baz/=qux f",
                   "rt notify /=foo/=bar -", "rt notify /=foo/=baz -", "rt notify /=foo/~.* -", "rt notify /=foo/=baz/=qux -",
                   "rt exists /=foo/~ba[rz]", "rt exists /=foo/~ba[rz]/=qux", "rt exists /=foo/=bar/=qux", "rt depth",
                   "rt sub 4 /=foo/=bar/=qux f", "rt shrink /~.*/~.*/~.*", "rt snap foo,bar,baz,qux 3",
                   "rt unsub 1", "rt shrink /~.*/~.*/~.*", "rt snap foo,bar,baz,qux 3",
                   "rt unsub 4", "rt shrink /~.*/~.*/~.*", "rt snap foo,bar,baz,qux 3",
                   "rt unsub 2", "rt unsub 3", "rt shrink /~.*/~.*/~.*", "rt snap foo,bar,baz,qux 3", "rt depth"])
        for sig, arg in (("s", "hello_0123456789012345678901234567890123456789"), ("i", "42"), ("t", "7"),
                         ("is", "5,hello_0123456789012345678901234567890123456789"), ("r", "hello_0123456789012345678901234567890123456789")):
            # several keys and several observers per key behind a regex level (finding F5)
            cs.append(["rt init %s %s" % (kind, sig), "rt sub 1 /=a/=a f", "rt sub 2 /=a/=a p", "rt sub 3 /=a/=ab f", "rt sub 4 /=a/=b f",
                       "rt sub 5 /=b/=a f", "rt notify /=a/~.* %s" % arg, "rt notify /~.*/=a %s" % arg, "rt notify /~[ab]/~a.* %s" % arg,
                       "rt notify /=a/=a %s" % arg])
        # prefix of a full key is not the key; equal names at different depths
        cs.append(["rt init %s v" % kind, "rt sub 1 /=a f", "rt sub 2 /=a/=a f", "rt sub 3 /=a/=a/=a f", "rt sub 4 / f",
                   "rt notify / -", "rt notify /=a -", "rt notify /=a/=a -", "rt notify /~a* -", "rt notify /~.*/~.* -", "rt notify /~.*/~.*/~.* -",
                   "rt notify /~.*/~.*/~.*/~.* -", "rt exists /=a/=a/=a/=a", "rt exists /=a/=a/=a", "rt depth"])
        # invalidated observer still counts as a subscription until a notify removes it
        cs.append(["rt init %s v" % kind, "rt sub 1 /=a/=b p", "rt inval 1", "rt shrink /~.*/~.*", "rt snap a,b 2", "rt notify /=a/=b -",
                   "rt shrink /~.*/~.*", "rt snap a,b 2", "rt unsub 1", "rt sub 2 /=a/=b f", "rt notify /=a/=b -"])
        # shrink shorter than the tree: only childless dead nodes of visited parents go
        cs.append(["rt init %s v" % kind, "rt sub 1 /=a/=b/=a f", "rt sub 2 /=b f", "rt unsub 1", "rt unsub 2", "rt shrink /", "rt snap a,b 3",
                   "rt shrink /~.*", "rt snap a,b 3", "rt shrink /=a/=b", "rt snap a,b 3", "rt shrink /=a", "rt snap a,b 3", "rt shrink /", "rt snap a,b 3", "rt depth"])
    return cs


# ------------------------------------------------------------------ the tie

def canon(line):
    """delivery order across keys / inside a subject is not part of C06: compare the multiset of deliveries"""
    t = line.split(" ")
    if t and t[0].startswith("n=") and len(t) > 1:
        return t[0] + " " + " ".join(sorted(t[1:]))
    return line


def project(prop, op_line, out_line):
    """C06: notify lines (count + deliveries) and the results of subscribe/unsubscribe/invalidate;
    C13: deliveries (not the count), exists, depth, snapshots"""
    op = op_line.split()[1] if len(op_line.split()) > 1 else ""
    out_line = canon(out_line)
    if out_line.startswith("!ABORT") or out_line.startswith("!SHORT"):
        return out_line
    if prop == "C06":
        if op in ("exists", "depth", "snap"):
            return "-"
        return out_line
    if op == "notify":
        t = out_line.split(" ")
        return " ".join(t[1:])
    return out_line


def projected(prop, case, outs):
    res = []
    for i, o in enumerate(outs):
        res.append(project(prop, case[i] if i < len(case) else "rt ?", o))
    return res


def with_dump(case):
    out = []
    for l in case:
        out.append("rt dump")
        out.append(l)
    return out


def pattern_kind(pat):
    return "/".join("s" if tok[0] == "=" else ("w" if tok == "~.*" else "r") for tok in pat.split("/") if tok) or "root"


def run_tie(prop, spec, tier, seed):
    res = TieResult()
    rng = lib.SplitMix(seed).fork("router")
    binary, out = build_router_harness()
    if binary is None:
        res.failures.append(Failure("infra", "router harness does not compile against the working tree", replay={"compiler": out[-3000:]}))
        return res

    cases = lib.load_corpus("router")
    ncorpus = len(cases)
    cases += fixed_cases()
    nfixed = len(cases) - ncorpus
    if tier == "quick":
        cases += [gen_case(rng, 40) for _ in range(5000)]
    else:
        cases += [gen_case(rng, 70) for _ in range(60000)]
    cases = [c for c in cases if valid(c)]

    exp, branches = [], {}
    for c in cases:
        r = Ref()
        exp.append(expected(c, r))
        for b, n in r.branch.items():
            branches[b] = branches.get(b, 0) + n
    # the implementation runs in chunks: a broken tree (hundreds of sanitizer aborts, each restarting the stream) is
    # reported after the first chunks instead of being driven through every case
    impl, bad_cases, chunk = [], 0, 500
    for i in range(0, len(cases), chunk):
        part = seqtie.run_stream(binary, cases[i:i + chunk], "rt reset", timeout=900 if tier == "quick" else 3000)
        impl.extend(part)
        bad_cases += sum(1 for c, e, o in zip(cases[i:i + chunk], exp[i:i + chunk], part)
                         if projected(prop, c, e) != projected(prop, c, o))
        if bad_cases >= 60:
            break
    if len(impl) < len(cases):
        res.extra["stopped_early_after_cases"] = len(impl)
        cases, exp = cases[:len(impl)], exp[:len(impl)]
    model_raw = seqtie.run_stream(None, [with_dump(c) for c in cases], "rt reset", is_driver=True, timeout=3000)
    model = [raw[1::2] for raw in model_raw]
    dumps = [raw[0::2] for raw in model_raw]

    distinct = set()
    opcount, sigcount, kindcount = {}, {}, {}
    for c, d in zip(cases, dumps):
        t0 = c[0].split()
        kindcount[t0[2]] = kindcount.get(t0[2], 0) + 1
        sigcount[t0[3]] = sigcount.get(t0[3], 0) + 1
        for l, tree in zip(c, d):
            t = l.split()
            opcount[t[1]] = opcount.get(t[1], 0) + 1
            if t[1] in ("notify", "shrink", "exists"):
                shape = re.sub(r"\d+", "o", tree)           # stored keys + number/validity of observers, ids abstracted
                distinct.add((t[1], pattern_kind(t[2]), shape))
    # one evaluation = one operation applied to one router state on all three sides (a case is a history of ~30 of them)
    res.evaluations = sum(opcount.values())
    res.distinct = len(distinct)
    res.rule = ("evaluations = operations executed and compared (histories are listed under input_distribution.cases); cases = corpus (%d) + %d hand-written histories (the repo's own test scenarios, F5 shapes, prefix/equal-name collisions, lazy removal, "
                "short shrinks) for both router classes + seeded random valid histories (subscribe f/p, unsubscribe incl. stale handles, invalidate, notify, "
                "shrink followed by the probe set [snap over the key universe, %d wildcard notifies, exists], exists, depth) over colliding level names, "
                "one argument signature and one router class per history; distinct_nontrivial = distinct (op in {notify,shrink,exists}, pattern shape "
                "[s=string, w=.*, r=other regex per level], tree before the op as dumped by the model with observer ids abstracted) triples"
                % (ncorpus, nfixed, len(PROBES)))
    res.dist = {"ops": opcount, "signatures": sigcount, "router_class": kindcount, "branches": branches,
                "cases": len(cases), "total_ops": sum(opcount.values())}
    res.samples = [cases[ncorpus + nfixed] if len(cases) > ncorpus + nfixed else cases[0], cases[-1]]

    def check(outs, which):
        nfail = 0
        for c, e, o in zip(cases, exp, outs):
            d = seqtie.first_diff(projected(prop, c, e), projected(prop, c, o))
            if d is None:
                continue
            nfail += 1
            if nfail > 3:
                continue
            if which == "model":
                res.failures.append(Failure("drift", "Lean Router model disagrees with the oracle at op %d (%s): expected %r, model %r" %
                                            (d[0], c[d[0]] if d[0] < len(c) else "?", d[1], d[2]),
                                            replay={"correspondence": "router model vs oracle", "ops": c, "expected": e, "model": o}))
                continue

            def fails(cand):
                cand = [c[0]] + [x for x in cand if x != c[0]]
                if not valid(cand):
                    return False
                oo = seqtie.run_stream(binary, [cand], "rt reset")[0]
                return seqtie.first_diff(projected(prop, cand, expected(cand)), projected(prop, cand, oo)) is not None
            small = seqtie.ddmin(c[1:], fails)
            small = simplify([c[0]] + [x for x in small if x != c[0]], fails)
            ee = expected(small)
            oo = seqtie.run_stream(binary, [small], "rt reset")[0]
            dd = seqtie.first_diff(projected(prop, small, ee), projected(prop, small, oo)) or (0, "?", "?")
            res.failures.append(Failure("violation",
                                        "%s differs from the %s statement at op %d (%s): expected %r, got %r" %
                                        ("ConcurrentSubjectRouter" if small[0].split()[2] == "C" else "SubjectRouter", prop, dd[0],
                                         small[dd[0]] if dd[0] < len(small) else "?", dd[1], dd[2]),
                                        signature=";".join(small),
                                        replay={"component": "router", "ops": small, "expected": ee, "got": oo}))
        return nfail

    res.extra["impl_mismatches"] = check(impl, "impl")
    res.extra["model_mismatches"] = check(model, "model")
    return res


def simplify(ops, fails):
    """canonicalise a shrunk history: regex levels become `.*`, arguments become short, handles are renumbered --
    each step only if the history still fails"""
    cur = list(ops)

    def attempt(cand):
        nonlocal cur
        if cand != cur and fails(cand[1:]):
            cur = cand
            return True
        return False

    for i in range(1, len(cur)):
        t = cur[i].split()
        if t[1] in ("notify", "shrink", "exists"):
            lv = [x for x in t[2].split("/") if x]
            for j in range(len(lv)):
                if lv[j].startswith("~") and lv[j] != "~.*":
                    lv2 = lv[:j] + ["~.*"] + lv[j + 1:]
                    t2 = t[:2] + ["/" + "/".join(lv2)] + t[3:]
                    if attempt(cur[:i] + [" ".join(t2)] + cur[i + 1:]):
                        lv = lv2
                        t = t2
        if t[1] == "notify":
            sig = cur[0].split()[3]
            short = {"v": "-", "i": "1", "t": "1", "s": "x", "r": "x", "is": "1,x"}[sig]
            attempt(cur[:i] + [" ".join(t[:3] + [short])] + cur[i + 1:])
    # renumber handles in order of appearance
    ren = {}
    out = []
    for l in cur:
        t = l.split()
        if t[1] == "sub":
            ren.setdefault(t[2], str(len(ren) + 1))
        if t[1] in ("sub", "unsub", "inval") and t[2] in ren:
            t[2] = ren[t[2]]
        out.append(" ".join(t))
    attempt(out)
    return cur


def replay(prop, spec, path):
    data = json.load(open(path))
    ops = data.get("replay", {}).get("ops") or data.get("ops")
    if not ops:
        print(json.dumps(data, indent=1))
        return 0
    binary, out = build_router_harness()
    if binary is None:
        print(out[-3000:])
        return 2
    e = expected(ops)
    o = seqtie.run_stream(binary, [ops], "rt reset")[0]
    m = seqtie.run_stream(None, [ops], "rt reset", is_driver=True)[0]
    pe, po = projected(prop, ops, e), projected(prop, ops, o)
    bad = False
    for i, l in enumerate(ops):
        oo = o[i] if i < len(o) else "<missing>"
        mm = m[i] if i < len(m) else "<missing>"
        flag = "" if i < len(po) and pe[i] == po[i] else "   <-- differs"
        bad = bad or bool(flag)
        print("%s\n    oracle: %s\n    impl:   %s\n    model:  %s%s" % (l, e[i], oo, mm, flag))
    if len(o) > len(ops):
        print("    " + " ".join(o[len(ops):]))
    if bad:
        print("VIOLATION property=%s replay=%s" % (prop, path))
    return 1 if bad else 0
