"""Expiring workers + update() for C07 / C08 (used by components/pool.py): tulz::ThreadPool with setExpiryTimeout(T >= 0 or < 0),
update() and a VIRTUAL CLOCK under the controlled scheduler (harness/pool/poolx_harness.cpp, harness/pool/remapx.h), replayed
lock-step on the Lean model TPoolX (Tulz/Model/PoolX.lean) through the `pool x …` driver protocol, plus direct trace monitors.
This module registers no property of its own (no PROPS): components/pool.py merges its runs into C07 / C08."""
import os

import lib
import schedtie
from lib import Failure

HARNESS = "harness/pool/poolx_harness.cpp"
REPO_SRC = ["src/threading/ThreadPool.cpp", "src/threading/Thread.cpp", "src/threading/Runnable.cpp"]


def build():
    flags = ["-include", os.path.join(lib.VERIF, "harness/pool/remapx.h")]
    return lib.build_harness("poolx_harness", [HARNESS], extra_flags=flags, repo_sources=REPO_SRC,
                             deps=["harness/sched/sched.h", "harness/sched/remap.h", "harness/pool/remapx.h"])


# ------------------------------------------------------------------ scripts

def parse_cfg(cfg):
    head, ops = cfg.split(":")
    mx, to = head.split("/")
    return int(mx), int(to), ops.split(",")


def model_prog(cfg):
    """owner program for the model: sN | c | x | u | tD (the scheduler-level waits `w`, `z` are not operations of the pool)"""
    mx, to, ops = parse_cfg(cfg)
    out = []
    n = 0
    for o in ops:
        if o in ("s", "f", "g", "l"):
            n += 1
            out.append("s%d" % n)
        elif o in ("c", "x", "u"):
            out.append(o)
        elif o.startswith("t"):
            out.append(o)
    return mx, ("-" if to < 0 else str(to)), ",".join(out)


def starts(rng, n, plain):
    return [("s" if plain else rng.pick("sssfgl")) for _ in range(n)]


def gen_cfg(rng, tier):
    mx = rng.below(4) if rng.chance(1, 8) else 1 + rng.below(3)
    if rng.chance(1, 10):
        mx = -1                      # setMaxThreadCount(negative) = no limit
    to = rng.pick([-1, 0, 3, 5, 5, 10, 10])
    over = (to if to >= 0 else 5) + 1 + rng.below(6)          # an advance that passes the timeout
    under = max(1, (to if to > 0 else 2) - 1 - rng.below(2))  # … and one that (alone) does not
    plain = rng.chance(1, 3)
    ops = []
    shape = rng.below(6)
    if shape <= 2:
        # worker idles past the timeout, update() wakes it so it retires, then update() again reaps it / or stop() before the reap,
        # then restart with >= max submissions
        ops += starts(rng, 1 + rng.below(2), plain)
        if rng.chance(2, 3):
            ops.append("w")
        ops.append("t%d" % over)
        ops.append("u")
        r = rng.below(5)
        if r == 0:
            ops += ["z", "u"]
        elif r == 1:
            ops += ["u"]
        elif r == 2:
            ops += ["z"]
        elif r == 3:
            ops += ["x"]
        if rng.chance(1, 2):
            ops.append("x")
        ops += starts(rng, max(1, mx) + rng.below(2), plain)
        if rng.chance(1, 2):
            ops.append("w")
        if rng.chance(1, 3):
            ops += ["t%d" % over, "u"]
    elif shape == 3:
        # `t` between submissions; expiry with a non-empty queue (the task is still taken)
        for _ in range(2 + rng.below(3)):
            ops += starts(rng, 1, plain)
            ops.append("t%d" % rng.pick([under, over, over]))
            if rng.chance(1, 3):
                ops.append("u")
        if rng.chance(1, 2):
            ops.append("w")
    else:
        budget = 3 + rng.below(5 if tier == "quick" else 8)
        for _ in range(budget):
            r = rng.below(24)
            if r < 9 or not ops:
                ops += starts(rng, 1, plain)
            elif r < 11:
                ops.append("c")
            elif r < 13:
                ops.append("w")
            elif r < 17:
                ops.append("u")
            elif r < 21:
                ops.append("t%d" % rng.pick([under, over, over, 1, 20]))
            elif r < 22:
                ops.append("z")
            else:
                ops.append("x")
    ops.append("x")
    return "%d/%d:%s" % (mx, to, ",".join(ops))


DFS_QUICK = ["1/5:s,w,t9,u,z,u", "1/5:s,t9,u,x,s,s,x", "1/5:s,w,t9,u,s,x", "2/3:s,s,t4,u,u,x", "1/-1:s,t9,u,x", "0/5:s,t9,u,x",
             "1/0:s,t1,s,x"]
DFS_THOROUGH = DFS_QUICK + ["1/5:s,w,t9,u,x,s,s,w,x", "2/5:s,s,w,t9,u,z,u,s,s,s,w,x", "1/5:s,t9,s,t9,u,w,x", "3/3:s,s,s,t4,u,u,s,x",
                            "1/5:s,w,t9,u,z,s,u,s,w,x", "2/0:s,t1,u,s,t1,u,x"]


def explicit_line(cfg, choices):
    return "run %s sched %s pts" % (cfg, " ".join(map(str, choices)))


def cfg_of(run):
    return run.line.split()[1]


# ------------------------------------------------------------------ trace analysis

def parse(run):
    """events of the execution proper (the harness's own clean-up after `fin` is not part of it)"""
    out = []
    for l in run.events:
        if l.startswith("pw "):
            continue
        t = l.split()
        out.append(t)
        if t and t[0] == "fin":
            break
    return out


def canonical_steps(events):
    """driver lines (`pool x …`): one per completed critical section / notification / join / task event / clock advance /
    owner observation.  Scheduler thread ids: 0 = owner, k >= 1 = the (k-1)-th worker thread ever spawned (= model worker index)."""
    out = []
    held = {}
    deferred = {}
    qds = None
    tick = None
    spawned = None
    cs_mark = 0         # inside update()'s pool section: where the owner's current join entry sits in `out`
    in_p = False
    cur_op = None

    def flush(t):
        for d in deferred.pop(t, []):
            out.append(d)

    for t in events:
        k = t[0]
        if k == "op":
            cur_op = t[1]
            if cur_op == "update":
                out.append("pool x op u")
        elif k == "lock":
            held.setdefault(t[1], set()).add(t[2])
            if t[1] == "0" and t[2] == "m0":
                qds, tick = [], None
            elif t[1] == "0" and t[2] == "m1":
                in_p, spawned, cs_mark = True, None, len(out)
            elif t[1] != "0" and t[2] != "m0":
                out.append("pool x bad worker-locks-" + t[2])
        elif k == "tick":
            if qds is None:
                out.append("pool x bad tick-outside-queue-section")
            tick = t[1]
        elif k == "unlock":
            held.setdefault(t[1], set()).discard(t[2])
            if t[1] == "0" and t[2] == "m0":
                if tick is not None:
                    out.append("pool x tick " + tick)
                else:
                    out.append("pool x ocs q" + "".join(" " + d for d in (qds or [])))
                qds, tick = None, None
            elif t[1] == "0" and t[2] == "m1":
                if spawned is None:
                    out.append("pool x ocs p")
                in_p = False
            elif t[1] != "0" and t[2] == "m0":
                out.append("pool x wcs %d" % (int(t[1]) - 1))
            if not held.get(t[1]):
                flush(t[1])
        elif k == "park":
            held.setdefault(t[1], set()).discard("m0")
            if t[1] == "0":
                out.append("pool x bad owner-parks")
            else:
                out.append("pool x wpark %d" % (int(t[1]) - 1))
            flush(t[1])
        elif k == "notify":
            if t[1] != "0":
                line = "pool x bad worker-notifies"
            else:
                line = "pool x onotify " + t[3] + "".join(" %d" % (int(x) - 1) for x in t[4:])
            if held.get(t[1]):
                deferred.setdefault(t[1], []).append(line)
            else:
                out.append(line)
        elif k == "spawn":
            if in_p and spawned is None:
                spawned = int(t[2]) - 1
                out.append("pool x ocs p spawn %d" % spawned)
            else:
                out.append("pool x bad spawn-outside-pool-section")
        elif k == "joined":
            if cur_op == "update" and in_p:
                # update()'s loop found this thread finished and called join(): the ENTRY of join is a scheduling point, so what the
                # workers did since the owner's previous event happened while the owner already stood at this entry
                out.insert(cs_mark, "pool x reap %d" % (int(t[2]) - 1))
                cs_mark = len(out)
            else:
                out.append("pool x joined %d" % (int(t[2]) - 1))
        elif k == "exit":
            out.append("pool x exit %d" % (int(t[1]) - 1))
        elif k == "submit":
            out.append("pool x submit " + t[1])
        elif k in ("runBegin", "runEnd"):
            out.append("pool x %s %s %d" % (k, t[1], int(t[2]) - 1))
        elif k == "destroy":
            if t[2] == "0":
                if qds is not None:
                    qds.append(t[1])
                else:
                    out.append("pool x odestroy " + t[1])
            else:
                out.append("pool x destroy %s %d" % (t[1], int(t[2]) - 1))
        elif k == "stopReturned":
            out.append("pool x stopReturned")
        elif k in ("threadCount", "activeCount"):
            out.append("pool x %s %s" % (k, t[1]))
        elif k == "awaitDone" and t[1] == "stuck":
            out.append("pool x quiescent")
    return out


def first_line(err, needle):
    for x in err.split("\n"):
        if needle in x:
            return x.strip()[:220]
    return err.strip().split("\n")[-1][:220] if err.strip() else ""


def monitor(prop, cfg, run):
    """direct statement of the property on the observed trace; every message is a DEFINITE violation.
    With expiry a task may legitimately stay queued (every worker expired, update() not called: start() does not spawn while a
    finished thread sits in the pool) — that is the library's documented design and is not flagged."""
    ev = parse(run)
    mx, to, ops = parse_cfg(cfg)
    msgs = []
    idx = {}

    def rec(t):
        return idx.setdefault(t, {"submit": None, "rb": [], "re": [], "de": []})
    ops_at = []
    for i, t in enumerate(ev):
        if t[0] == "submit":
            rec(t[1])["submit"] = i
        elif t[0] == "runBegin":
            rec(t[1])["rb"].append((i, t[2]))
        elif t[0] == "runEnd":
            rec(t[1])["re"].append((i, t[2]))
        elif t[0] == "destroy":
            rec(t[1])["de"].append((i, t[2]))
        elif t[0] == "op":
            ops_at.append((i, t[1]))
    last_op = ops_at[-1][1] if ops_at else None
    finished_op = any(t[0] == "opdone" for t in ev[ops_at[-1][0]:]) if ops_at else True
    stuck = run.status in ("deadlock", "hang")
    if run.status == "abort":
        what = first_line(run.stderr, "ERROR: AddressSanitizer") or first_line(run.stderr, "runtime error") or first_line(run.stderr, "terminate")
        msgs.append("the real code crashed (%s)" % (what or "no diagnostic"))
    if prop == "C07":
        for t, r in sorted(idx.items(), key=lambda kv: int(kv[0])):
            if len(r["rb"]) > 1:
                msgs.append("task %s was run %d times (runBegin by threads %s)" % (t, len(r["rb"]), [w for _, w in r["rb"]]))
            if len(r["de"]) > 1:
                msgs.append("task %s was destroyed %d times" % (t, len(r["de"])))
            if r["de"]:
                d = r["de"][0][0]
                for b, w in r["rb"]:
                    if b > d:
                        msgs.append("task %s started running (event %d) after it was destroyed (event %d)" % (t, b, d))
                    else:
                        ends = [e for e, _ in r["re"] if b < e]
                        if not ends or d < ends[0]:
                            msgs.append("task %s was destroyed (event %d) while it was running (runBegin at %d, no runEnd before)" % (t, d, b))
            if r["rb"] and any(w == "0" for _, w in r["de"]) and False:
                pass
        # lost task — only where definite: the owner waits, nobody can move, a task is pending (never taken, never destroyed: so no
        # clear()/stop() came after its submission and the pool is running) and a LIVE worker sits in the untimed wait un-notified
        parked, live = set(), set()
        for i, t in enumerate(ev):
            if t[0] == "spawn":
                live.add(t[2])
            elif t[0] == "exit":
                live.discard(t[1]); parked.discard(t[1])
            elif t[0] == "park":
                parked.add(t[1])
            elif t[0] == "notify":
                for w in t[4:]:
                    parked.discard(w)
            elif t[0] == "awaitDone" and t[1] == "stuck":
                pend = [x for x, r in idx.items() if r["submit"] is not None and r["submit"] < i and not any(b < i for b, _ in r["rb"])
                        and not any(d < i for d, _ in r["de"])]
                if pend and (parked & live):
                    msgs.append("lost task: tasks %s are queued in a running pool, worker threads %s are alive and blocked in the wait, and nobody can move" %
                                (sorted(pend, key=int), sorted(parked & live)))
        stopped = False
        for t in ev:
            if t[0] == "stopReturned":
                stopped = True
            elif t[0] == "op" and t[1] == "start":
                stopped = False
            elif t[0] == "runBegin" and stopped:
                msgs.append("task %s started running after stop() had returned" % t[1])
        if mx == 1:
            order = [int(t[1]) for t in ev if t[0] == "runBegin"]
            if order != sorted(order):
                msgs.append("single worker: tasks ran in order %s, not in submission order" % order)
        if run.status == "ok" and last_op == "stop":
            for t, r in sorted(idx.items(), key=lambda kv: int(kv[0])):
                if not r["de"]:
                    msgs.append("task %s was never destroyed although the pool was stopped and the run ended" % t)
    elif prop == "C08":
        if run.status == "leftover" and last_op == "stop":
            left = [t for t in ev if t[0] == "leftover"] or [l.split() for l in run.events if l.startswith("leftover")]
            msgs.append("worker threads %s are still alive after the final stop() returned" % (left[0][1:] if left else "?"))
        if stuck and last_op == "stop" and not finished_op:
            msgs.append("stop() never returns: %s (%s)" % (run.status, " ".join(ev[-1]) if ev else ""))
        elif stuck:
            msgs.append("%s inside %s" % (run.status, last_op))
        live = set()
        restart_pending = False
        in_restart = False
        running_now = {}
        for i, t in enumerate(ev):
            if t[0] == "spawn":
                live.add(t[2])
                if 0 <= mx < len(live):
                    msgs.append("%d worker threads alive (%s) with setMaxThreadCount(%d)" % (len(live), sorted(live), mx))
            elif t[0] == "exit":
                live.discard(t[1])
            elif t[0] == "runBegin":
                running_now[t[1]] = t[2]
            elif t[0] == "runEnd":
                running_now.pop(t[1], None)
            elif t[0] == "threadCount":
                n = int(t[1])
                if 0 <= mx < n:
                    msgs.append("getThreadCount() = %d with setMaxThreadCount(%d)" % (n, mx))
                if i >= 2 and ev[i - 2][0] == "stopReturned" and n != 0:
                    msgs.append("getThreadCount() = %d after stop() returned" % n)
                if in_restart:
                    if n < 1 and (mx >= 1 or mx < 0):
                        msgs.append("start() after stop() did not spawn a worker (getThreadCount() = %d)" % n)
                    in_restart = restart_pending = False
            elif t[0] == "activeCount":
                # getActiveThreadCount() counts pool threads whose completion flag is clear: never more than the live worker threads
                if int(t[1]) > len(live):
                    msgs.append("getActiveThreadCount() = %s but only %d worker threads have not finished" % (t[1], len(live)))
            elif t[0] == "op" and t[1] == "start":
                in_restart = restart_pending
            elif t[0] == "stopReturned":
                if live:
                    msgs.append("stop() returned while worker threads %s have not exited" % sorted(live))
                if running_now:
                    msgs.append("stop() returned while tasks %s are running" % sorted(running_now))
                pend = [x for x, r in idx.items() if r["submit"] is not None and r["submit"] < i and not any(d < i for d, _ in r["de"])]
                if pend:
                    msgs.append("stop() returned but tasks %s (submitted before) have not been destroyed" % sorted(pend, key=int))
                restart_pending = True
        stopped = False
        for t in ev:
            if t[0] == "stopReturned":
                stopped = True
            elif t[0] == "op" and t[1] == "start":
                stopped = False
            elif t[0] in ("runBegin", "runEnd") and stopped:
                msgs.append("task event `%s` after stop() had returned and before any start()" % " ".join(t))
    seen = set()
    res = []
    for m in msgs:
        if m not in seen:
            seen.add(m)
            res.append(m)
    return res


def model_check(runs):
    """lock-step replay on the Lean model TPoolX; returns per run the first mismatch (or None)"""
    lines = []
    idx = []
    for r in runs:
        ev = parse(r)
        steps = canonical_steps(ev)
        mx, to, prog = model_prog(cfg_of(r))
        start = len(lines)
        # a negative maximum means "no limit": the model (max : Nat) runs with a bound no execution reaches
        lines.append("pool x init %d %s %s" % (mx if mx >= 0 else 1000000, to, prog))
        lines.extend(steps)
        if r.status == "ok":
            lines.append("pool x end")
        elif r.status == "deadlock":
            lines.append("pool x stuck")
        else:
            lines.append("pool x status")
        idx.append((start, len(lines)))
    out, rc, err = lib.run_driver(lines)
    res = []
    for (a, b), r in zip(idx, runs):
        seg = out[a:b]
        bad = None
        if len(seg) < b - a:
            bad = "driver stopped early: " + err[-300:]
        for i, o in enumerate(seg):
            if o.startswith("MISMATCH") or o == "bad-op" or o == "bad-component":
                bad = "%s -> %s" % (lines[a + i], o)
                break
        res.append(bad)
    return res


def features(cfg, ev, steps, feat):
    """what the execution exercised (input distribution of the evidence)"""
    mx, to, ops = parse_cfg(cfg)
    spawned = [t[2] for t in ev if t[0] == "spawn"]
    exited_at = {t[1]: i for i, t in enumerate(ev) if t[0] == "exit"}
    stops = [i for i, t in enumerate(ev) if t[0] == "op" and t[1] == "stop"]
    # a worker that left its loop while the pool was running = expired
    expired = set()
    running = True
    for i, t in enumerate(ev):
        if t[0] == "op" and t[1] == "stop":
            running = False
        elif t[0] == "op" and t[1] == "start":
            running = True
        elif t[0] == "exit" and running:
            expired.add(t[1])
    if expired:
        feat["worker_expired"] += 1
    if any(s.startswith("pool x reap") for s in steps):
        feat["update_reaped"] += 1
    if expired and any(t[0] == "joined" for t in ev) and stops:
        # stop() joined a retired, not yet reaped worker
        reaped_in_update = set()
        for s in steps:
            if s.startswith("pool x reap"):
                reaped_in_update |= {str(int(x) + 1) for x in s.split()[3:]}
        if expired - reaped_in_update:
            feat["stop_before_reap"] += 1
    if to < 0 and "u" in ops:
        feat["update_noop"] += 1
    if len(spawned) > len(set(exited_at)) or len(spawned) >= 2:
        feat["two_or_more_workers_ever"] += 1
    # start() while a finished thread is still listed: no spawn although size < max or not
    tc = ac = None
    for i, t in enumerate(ev):
        if t[0] == "threadCount":
            tc = int(t[1])
        elif t[0] == "activeCount":
            ac = int(t[1])
        elif t[0] == "op" and t[1] == "start" and tc is not None and ac is not None and ac < tc:
            feat["start_with_retired_listed"] += 1
            break
    # expired worker took a task anyway (queue non-empty at the evaluation)
    if any(t[0] == "awaitDone" and t[1] == "stuck" for t in ev):
        feat["await_gave_up"] += 1
    if any(o.startswith("t") for o in ops):
        feat["clock_advanced"] += 1


def shrink(binary, prop, run, batch):
    cfg = cfg_of(run)
    best = run
    ch = run.choices()
    lo, hi = 0, len(ch)
    while lo < hi:
        mid = (lo + hi) // 2
        r = batch(binary, [explicit_line(cfg, ch[:mid])])[0]
        if r.status is not None and monitor(prop, cfg, r):
            hi = mid
            best = r
        else:
            lo = mid + 1
    return best


def run(prop, tier, rng, res, batch, dfs):
    """the expiring-worker part of run_tie: appends failures to res, returns a dict for res.dist / the rule text"""
    binary, out = build()
    if binary is None:
        res.failures.append(Failure("infra", "poolx harness does not compile against the working tree", replay={"compiler": out[-3000:]}))
        return None
    runs = []
    cfgs = DFS_QUICK if tier == "quick" else DFS_THOROUGH
    budget = 400 if tier == "quick" else 3000
    bound = 2 if tier == "quick" else 3
    dfs_total, dfs_complete = 0, True
    for cfg in cfgs:
        rs, complete = dfs(binary, lambda p, cfg=cfg: explicit_line(cfg, p), budget, bound)
        runs += rs
        dfs_total += len(rs)
        dfs_complete = dfs_complete and complete
    nrand = 4000 if tier == "quick" else 30000
    lines = []
    for i in range(nrand):
        lines.append("run %s seed %d pts" % (gen_cfg(rng, tier), rng.next() % (1 << 40)))
    runs += batch(binary, lines, max_restarts=200)
    executed = [r for r in runs if r.status is not None]
    stat = {}
    opstat = {}
    feat = {"worker_expired": 0, "update_reaped": 0, "stop_before_reap": 0, "update_noop": 0, "two_or_more_workers_ever": 0,
            "start_with_retired_listed": 0, "await_gave_up": 0, "clock_advanced": 0}
    distinct = set()
    for r in executed:
        stat[r.status] = stat.get(r.status, 0) + 1
        ev = parse(r)
        steps = canonical_steps(ev)
        cfg = cfg_of(r)
        for o in parse_cfg(cfg)[2]:
            o = o[0]
            opstat[o] = opstat.get(o, 0) + 1
        before = feat["worker_expired"]
        features(cfg, ev, steps, feat)
        if feat["worker_expired"] > before:
            distinct.add((cfg, tuple(steps)))
    nviol = 0
    sigs = set()
    for r in executed:
        msgs = monitor(prop, cfg_of(r), r)
        if msgs:
            nviol += 1
            key = (cfg_of(r), msgs[0].split(":")[0][:40])
            if len(sigs) < 3 and key not in sigs:
                sigs.add(key)
                small = shrink(binary, prop, r, batch)
                sm = monitor(prop, cfg_of(small), small)
                res.failures.append(Failure("violation", "tulz::ThreadPool with expiring workers, script %s (max/timeout:ops): %s" % (cfg_of(small), "; ".join(sm[:3])),
                                            signature="x|%s|%s" % (cfg_of(small), " ".join(map(str, small.choices()))),
                                            replay={"component": "pool", "harness": "poolx", "cfg": cfg_of(small), "schedule": small.choices(),
                                                    "events": small.events, "status": small.status, "stderr": small.stderr[-1500:],
                                                    "monitor": sm}))
    mm = model_check(executed)
    nmm = 0
    for r, bad in zip(executed, mm):
        if bad:
            nmm += 1
            if nmm <= 2:
                res.failures.append(Failure("drift", "lock-step replay (expiring workers): real ThreadPool and the Lean model TPoolX disagree (%s): %s" % (r.line, bad),
                                            replay={"correspondence": "pool x lock-step replay", "run": r.line, "schedule": r.choices(), "events": r.events,
                                                    "mismatch": bad}))
    sample = None
    for r in executed:
        if any(l.startswith("joined") for l in r.events) and "u" in parse_cfg(cfg_of(r))[2]:
            sample = r
    return {"executed": len(executed), "distinct": len(distinct), "status": stat, "ops": opstat, "features": feat, "dfs_executions": dfs_total,
            "dfs_complete": dfs_complete, "dfs_cfgs": cfgs, "dfs_bound": bound, "random_executions": nrand, "monitor_violations": nviol,
            "model_mismatches": nmm, "skipped_after_crashes": len(runs) - len(executed),
            "sample": ({"run": sample.line, "status": sample.status, "steps": canonical_steps(parse(sample))[:70]} if sample else None)}


def replay(prop, rp):
    binary, out = build()
    if binary is None:
        print(out[-3000:])
        return 2
    r = schedtie.run_batch(binary, [explicit_line(rp["cfg"], rp["schedule"])])[0]
    for e in r.events:
        print(e)
    print("end", r.status)
    if r.stderr:
        print(r.stderr[-1500:])
    msgs = monitor(prop, rp["cfg"], r)
    bad = model_check([r])[0]
    if bad:
        print("model replay:", bad)
    for m in msgs:
        print("MONITOR:", m)
    return 1 if msgs else 0
