"""C14: tulz::Array against the Lean slot/heap model and the plain-list oracle.

A case is a list of lines; the first is `arr cfg <cls> <nv>` (element kind, number of variable slots).
cls=1 cases run on Array<verif::Tracked>, cls=0 cases on Array<long> and Array<unsigned char>.
Oracle = one plain Python list per variable (None = indeterminate element of a non-class type)
+ the multiset of live values + which variables hold storage.
"""
import json

import iterspec
import lib
import seqtie
from lib import Failure, TieResult

HARNESS = "harness/array/arr_harness.cpp"
DEPS = ["harness/tracked.h", "harness/iter_script.h"]
RESET = "arr reset"
ELEMS = {"tracked": (1, []), "long": (0, ["-DELEM_LONG"]), "uchar": (0, ["-DELEM_UCHAR"]), "double": (0, ["-DELEM_DOUBLE"]),
         # class path of Array.h for a class whose lifetime is not observable (trivially copyable/destructible, non-trivial default ctor)
         "pod": (1, ["-DELEM_POD"])}
VALUE_ONLY = {"pod"}         # element types compared on results only (no lifetime deltas, no live set)

PROPS = {
    "C14": {
        "design_ref": "6.2/C14",
        "technique": "Lean 4 refinement + invariant proof over a slot/block-identity model of Array.h (every constructor, copy/move/assign/swap, both resizes, destruction; class and non-class element paths) to a list specification, lifted to every history over several variables + three-way differential correspondence with lifetime tracking under ASan",
        "level_text": "Machine-checked proof that every construction path holds exactly the stated elements, that each of the 20 modelled operations under the store invariant never fails (no out-of-bounds, destructor on non-object, construction over a live element, leak or bad free), returns the list specification's answer and preserves the invariant, for every length incl. 0, both element-type paths and any number of variables; hence for every history: outputs equal the specification, live values equal the contents, copies own a fresh block (a block-sharing copy is refuted by a double free), moves transfer the block, and after all variables are dropped nothing is live and every block was freed exactly once. Tied to Array.h on every run by running model, Python oracle and the real Array<Tracked/long/unsigned char> on generated histories under ASan/UBSan with allocation counting.",
        "level_note": "Trusted: Lean kernel; transcription of Array.h; malloc/realloc/free/memcpy as block ids (glibc behaviour for size 0); bitwise relocation by realloc assumed sound for the element type (the property's restriction); Array(T*, n, copy=false) excluded; memcpy(dst, nullptr, 0) tolerated (UBSan nonnull check off, see DESIGN).",
        "lean_modules": ["Tulz.Props.C14", "Tulz.Props.C04Iter"],
        "theorems": ["Tulz.C14_ctor_contents", "Tulz.C14_copy_independent", "Tulz.C14_shallow_copy_refuted",
                     "Tulz.C14_move_transfers", "Tulz.C14_resize", "Tulz.C14_op_refines", "Tulz.C14_history",
                     "Tulz.C14_class_plain", "Tulz.C14_lifetime", "Tulz.C14_iter_forward", "Tulz.C04_iter_script_positions", "Tulz.C04_iter_operator_laws"],
        "trusted_base": [
            "modelled, not verified: malloc/realloc/free/memcpy as block identities + slot lists (Mem.lean, MemExtra.lean); realloc(p,0) frees and returns null, "
            "malloc(0) returns a unique block (glibc / ASan allocator behaviour); realloc moving or not is not distinguished",
            "bitwise relocation by realloc is assumed sound for the element type (the property's own restriction; false e.g. for libstdc++ std::string)",
            "unbounded Nat: size*sizeof(T) overflow and allocation failure are not modelled; exceptions thrown by element constructors are not modelled",
            "the value of an uninitialised element of a non-class type is `none` (indeterminate): reading it is excluded by the precondition, not given a value",
        ],
        "assumptions": ["Array(T*, n, copy=false) (adopting foreign storage) is excluded (DESIGN 6.2)",
                        "element type is bitwise relocatable",
                        "operator[]/front/back are used inside [0,size) (the C++ has no check; the model reports OOB otherwise)"],
    },
}


# ------------------------------------------------------------------ oracle

class Invalid(Exception):
    pass


def delta(lost, gained):
    lost, gained = list(lost), list(gained)
    for v in list(lost):
        if v in gained:
            lost.remove(v)
            gained.remove(v)
    parts = ["-%d" % v for v in sorted(lost)] + ["+%d" % v for v in sorted(gained)]
    return "d:" + " ".join(parts)


class Ref:
    """plain lists; self.st[i] is None (no object) or [list, holds_storage]"""

    def __init__(self):
        self.cls = 1
        self.st = []
        self.key = None   # coverage key of the last op

    def need(self, i):
        if i >= len(self.st) or self.st[i] is None:
            raise Invalid()
        return self.st[i]

    def fresh(self, i):
        if i >= len(self.st) or self.st[i] is not None:
            raise Invalid()

    def vals(self, l):
        return [v for v in l if v is not None]

    def step(self, line):
        t = line.split()
        assert t[0] == "arr"
        op = t[1]
        if op == "it":
            o = self.need(int(t[2]))
            self.key = (op, self.cls, min(len(o[0]), 6))
            try:
                return iterspec.oracle(o[0], int(t[3]), t[4:]) + " | " + ("d:" if self.cls else "d:?")
            except iterspec.BadScript:
                raise Invalid()
        a = [int(x) for x in t[2:]]
        lost, gained, res = [], [], "ok"
        dfl = 0 if self.cls else None
        self.key = (op, self.cls)
        if op == "cfg":
            self.cls, self.st = a[0], [None] * a[1]
            return "ok"
        if op == "live":
            return "live=" + " ".join(map(str, sorted(v for o in self.st if o for v in self.vals(o[0])))) if self.cls else "live="
        if op == "heap":
            return "owned=%d" % sum(1 for o in self.st if o and o[1])
        if op == "peek":
            return "l=" + " ".join("?" if v is None else str(v) for v in self.need(a[0])[0])
        if op == "alias":
            x, y = self.need(a[0]), self.need(a[1])
            return "b=1" if a[0] == a[1] and x[1] else "b=0"
        if op == "ptr":
            self.fresh(a[0])
            n, src = a[1], a[2:]
            if n > len(src):
                raise Invalid()
            self.st[a[0]] = [src[:n], True]
            gained = src[:n]
            self.key += (min(n, 6), len(src) > n)
        elif op == "init":
            self.fresh(a[0])
            if len(a) - 1 > 5:
                raise Invalid()
            self.st[a[0]] = [a[1:], True]
            gained = a[1:]
            self.key += (len(a) - 1,)
        elif op == "size":
            self.fresh(a[0])
            self.st[a[0]] = [[dfl] * a[1], True]
            gained = self.vals([dfl] * a[1])
            self.key += (min(a[1], 6),)
        elif op == "fill":
            self.fresh(a[0])
            self.st[a[0]] = [[a[2]] * a[1], True]
            gained = [a[2]] * a[1]
            self.key += (min(a[1], 6),)
        elif op == "dflt":
            self.fresh(a[0])
            self.st[a[0]] = [[], False]
        elif op == "copy":
            self.fresh(a[0])
            o = self.need(a[1])
            self.st[a[0]] = [list(o[0]), True]
            gained = self.vals(o[0])
            self.key += (min(len(o[0]), 6), o[1], None in o[0])
        elif op == "mctor":
            self.fresh(a[0])
            o = self.need(a[1])
            self.st[a[0]] = o
            self.st[a[1]] = [[], False]
            self.key += (min(len(o[0]), 6), o[1])
        elif op == "cassign":
            d, s = self.need(a[0]), self.need(a[1])
            self.key += (a[0] == a[1], min(len(d[0]), 6), min(len(s[0]), 6), d[1], s[1])
            if a[0] != a[1]:
                lost, gained = self.vals(d[0]), self.vals(s[0])
                self.st[a[0]] = [list(s[0]), True]
        elif op in ("massign", "swap"):
            d, s = self.need(a[0]), self.need(a[1])
            self.key += (a[0] == a[1], min(len(d[0]), 6), min(len(s[0]), 6), d[1], s[1])
            self.st[a[0]], self.st[a[1]] = s, d
        elif op in ("resize", "resizev", "resizeself", "resizefrom"):
            o = self.need(a[0])
            l, n = o[0], a[1]
            if op == "resize":
                f = dfl
            elif op == "resizev":
                f = a[2]
            elif op == "resizefrom":
                # dst.resize(n, src[i]): the fill value is an element of ANOTHER array (whose block may be a neighbour)
                sl = self.need(a[2])[0]
                if a[2] == a[0] or a[3] >= len(sl) or sl[a[3]] is None:
                    raise Invalid()
                f = sl[a[3]]
                self.key += (min(n, 40) // 8,)
            else:
                if a[2] >= len(l) or l[a[2]] is None:
                    raise Invalid()
                f = l[a[2]]
                self.key += (a[2] < n,)
            lost = self.vals(l[n:])
            new = l[:n] + [f] * (n - len(l))
            gained = self.vals([f] * (n - len(l)))
            self.key += ((n > len(l)) - (n < len(l)), n == 0, len(l) == 0, o[1], min(abs(n - len(l)), 3))
            # realloc(p, 0) frees and returns null; realloc(nullptr, n) is malloc(n), also for n == 0
            self.st[a[0]] = [new, n != 0 or not o[1]]
        elif op == "set":
            o = self.need(a[0])
            if a[1] >= len(o[0]):
                raise Invalid()
            self.key += (o[0][a[1]] is None, a[1] == 0, a[1] == len(o[0]) - 1)
            lost, gained = self.vals([o[0][a[1]]]), [a[2]]
            o[0][a[1]] = a[2]
        elif op == "get":
            o = self.need(a[0])
            if a[1] >= len(o[0]) or o[0][a[1]] is None:
                raise Invalid()
            res = "v=%d" % o[0][a[1]]
        elif op == "iter":
            o = self.need(a[0])
            if None in o[0]:
                raise Invalid()
            res = "l=" + " ".join(map(str, o[0]))
            self.key += (min(len(o[0]), 6),)
        elif op == "len":
            res = "n=%d" % len(self.need(a[0])[0])
        elif op in ("front", "back"):
            o = self.need(a[0])
            if not o[0] or o[0][0 if op == "front" else -1] is None:
                raise Invalid()
            res = "v=%d" % o[0][0 if op == "front" else -1]
        elif op == "drop":
            o = self.need(a[0])
            lost = self.vals(o[0])
            self.st[a[0]] = None
            self.key += (min(len(o[0]), 6), o[1])
        else:
            raise Invalid()
        return res + " | " + (delta(lost, gained) if self.cls else "d:?")


def expected(case, keys=None):
    r = Ref()
    out = []
    for l in case:
        out.append(r.step(l))
        if keys is not None:
            keys.append(r.key)
    return out


def valid(case):
    try:
        if not case or not case[0].startswith("arr cfg "):
            return False
        expected(case)
        return True
    except (Invalid, ValueError, IndexError):
        return False


def canon(exp, out):
    """compare only what the property talks about: an indeterminate element (`?` in the oracle) matches anything"""
    res = []
    for e, o in zip(exp, out):
        if e.startswith("l=") and " | " not in e and "?" in e and o.startswith("l="):
            et, ot = e[2:].split(), o[2:].split()
            if len(et) == len(ot):
                o = "l=" + " ".join("?" if x == "?" else y for x, y in zip(et, ot))
        res.append(o)
    return res + list(out[len(exp):])


def project(cls, line):
    """without a lifetime-observable element type only results are compared (and the live-set / owned-block queries are skipped)"""
    if cls:
        return line
    if line.startswith("live="):
        return "live=<not observable>"
    return line.split(" | ")[0]


# ------------------------------------------------------------------ generators

def ctor_lines(idx, maxn=3):
    res = ["arr dflt %d" % idx]
    for n in range(maxn + 1):
        res.append("arr size %d %d" % (idx, n))
        res.append("arr fill %d %d 7" % (idx, n))
        res.append("arr init %d %s" % (idx, " ".join(str(11 + k) for k in range(n))))
        res.append("arr ptr %d %d %s" % (idx, n, " ".join(str(21 + k) for k in range(n))))
        res.append("arr ptr %d %d %s" % (idx, n, " ".join(str(21 + k) for k in range(n + 2))))
    return [l.strip() for l in res]


def observe(r):
    """end of scope: look at everything, destroy everything, nothing may stay alive or allocated"""
    tail = []
    for i, o in enumerate(r.st):
        if o is not None:
            tail.append("arr len %d" % i)
            tail.append(("arr peek %d" if None in o[0] else "arr iter %d") % i)
    for i, o in enumerate(r.st):
        if o is not None:
            tail.append("arr drop %d" % i)
    return tail + ["arr live", "arr heap"]


def desugar(case):
    """for the Lean driver: `resizefrom d n s i` is `resizev d n <the value of s[i] at that point>` (a call by const reference
    to an element that is not part of the receiver IS a call with that value)"""
    if not any(" resizefrom " in l for l in case):
        return case
    r = Ref()
    out = []
    for l in case:
        t = l.split()
        if t[1] == "resizefrom":
            v = r.need(int(t[4]))[0][int(t[5])]
            l2 = "arr resizev %s %s %d" % (t[2], t[3], v)
            out.append(l2)
        else:
            out.append(l)
        r.step(l)
    return out


def neighbour_cases(cls):
    """many small arrays allocated back to back, then one of them grown far beyond the distance to its neighbours with a
    neighbour's element as the fill value (an implementation that classifies `value` by ADDRESS RANGE must not mistake it)"""
    cases = []
    for k, n in ((4, 64), (2, 40), (1, 24), (4, 300)):
        base = ["arr cfg %d 8" % cls] + ["arr fill %d %d %d" % (i, k, 20 + i) for i in range(8)]
        for d in range(8):
            for s_ in (d - 1, d + 1, (d + 3) % 8):
                if 0 <= s_ < 8 and s_ != d:
                    cases.append(close(base + ["arr resizefrom %d %d %d %d" % (d, n, s_, k - 1), "arr iter %d" % d]))
    return cases


def wide_cases(cls):
    """sizes around 2^8 and (non-class elements) 2^12, 2^16: a size or index kept in a narrow integer type shows here"""
    cases = []
    sizes = [255, 256, 257, 300] + ([4097, 65537] if not cls else [])
    for n in sizes:
        base = ["arr cfg %d 3" % cls, "arr fill 0 %d 7" % n, "arr set 0 %d 9" % (n - 1), "arr set 0 0 8"]
        cases.append(close(base + ["arr len 0", "arr back 0", "arr front 0", "arr get 0 %d" % (n - 1), "arr copy 1 0", "arr set 1 %d 11" % (n - 1),
                                   "arr get 0 %d" % (n - 1), "arr resize 0 %d" % (n + 1), "arr get 0 %d" % (n - 1), "arr resizev 0 %d 5" % (n + 3),
                                   "arr get 0 %d" % (n + 2), "arr resize 0 %d" % (n - 1), "arr back 0", "arr mctor 2 1", "arr back 2", "arr swap 0 2", "arr back 0"]))
        cases.append(close(["arr cfg %d 2" % cls, "arr init 0 1 2 3", "arr resizeself 0 %d 1" % n, "arr back 0", "arr len 0", "arr resize 0 2", "arr iter 0"]))
    return cases


def close(case):
    r = Ref()
    for l in case:
        r.step(l)
    return case + observe(r)


def single_ops(size):
    ops = ["arr copy 1 0", "arr mctor 1 0", "arr cassign 0 0", "arr massign 0 0", "arr swap 0 0", "arr drop 0", "arr len 0"]
    for n in range(0, size + 3):
        ops += ["arr resize 0 %d" % n, "arr resizev 0 %d 9" % n]
        ops += ["arr resizeself 0 %d %d" % (n, i) for i in range(size)]
    ops += ["arr set 0 %d 8" % i for i in range(size)] + ["arr get 0 %d" % i for i in range(size)]
    ops += ["arr front 0", "arr back 0", "arr iter 0", "arr peek 0"]
    return ops


def two_var_ops():
    return ["arr cassign 1 0", "arr cassign 0 1", "arr massign 1 0", "arr swap 0 1", "arr alias 0 1"]


def gen_systematic(cls, depth):
    """every construction path x length 0..3, then every single op (depth 1) or every pair (depth 2),
    and every pair of constructed variables x every two-variable op, each followed by the full observation"""
    cases = []
    cfg = "arr cfg %d 3" % cls
    for c in ctor_lines(0):
        base = [cfg, c]
        if not valid(base):
            continue
        size = len(Ref_after(base).st[0][0])
        cases.append(close(base))
        for o1 in single_ops(size):
            if not valid(base + [o1]):
                continue
            cases.append(close(base + [o1, "arr heap"]))
            if depth >= 2:
                r = Ref_after(base + [o1])
                if r.st[0] is None:
                    continue
                for o2 in single_ops(len(r.st[0][0])):
                    if o2.split()[1] in ("len", "get", "front", "back", "iter", "peek"):
                        continue
                    if valid(base + [o1, o2]):
                        cases.append(close(base + [o1, o2]))
        for c2 in ["arr dflt 1", "arr size 1 0", "arr init 1 31 32", "arr fill 1 1 33"]:
            for o in two_var_ops():
                for post in ([], ["arr set 0 0 5"], ["arr resize 1 1"], ["arr drop 0"], ["arr drop 1"]):
                    cand = base + [c2, o] + post
                    if valid(cand):
                        cases.append(close(cand))
    return cases


def Ref_after(case):
    r = Ref()
    for l in case:
        r.step(l)
    return r


def gen_random_case(rng, cls, maxlen, maxval=240):
    r = Ref()
    nv = 1 + rng.below(3)
    case = []
    counter = [rng.below(40)]

    def val():
        if rng.chance(1, 6):
            return rng.below(8)                  # repeated small values, incl. the default 0
        counter[0] = counter[0] % (maxval - 10) + 1
        return counter[0] + 8

    def emit(line):
        try:
            saved = (r.cls, [None if o is None else [list(o[0]), o[1]] for o in r.st])
            r.step(line)
        except Invalid:
            r.cls, r.st = saved
            # identity of shared list objects after mctor/swap is re-established by the copy above
            return False
        case.append(line)
        return True

    emit("arr cfg %d %d" % (cls, nv))

    def construct(i):
        k = rng.below(10)
        n = rng.pick([0, 0, 1, 1, 2, 3, 4, 5, 1 + rng.below(9)])
        if k < 2:
            emit("arr ptr %d %d %s" % (i, n, " ".join(str(val()) for _ in range(n + rng.below(3)))))
        elif k < 4:
            emit("arr init %d %s" % (i, " ".join(str(val()) for _ in range(min(n, 5)))))
        elif k < 6:
            emit("arr size %d %d" % (i, n))
        elif k < 8:
            emit("arr fill %d %d %d" % (i, n, val()))
        elif k < 9:
            emit("arr dflt %d" % i)
        else:
            live = [j for j, o in enumerate(r.st) if o is not None]
            if live:
                emit("arr %s %d %d" % (rng.pick(["copy", "copy", "mctor"]), i, rng.pick(live)))
            else:
                emit("arr dflt %d" % i)

    construct(0)
    length = 3 + rng.below(maxlen)
    guard = 0
    while len(case) < length and guard < 10 * maxlen:
        guard += 1
        i = rng.below(nv)
        if r.st[i] is None:
            construct(i)
            continue
        l = r.st[i][0]
        live = [j for j, o in enumerate(r.st) if o is not None]
        j = rng.pick(live)
        k = rng.below(100)
        if k < 22:
            n = rng.pick([0, len(l), len(l) + 1, max(0, len(l) - 1), len(l) + 2, max(0, len(l) - 2), 1, rng.below(10)])
            kind = rng.below(3)
            if kind == 0:
                emit("arr resize %d %d" % (i, n))
            elif kind == 1:
                emit("arr resizev %d %d %d" % (i, n, val()))
            else:
                init = [x for x, v in enumerate(l) if v is not None]
                if init and rng.chance(2, 3):
                    emit("arr resizeself %d %d %d" % (i, n, rng.pick(init)))
                elif j != i:
                    src = [x for x, v in enumerate(r.st[j][0]) if v is not None]
                    if src:
                        emit("arr resizefrom %d %d %d %d" % (i, rng.pick([n, n + 16, 24 + rng.below(60)]), j, rng.pick(src)))
        elif k < 36:
            if l:
                emit("arr set %d %d %d" % (i, rng.below(len(l)), val()))
        elif k < 46:
            init = [x for x, v in enumerate(l) if v is not None]
            if init:
                emit("arr get %d %d" % (i, rng.pick(init)))
        elif k < 51:
            emit(("arr peek %d" if None in l else "arr iter %d") % i)
        elif k < 54:
            st, cmds = iterspec.gen(rng, l)
            emit("arr it %d %d %s" % (i, st, " ".join(cmds)))
        elif k < 58:
            emit("arr %s %d" % (rng.pick(["len", "front", "back"]), i))
        elif k < 66:
            emit("arr cassign %d %d" % (i, j))
        elif k < 73:
            emit("arr massign %d %d" % (i, j))
        elif k < 80:
            emit("arr swap %d %d" % (i, j))
        elif k < 84:
            if i != j:
                emit("arr alias %d %d" % (i, j))
        elif k < 92:
            free = [x for x, o in enumerate(r.st) if o is None]
            if free:
                emit("arr %s %d %d" % (rng.pick(["copy", "copy", "mctor"]), rng.pick(free), i))
        else:
            emit("arr drop %d" % i)
    return case + observe(r)


def gen_cases(rng, cls, tier):
    cases = gen_systematic(cls, 1 if tier == "quick" else 2) + neighbour_cases(cls) + wide_cases(cls)
    n = 2500 if tier == "quick" else 40000
    cases += [gen_random_case(rng, cls, 40 if tier == "quick" else 70) for _ in range(n)]
    return cases


# ------------------------------------------------------------------ the tie

def build(elem):
    cls, flags = ELEMS[elem]
    # memcpy(dst, nullptr, 0) in the copy paths of an empty non-class Array is formally UB (nonnull attribute) but
    # accesses nothing; C14 speaks about accesses leaving the allocation, so this UBSan check is switched off
    # (recorded in DESIGN.md as an observation outside the statement, draft repair kept in repairs/F8c.patch)
    return lib.build_harness("arr_" + elem, [HARNESS], extra_flags=list(flags) + ["-fno-sanitize=nonnull-attribute"], deps=DEPS)


MAX_ABORTS = 60
CHUNK = 150


def run_binary(binary, lines, env_extra):
    import os
    import subprocess
    env = dict(os.environ)
    env.update(lib.ASAN_ENV)
    env.update(env_extra)
    try:
        p = subprocess.run([binary], input="\n".join(lines) + "\n", stdout=subprocess.PIPE, stderr=subprocess.PIPE, text=True, timeout=600, env=env)
    except subprocess.TimeoutExpired:
        return [], -1, "timeout"
    out = p.stdout.split("\n")
    if out and out[-1] == "":
        out.pop()
    return out, p.returncode, p.stderr


def summarize(err):
    """the sanitizer's headline + the innermost frame inside Array.h"""
    import re
    head = ""
    for line in err.split("\n"):
        if "ERROR: AddressSanitizer" in line or "runtime error" in line or "LeakSanitizer" in line:
            head = re.sub(r"==\d+==", "", line).strip()
            head = re.sub(r" on address .*| at pc .*", "", head)
            break
    m = re.search(r"(Array\.h:\d+)", err[err.find(head[:20]) if head else 0:])
    where = " @" + m.group(1) if m and m.group(1) not in head else ""
    return (head + where)[:300] if head else (err.strip().split("\n")[-1][:200] if err.strip() else "")


def run_impl(binary, cases, symbolize=False):
    """like seqtie.run_stream, but in chunks (a sanitizer abort costs the re-run of one chunk only) and with a cap on the
    number of aborted cases: beyond it the remaining cases are reported as skipped, the violation is established anyway"""
    results = [None] * len(cases)
    env = {"ASAN_OPTIONS": lib.ASAN_ENV["ASAN_OPTIONS"] + ("" if symbolize else ":symbolize=0")}
    aborts = 0
    start = 0
    end = 0
    while start < len(cases):
        if aborts >= MAX_ABORTS:
            for k in range(start, len(cases)):
                results[k] = ["!SKIPPED"]
            break
        end = max(end, min(len(cases), start + CHUNK))
        lines, bounds = [], []
        for c in cases[start:end]:
            lines.append(RESET)
            bounds.append((len(lines), len(lines) + len(c)))
            lines.extend(c)
        out, rc, err = run_binary(binary, lines, env)
        done = 0
        for k, (a, b) in enumerate(bounds):
            if b <= len(out):
                results[start + k] = out[a:b]
                done += 1
            else:
                part = out[a:] if a <= len(out) else []
                results[start + k] = part + ["!ABORT rc=%d %s" % (rc, summarize(err))]
                done += 1
                aborts += 1
                break
        start += done
        if start >= end:
            end = 0
    return results


def differs(cls, exp, out):
    return seqtie.first_diff([project(cls, x) for x in exp], [project(cls, x) for x in canon(exp, out)])


def run_tie(prop, spec, tier, seed):
    res = TieResult()
    rng = lib.SplitMix(seed).fork("array")
    bins = {}
    for elem in ELEMS:
        b, out = build(elem)
        if b is None:
            res.failures.append(Failure("infra", "harness (%s) does not compile against the working tree" % elem, replay={"compiler": out[-3000:]}))
            return res
        bins[elem] = b

    corpus = [c for c in lib.load_corpus("array") if valid(c)]
    sets = {1: [c for c in corpus if c[0].split()[2] == "1"] + gen_cases(rng.fork("cls1"), 1, tier),
            0: [c for c in corpus if c[0].split()[2] == "0"] + gen_cases(rng.fork("cls0"), 0, tier)}

    distinct, opcount = set(), {}
    exp = {}
    for cls, cases in sets.items():
        exp[cls] = []
        for c in cases:
            keys = []
            exp[cls].append(expected(c, keys))
            for l, k in zip(c, keys):
                op = l.split()[1]
                opcount[op] = opcount.get(op, 0) + 1
                if op not in ("cfg", "live", "heap", "len", "get", "front", "back", "peek", "alias"):
                    distinct.add(k)
    ncases = sum(len(v) for v in sets.values())
    res.evaluations = len(sets[1]) + 2 * len(sets[0])
    res.distinct = len(distinct)
    res.rule = ("cases = corpus (%d) + systematic (every construction path x length 0..3 x every single op%s, every two-variable op over every pair of "
                "construction paths) + seeded random valid histories over 1-3 variables; class cases run on Array<Tracked>, non-class cases on Array<long> "
                "and Array<unsigned char>; distinct_nontrivial = distinct (mutating op, element kind, exact sizes 0..5 / 6+ of the operands, grow/shrink/same, "
                "to-zero / from-empty, holds-storage flags, self-aliasing, uninitialised-source) tuples computed by the oracle"
                % (len(corpus), "" if tier == "quick" else " and every pair of ops"))
    res.dist = {"ops": opcount, "cases": ncases, "total_ops": sum(opcount.values()),
                "class_cases": len(sets[1]), "nonclass_cases": len(sets[0])}
    res.samples = [sets[1][len(sets[1]) // 2], sets[1][-1], sets[0][-1]]

    def report_impl(elem, cls, cases, exps, outs):
        nfail = 0
        seen, kinds = set(), set()
        b = bins[elem]
        pcls = 0 if elem in VALUE_ONLY else cls
        for c, e, o in zip(cases, exps, outs):
            if o == ["!SKIPPED"]:
                res.extra["skipped_after_%d_aborts_%s" % (MAX_ABORTS, elem)] = res.extra.get("skipped_after_%d_aborts_%s" % (MAX_ABORTS, elem), 0) + 1
                continue
            d = differs(pcls, e, o)
            if d is None:
                continue
            nfail += 1
            # shrink one failing case per (operation at the first difference, kind of difference), at most 5 per element type
            kind = (c[min(d[0], len(c) - 1)].split()[1], d[2].split()[0] if d[2].startswith("!") else "value")
            if kind in kinds or len(kinds) >= 5:
                continue
            kinds.add(kind)

            def fails(cand):
                if not valid(cand):
                    return False
                return differs(pcls, expected(cand), run_impl(b, [cand])[0]) is not None
            small = seqtie.ddmin(c, fails)
            sig = ";".join(small)
            if sig in seen:
                continue
            seen.add(sig)
            ee = expected(small)
            oo = run_impl(b, [small], symbolize=True)[0]
            dd = differs(pcls, ee, oo) or d
            res.failures.append(Failure(
                "violation",
                "Array<%s> differs from the list specification at op %d (%s): expected %r, got %r" %
                (elem, dd[0], small[dd[0]] if dd[0] < len(small) else "?", dd[1], dd[2]),
                signature=sig,
                replay={"component": "array", "element": elem, "ops": small, "expected": ee, "got": oo}))
        return nfail

    for elem, (cls, _) in ELEMS.items():
        outs = run_impl(bins[elem], sets[cls])
        res.extra["impl_%s_mismatches" % elem] = report_impl(elem, cls, sets[cls], exp[cls], outs)

    # trees: Array<Nest> where every element owns an Array<Nest>; assignments whose right-hand side is owned by an element of
    # the left-hand side, compared inside the program with the same operations on std::vector (lifetime-tracked ids, ASan)
    nb, nout = lib.build_harness("arr_nest", ["harness/array/arr_nest.cpp"], extra_flags=["-fno-sanitize=nonnull-attribute"], deps=DEPS)
    if nb is None:
        res.failures.append(Failure("infra", "harness arr_nest does not compile against the working tree", replay={"compiler": (nout or "")[-3000:]}))
    else:
        out, rc, err = run_binary(nb, [], {"ASAN_OPTIONS": lib.ASAN_ENV["ASAN_OPTIONS"]})
        bad = [l for l in out if l.startswith("MISMATCH")]
        done = [l for l in out if l.startswith("done ")]
        res.extra["nested_array_scenarios"] = len([l for l in out if l.startswith("ok ")])
        if bad or rc != 0 or not done:
            last = out[-1] if out else ""
            what = bad[0] if bad else "crashed after `%s`: %s" % (last, summarize(err))
            res.failures.append(Failure("violation", "Array<Nest> (elements owning Arrays of the same type), assignment from an Array owned by an element of the target: %s" % what,
                                        signature="arr_nest|" + (bad[0] if bad else last),
                                        replay={"component": "array", "program": "harness/array/arr_nest.cpp", "output": out[-20:], "stderr": err[-3000:]}))

    # Array<byte> as File::read() uses it (src/File.cpp is one of C14's anchors): a text-mode read of a file that reports a smaller
    # size than it has (procfs) and of a regular file must stay inside the Array it allocates and return the content
    from components import pathfile as _pf
    fb, fout = _pf.build("C17")
    if fb is None:
        res.failures.append(Failure("infra", "file harness does not compile against the working tree", replay={"compiler": (fout or "")[-3000:]}))
    else:
        flines = ["file reset", "file root @", "file procread"]
        fo, frc, ferr = lib.run_lines(fb, flines)
        res.extra["file_read_probe"] = fo[-1] if fo else ""
        if frc != 0 or fo[-3:] != ["ok", "ok", "b=1"]:
            res.failures.append(Failure("violation", "File::read() (text mode, Array<byte>) on a file longer than its reported size: %s" %
                                        (fo[-1] if fo and frc == 0 else summarize(ferr)),
                                        signature="file procread",
                                        replay={"component": "array", "program": "harness/file/file_harness.cpp", "lines": flines, "output": fo[-5:], "stderr": ferr[-3000:]}))

    nm = 0
    for cls, cases in sets.items():
        # the executable model works on lists: histories with more than 5000 elements are compared oracle <-> code only
        # (the model's theorems hold for every size; the model <-> oracle leg only guards against drift of the two descriptions)
        small = [i for i, c in enumerate(cases) if not any(tok.isdigit() and int(tok) > 5000 for l in c for tok in l.split()[2:4])]
        outs = seqtie.run_stream(None, [desugar(cases[i]) for i in small], RESET, is_driver=True)
        for c, e, o in zip([cases[i] for i in small], [exp[cls][i] for i in small], outs):
            # the model has lifetimes for both element kinds; the oracle states them for class types only
            d = differs(cls, e, o)
            if d is None:
                continue
            nm += 1
            if nm <= 3:
                res.failures.append(Failure("drift", "Lean model disagrees with the list oracle at op %d (%s): expected %r, model %r" %
                                            (d[0], c[d[0]] if d[0] < len(c) else "?", d[1], d[2]),
                                            replay={"correspondence": "array model vs oracle", "ops": c, "expected": e, "model": o}))
    res.extra["model_mismatches"] = nm
    return res


def replay(prop, spec, path):
    data = json.load(open(path))
    ops = data.get("replay", {}).get("ops") or data.get("ops")
    if not ops:
        print(json.dumps(data, indent=1))
        return 0
    elem = data.get("replay", {}).get("element") or ("tracked" if ops[0].split()[2] == "1" else "long")
    cls = ELEMS[elem][0]
    binary, out = build(elem)
    if binary is None:
        print(out[-2000:])
        return 2
    e = expected(ops)
    o = canon(e, run_impl(binary, [ops], symbolize=True)[0])
    m = seqtie.run_stream(None, [desugar(ops)], RESET, is_driver=True)[0]
    bad = False
    for i, l in enumerate(ops):
        ee, oo, mm = e[i], (o[i] if i < len(o) else "<missing>"), (m[i] if i < len(m) else "<missing>")
        flag = "" if project(cls, ee) == project(cls, oo) else "   <-- differs"
        bad = bad or bool(flag)
        print("%-30s oracle: %-22s impl(%s): %-26s model: %s%s" % (l, ee, elem, oo[:120], mm, flag))
    for extra in o[len(ops):]:
        print("%-30s %s" % ("", extra))
    if bad:
        print("VIOLATION property=%s replay=%s" % (prop, path))
    return 1 if bad else 0
