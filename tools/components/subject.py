"""C05 / C10 / C16: tulz::Subject, Subscription, Observer routes and Observable against the Lean model
(lean/Tulz/Model/Subject.lean, Observable.lean) and oracles that state the properties directly."""
import itertools
import json
import threading

import lib
import seqtie
from lib import Failure, TieResult

SUBJ_SRC = "harness/subject/subj_harness.cpp"
OBSV_SRC = "harness/subject/obsv_harness.cpp"
NSIG = 5

COMMON_TB = [
    "modelled, not verified: std::forward_list / std::set / std::function / std::unique_ptr (an observer object is owned by the list that contains it; "
    "a raw Observer* is its subscription id; destruction = leaving both lists)",
    "template argument deduction and copy/move/forward of callback arguments are outside the model: one Lean value stands for the argument pack "
    "(covered by the correspondence over 5 signatures only)",
    "unbounded Nat: wrap-around of the 32-bit subscription counter is not modelled",
    "the model is of the REPAIRED Subject (repairs/F4.patch: removed observers are parked until the outermost notify returns; id re-checked before isValid())",
]

PROPS = {
    "C05": {
        "design_ref": "6.3/C05",
        "technique": "Lean 4 proof over an executable model of Subject/Subscription/Observer (delivery log = filter of subscribed, valid, unmuted observers in order; ids never reused; handle laws; stale handles rejected) for every history and argument value + three-way differential correspondence over 5 argument signatures and 6 observer-construction routes",
        "level_text": "Machine-checked proof that notify's call log is exactly the subscribed, valid, unmuted observers in subscription order with the passed value (ids distinct, so exactly once each), that an id that was unsubscribed or invalidated never appears in the log of any later history, that handles report validity and mute state as the subject holds them, and that unsubscribing a stale or foreign handle throws and leaves the state unchanged — for every finite history and any argument type. Argument passing (copy/move/forward through the templates) is outside the model and covered by the correspondence run over none / by value (int, long std::string) / const reference / two arguments on the real code under ASan.",
        "level_note": "Trusted: Lean kernel; transcription of Subject.h/Subscription.h/Observer.h (repaired code, fix 54bef70); std::forward_list/set/function/unique_ptr as modelled; unbounded Nat (no 32-bit id wrap); null/dangling handle dereferences are preconditions (never generated).",
        "lean_modules": ["Tulz.Props.C05"],
        "theorems": ["Tulz.C05_notify_log", "Tulz.C05_never_again", "Tulz.C05_dead_cases", "Tulz.C05_handle_reports",
                     "Tulz.C05_reject_stale", "Tulz.C05_unsubscribe_ok"],
        "trusted_base": COMMON_TB,
        "assumptions": ["valid histories: mute/unmute/isMuted/getObserver() only on handles for which isValid() is true; handle.unsubscribe() only on handles "
                        "that carry a subject that still exists (null / dangling dereferences are outside the statement); operations that violate this are "
                        "not executed in the model (Res.precond) and never generated",
                        "C05_notify_log is stated for callbacks that only log (script = []); arbitrary callbacks are C10"],
    },
    "C10": {
        "design_ref": "6.3/C10",
        "technique": "Lean 4 proof of memory safety (trace monitor invariant: no touch after free, no double free, no free of an observer whose callback is on the stack) and round semantics for callbacks running arbitrary action scripts with bounded nesting + exhaustive small-script and random differential correspondence with lifetime-tracked observers under ASan",
        "level_text": "Machine-checked proof that for every set of callback scripts (subscribe, unsubscribe self/earlier/later, mute, invalidate, nested notify up to any fuel) one outermost notify and every history of operations keeps the event trace safe (no dereference of a destroyed observer, no double destruction, no destruction of an observer while its callback is executing), that the round is one turn per snapshot entry (skipped if no longer active, not called if muted/invalid at its turn, observers subscribed during the round are not in the snapshot and are in the next), and that well-formedness is preserved at top level and when re-entered. Tied to Subject.h by interpreting the same scripts in real callbacks: exhaustive over small observer/script configurations plus random ones, with guard objects reporting FREE_WHILE_RUNNING / CALL_AFTER_FREE and ASan.",
        "level_note": "Trusted: as C05; callbacks act on their own subject; nesting bounded by a fuel enforced identically in the harness; scripts of observers subscribed inside callbacks come from a script library indexed by Nat.",
        "lean_modules": ["Tulz.Props.C10"],
        "theorems": ["Tulz.C10_memory_safe", "Tulz.C10_memory_safe_history", "Tulz.C10_round_semantics", "Tulz.C10_notify_is_round",
                     "Tulz.C10_new_not_in_round", "Tulz.C10_wf_preserved", "Tulz.C10_wf_nested", "Tulz.C10_wf_history"],
        "trusted_base": COMMON_TB,
        "assumptions": ["callback actions that go through a handle are guarded the way a careful client guards them (subject.isSubscriptionValid(h) before "
                        "mute/unmute/getObserver(); std::invalid_argument of unsubscribe is caught inside the callback)",
                        "nested notify is bounded by a fuel that the harness enforces identically; callbacks act on their own subject"],
    },
    "C16": {
        "design_ref": "6.3/C16",
        "technique": "Lean 4 proof parametric in the value type, its equality and operator functions (assign/apply/compound/inc-dec laws, recorder corollary over every history) + three-way differential correspondence on Observable<long>, Observable<double, tolerance> over dyadic rationals and Observable<std::string>",
        "level_text": "Machine-checked proof, for every value type, equality and operator, that an eq-equal assignment changes nothing and notifies nobody, a changing assignment stores the value and notifies each subscriber once with it, apply/compound operators notify iff the value changed (w.r.t. eq) with the post-operation value, ++/-- always notify with the new value (prefix returns new, postfix old), and that with a lawful == every subscriber that records notifications holds value() after any history of operations and subscribe/unsubscribe. Tied to Observable.h on three instantiations (long without overflow, double with a tolerance comparator on exactly representable values compared as scaled integers, std::string).",
        "level_note": "Trusted: as C05; the value type's arithmetic is a parameter (signed overflow and division by zero are UB in C++ and excluded from the tie).",
        "lean_modules": ["Tulz.Props.C16"],
        "theorems": ["Tulz.C16_assign", "Tulz.C16_apply", "Tulz.C16_opAssign", "Tulz.C16_incdec", "Tulz.C16_recorder", "Tulz.C16_reachable"],
        "trusted_base": COMMON_TB + ["arithmetic of the value type is a parameter of the theorems; the correspondence uses long (no overflow, no division by zero), "
                                     "binary64 on dyadic rationals where every result is exact, std::string"],
        "assumptions": ["subscribers are plain recorders (script = []), none muted or invalidated", "signed overflow / division by zero (UB in C++) are never generated"],
    },
}


class Invalid(Exception):
    pass


class TooBig(Invalid):
    """a round whose log explodes (nested notify x growing observer list): not generated"""


MAX_LOG = 400


# ====================================================================== scripts

def parse_script(tok):
    if tok == "-":
        return []
    res = []
    for t in tok.split(","):
        if t in ("ms", "is", "nt"):
            res.append((t,))
        elif t[:2] == "nx":
            res.append(("nx", int(t[2:])))
        elif t[:2] in ("us", "uh", "mu", "um", "iv"):
            res.append((t[:2], int(t[2:])))
        elif t[0] == "s":
            k, m = t[1:].split("m")
            res.append(("s", int(k), m == "1"))
        else:
            raise ValueError(tok)
    return res


# ====================================================================== oracle for Subject (C05, C10)

class RObs:
    __slots__ = ("id", "valid", "muted", "script")

    def __init__(self, i, muted, script):
        self.id, self.valid, self.muted, self.script = i, True, muted, script


class RSubj:
    def __init__(self, sid):
        self.sid = sid
        self.obs = []          # subscribed observers, subscription order
        self.counter = 0
        self.alive = True
        self.everything = []   # every observer ever subscribed and not yet destroyed


class SubjRef:
    """direct statement of C05/C10: who is called, in which order, with what; what handles report; who is destroyed"""

    def __init__(self):
        self.subj = {}
        self.handles = []      # [id, sid, obsref] or [None, None, None]
        self.wrapped = set()
        self.lib = {}
        self.log = []
        self.removed = []      # observers removed during the current top-level op (destroyed by its end)

    # ---- helpers
    def S(self, sid):
        s = self.subj.get(sid)
        if s is None or not s.alive:
            raise Invalid()
        return s

    def H(self, hi):
        if hi >= len(self.handles):
            raise Invalid()
        return self.handles[hi]

    @staticmethod
    def find(s, i):
        for o in s.obs:
            if o.id == i:
                return o
        return None

    def valid_in(self, s, h):
        return h[1] == s.sid and h[0] is not None and self.find(s, h[0]) is not None

    def subscribe(self, s, script, m0):
        o = RObs(s.counter, m0, script)
        s.counter += 1
        s.obs.append(o)
        s.everything.append(o)
        self.handles.append([o.id, s.sid, o])
        return o

    def remove(self, s, o):
        s.obs.remove(o)
        self.removed.append(o)

    def unsubscribe(self, s, h):
        """Subject::unsubscribe(handle): False = invalid_argument"""
        if not self.valid_in(s, h):
            return False
        self.remove(s, self.find(s, h[0]))
        h[0] = h[1] = h[2] = None
        return True

    # ---- the round (C10): snapshot at entry; skipped if removed before its turn; called iff valid and unmuted at
    #      its turn; new observers wait for the next round; invalid ones are removed after their turn
    def notify(self, s, fuel, a):
        for o in list(s.obs):
            if o not in s.obs:
                continue
            if o.valid and not o.muted:
                if len(self.log) > MAX_LOG:
                    raise TooBig()
                self.log.append("%d(%s)[" % (o.id, a))
                for act in o.script:
                    self.act(s, o, fuel, a, act)
                self.log.append("]")
            if o in s.obs and not o.valid:
                self.remove(s, o)

    def act(self, s, me, fuel, a, act):
        k = act[0]
        if k == "s":
            self.subscribe(s, self.lib.get(act[1], []), act[2])
        elif k in ("us", "uh"):
            if act[1] >= len(self.handles):
                return
            h = self.handles[act[1]]
            if k == "uh" and h[1] != s.sid:
                return
            if not self.unsubscribe(s, h):
                self.log.append("E")
        elif k in ("mu", "um", "iv"):
            if act[1] >= len(self.handles):
                return
            h = self.handles[act[1]]
            if not self.valid_in(s, h):
                return
            o = self.find(s, h[0])
            if k == "mu":
                o.muted = True
            elif k == "um":
                o.muted = False
            else:
                o.valid = False
        elif k == "ms":
            me.muted = True
        elif k == "is":
            me.valid = False
        elif k == "nt":
            if fuel > 0:
                self.notify(s, fuel - 1, a)
        elif k == "nx":
            # the callback notifies ANOTHER Subject of the same signature with the values it received: a complete round of
            # that Subject, nested inside this one (the two Subjects share nothing)
            other = self.subj.get(act[1])
            if fuel > 0 and other is not None and other.alive:
                self.notify(other, fuel - 1, a)

    def freed(self):
        ids = sorted(o.id for o in self.removed)
        self.removed = []
        return "freed=" + " ".join(map(str, ids))

    # ---- one protocol line
    def step(self, line):
        t = line.split()
        assert t[0] == "subj"
        op, a = t[1], t[2:]
        if op in ("sig",):
            return "ok"
        if op == "lib":
            self.lib[int(a[0])] = parse_script(a[1])
            return "ok"
        if op == "new":
            if int(a[0]) in self.subj:
                raise Invalid()
            self.subj[int(a[0])] = RSubj(int(a[0]))
            return "ok"
        if op == "sub":
            s = self.S(int(a[0]))
            if a[2] == "1" and int(a[1]) > 1:
                raise Invalid()
            o = self.subscribe(s, parse_script(a[3]), a[2] == "1")
            return "h=%d id=%d" % (len(self.handles) - 1, o.id)
        if op == "unsubS":
            s, hi = self.S(int(a[0])), int(a[1])
            h = self.H(hi)
            if hi in self.wrapped:
                raise Invalid()
            if not self.unsubscribe(s, h):
                return "!INVALID_ARG"
            return "ok | " + self.freed()
        if op == "notify":
            s = self.S(int(a[0]))
            self.log = []
            self.notify(s, int(a[1]), a[2])
            return "log=" + " ".join(self.log) + " | " + self.freed()
        if op == "hmove":
            d, s_ = int(a[0]), int(a[1])
            hd, hs = self.H(d), self.H(s_)
            if d in self.wrapped or s_ in self.wrapped:
                raise Invalid()
            if d != s_:
                self.handles[d], self.handles[s_] = hs, hd
            return "ok"
        if op == "live":
            l = sorted((s.sid, o.id) for s in self.subj.values() if s.alive for o in s.obs)
            return "live=" + " ".join("%d:%d" % p for p in l)
        if op == "hassubs":
            return "b=1" if self.S(int(a[0])).obs else "b=0"
        if op == "drop":
            s = self.S(int(a[0]))
            self.removed = list(s.obs)
            s.obs = []
            s.alive = False
            return "ok | " + self.freed()
        hi = int(a[0])
        h = self.H(hi)
        if op == "uwrap":
            if hi in self.wrapped:
                raise Invalid()
            self.wrapped.add(hi)
            return "ok"
        if op == "hinfo":
            if hi in self.wrapped:
                raise Invalid()
            return "id=%s s=%s o=%d" % ("-" if h[0] is None else h[0], "-" if h[1] is None else h[1], 0 if h[2] is None else 1)
        if op == "hmovenew":
            if hi in self.wrapped:
                raise Invalid()
            self.handles.append(list(h))
            h[0] = h[1] = h[2] = None
            return "ok"
        if op == "isvalid":
            if h[1] is None:
                return "b=0"
            s = self.S(h[1])
            return "b=1" if self.valid_in(s, h) else "b=0"
        if op == "unsubH":
            if h[1] is None:
                raise Invalid()          # null subject dereference: outside the statement
            s = self.S(h[1])
            if not self.unsubscribe(s, h):
                return "!INVALID_ARG"
            return "ok | " + self.freed()
        if op in ("mute", "unmute", "inval", "ismuted"):
            if h[1] is None:
                raise Invalid()
            s = self.S(h[1])
            if not self.valid_in(s, h):
                raise Invalid()          # m_observer may dangle: outside the statement
            o = self.find(s, h[0])
            if op == "inval" and hi in self.wrapped:
                raise Invalid()
            if op == "mute":
                o.muted = True
            elif op == "unmute":
                o.muted = False
            elif op == "inval":
                o.valid = False
            else:
                return "b=1" if o.muted else "b=0"
            return "ok | freed="
        raise Invalid()


def subj_expected(case):
    r = SubjRef()
    return [r.step(l) for l in case]


def subj_valid(case):
    try:
        subj_expected(case)
        return True
    except (Invalid, ValueError, IndexError):
        return False


# ====================================================================== generators for Subject

LETTERS = "abcdefghijklmnopqrstuvwxyz"


def gen_arg(rng, sig):
    def s():
        n = rng.pick([1, 3, 8, 15, 16, 24, 40, 70])      # around and beyond the small-string buffer
        return "".join(LETTERS[rng.below(26)] for _ in range(n))
    if sig == 0:
        return "-"
    if sig == 1:
        return str(rng.below(2001) - 1000)
    if sig in (2, 3):
        return s()
    return "%d,%s" % (rng.below(2001) - 1000, s())


class CaseBuilder:
    def __init__(self, sig):
        self.ref = SubjRef()
        self.case = []
        self.emit("subj sig %d" % sig)

    def emit(self, line):
        try:
            # an invalid op raises before any mutation, except TooBig inside notify: rebuild the oracle state then
            self.ref.step(line)
        except TooBig:
            self.ref = SubjRef()
            for l in self.case:
                self.ref.step(l)
            return False
        except Invalid:
            return False
        self.case.append(line)
        return True


def gen_c05_case(rng, sig, maxlen):
    b = CaseBuilder(sig)
    nsub = 1 if rng.chance(2, 3) else 2 + rng.below(2)
    for s in range(1, nsub + 1):
        b.emit("subj new %d" % s)
    allow_wrap = rng.chance(1, 4)
    length = 6 + rng.below(maxlen)
    style = rng.below(4)        # 0 balanced, 1 many observers, 2 churn, 3 handle games
    while len(b.case) < length:
        ref = b.ref
        sids = [s for s in ref.subj if ref.subj[s].alive]
        if not sids:
            break
        sid = sids[0] if rng.chance(3, 4) else rng.pick(sids)
        nh = len(ref.handles)
        k = rng.below(100)
        if nh == 0 or k < [22, 34, 22, 18][style]:
            route = rng.below(6)
            m0 = 1 if route < 2 and rng.chance(1, 5) else 0
            script = "is" if rng.chance(1, 8) else ("ms" if rng.chance(1, 30) else "-")
            b.emit("subj sub %d %d %d %s" % (sid, route, m0, script))
            continue
        hi = rng.below(nh)
        if k < 50:
            b.emit("subj notify %d %d %s" % (sid, 0, gen_arg(rng, sig)))
        elif k < 58:
            b.emit("subj unsubH %d" % hi)
        elif k < 66:
            b.emit("subj unsubS %d %d" % (rng.pick(sids), hi))     # any handle: stale, cleared, foreign
        elif k < 74:
            b.emit("subj %s %d" % (rng.pick(["mute", "unmute", "mute"]), hi))
        elif k < 79:
            b.emit("subj inval %d" % hi)
        elif k < 85:
            b.emit("subj %s %d" % (rng.pick(["isvalid", "ismuted", "hinfo"]), hi))
        elif k < [90, 88, 88, 97][style]:
            if rng.chance(1, 3):
                b.emit("subj hmovenew %d" % hi)
            else:
                b.emit("subj hmove %d %d" % (hi, rng.below(nh)))
        elif k < 93:
            b.emit("subj hassubs %d" % sid)
        elif k < 95:
            if allow_wrap:
                b.emit("subj uwrap %d" % hi)
        elif k < 96:
            if len(sids) > 1:
                b.emit("subj drop %d" % sids[-1])
        else:
            b.emit("subj notify %d %d %s" % (sid, 0, gen_arg(rng, sig)))
    finish_case(b)
    return b.case


def finish_case(b):
    ref = b.ref
    for hi in range(len(ref.handles)):
        b.emit("subj isvalid %d" % hi)
        b.emit("subj ismuted %d" % hi)
    b.emit("subj live")
    for s in sorted(ref.subj):
        b.emit("subj drop %d" % s)
    b.emit("subj live")


def c10_alphabet(n, nlib):
    acts = ["s%dm0" % k for k in range(nlib)]
    for h in range(n):
        acts += ["us%d" % h, "uh%d" % h, "mu%d" % h, "um%d" % h, "iv%d" % h]
    acts += ["ms", "is", "nt"]
    return acts


def scripts_upto(alpha, maxlen):
    res = ["-"]
    for l in range(1, maxlen + 1):
        for p in itertools.product(alpha, repeat=l):
            res.append(",".join(p))
    return res


C10_LIB = ["subj lib 0 -", "subj lib 1 is", "subj lib 2 us0"]


def c10_case(sig, scripts, fuel, arg, route0, second=True):
    c = ["subj sig %d" % sig] + C10_LIB + ["subj new 1"]
    for i, s in enumerate(scripts):
        c.append("subj sub 1 %d 0 %s" % ((route0 + i) % 6, s))
    c.append("subj notify 1 %d %s" % (fuel, arg))
    if second:
        c.append("subj notify 1 %d %s" % (min(fuel, 1), arg))
    for hi in range(len(scripts)):
        c.append("subj isvalid %d" % hi)
    c += ["subj live", "subj drop 1", "subj live"]
    return c


SIG_ARG = ["-", "7", "abcdefghijklmnopqrstuvwxyz", "zyxwvutsrqponmlkjihgfedcba", "3,abcdefghijklmnopqrstuvwxyz"]


def gen_c10_exhaustive(tier):
    cases = []
    n_idx = [0]

    def add(scripts, fuel):
        sig = n_idx[0] % NSIG
        cases.append(c10_case(sig, scripts, fuel, SIG_ARG[sig], n_idx[0] % 6))
        n_idx[0] += 1

    # one observer: every script of length <= 2 (3 in the thorough tier), every depth 0..2
    a1 = c10_alphabet(1, 3)
    for s in scripts_upto(a1, 3 if tier == "thorough" else 2):
        for fuel in (0, 1, 2):
            add([s], fuel)
    # two observers
    a2 = c10_alphabet(2, 2)
    long2, short2 = scripts_upto(a2, 2), scripts_upto(a2, 1)
    if tier == "thorough":
        for s in long2:
            for t in long2:
                add([s, t], 1)
    else:
        for s in long2:
            for t in short2:
                add([s, t], 1)
                if t != s:
                    add([t, s], 1)
    # three observers: every action on every target (self, earlier, later)
    a3 = c10_alphabet(3, 2)
    short3 = scripts_upto(a3, 1)
    for s in short3:
        for t in short3:
            for u in short3:
                add([s, t, u], 1)
    if tier == "thorough":
        mid3 = scripts_upto(c10_alphabet(3, 1), 2)
        few = ["-", "nt", "uh1", "is"]
        for s in mid3:
            for t in few:
                for u in few:
                    add([s, t, u], 2)
                    add([t, s, u], 2)
                    add([t, u, s], 2)
    return cases


def gen_c10_random(rng, sig, maxobs, maxscript):
    b = CaseBuilder(sig)
    nlib = 1 + rng.below(4)
    nobs = 1 + rng.below(maxobs)
    nslots = nobs + 3

    def rscript(maxl):
        l = rng.below(maxl + 1)
        acts = []
        for _ in range(l):
            k = rng.below(12)
            if k < 2:
                acts.append("s%dm%d" % (rng.below(nlib), 1 if rng.chance(1, 6) else 0))
            elif k < 9:
                acts.append(rng.pick(["us", "uh", "uh", "mu", "um", "iv", "us"]) + str(rng.below(nslots)))
            else:
                acts.append(rng.pick(["ms", "is", "nt", "nt"]))
        return ",".join(acts) if acts else "-"

    for k in range(nlib):
        b.emit("subj lib %d %s" % (k, rscript(2)))
    b.emit("subj new 1")
    if rng.chance(1, 6):
        b.emit("subj new 2")
        b.emit("subj sub 2 %d 0 -" % rng.below(6))      # a foreign handle in the table
    for _ in range(nobs):
        route = rng.below(6)
        b.emit("subj sub 1 %d %d %s" % (route, 1 if route < 2 and rng.chance(1, 8) else 0, rscript(maxscript)))
    rounds = 1 + rng.below(4)
    for _ in range(rounds):
        b.emit("subj notify 1 %d %s" % (rng.below(4), gen_arg(rng, sig)))
        nh = len(b.ref.handles)
        for _ in range(rng.below(3)):
            hi = rng.below(nh)
            k = rng.below(8)
            if k == 0:
                b.emit("subj unsubH %d" % hi)
            elif k == 1:
                b.emit("subj unsubS 1 %d" % hi)
            elif k == 2:
                b.emit("subj %s %d" % (rng.pick(["mute", "unmute"]), hi))
            elif k == 3:
                b.emit("subj inval %d" % hi)
            elif k == 4:
                b.emit("subj hmove %d %d" % (hi, rng.below(nh)))
            elif k == 5:
                b.emit("subj sub 1 %d 0 %s" % (rng.below(6), rscript(maxscript)))
            else:
                b.emit("subj isvalid %d" % hi)
    finish_case(b)
    return b.case


def gen_cross_case(rng, sig):
    """two Subjects of the same signature whose callbacks notify each other (`nx<sid>`): each round of one Subject contains
    complete rounds of the other; whatever one Subject keeps per round must not be shared with the other"""
    b = CaseBuilder(sig)
    b.emit("subj lib 0 -")
    b.emit("subj new 1")
    b.emit("subj new 2")
    n1, n2 = 1 + rng.below(4), 1 + rng.below(4)

    def rscript(other):
        acts = []
        for _ in range(rng.below(3)):
            k = rng.below(10)
            if k < 5:
                acts.append("nx%d" % other)
            elif k < 6:
                acts.append("nt")
            elif k < 7:
                acts.append("s0m0")
            else:
                acts.append(rng.pick(["us", "uh", "mu", "iv"]) + str(rng.below(n1 + n2 + 1)))
        return ",".join(acts) if acts else "-"

    order = [1] * n1 + [2] * n2
    for a in range(len(order) - 1, 0, -1):
        c = rng.below(a + 1)
        order[a], order[c] = order[c], order[a]
    for sid in order:
        b.emit("subj sub %d %d 0 %s" % (sid, rng.below(6), rscript(3 - sid)))
    for _ in range(1 + rng.below(3)):
        b.emit("subj notify %d %d %s" % (1 + rng.below(2), 1 + rng.below(3), gen_arg(rng, sig)))
    finish_case(b)
    return b.case


# ====================================================================== oracle and generator for Observable (C16)

SCALE = 1 << 20
EPS = 1 << 16


def tdiv(a, b):
    q = abs(a) // abs(b)
    return q if (a < 0) == (b < 0) else -q


class ObsvRef:
    """direct statement of C16: notify exactly on change (w.r.t. the Observable's equality) with the new value; ++/-- always"""

    def __init__(self):
        self.kind = None
        self.val = None
        self.subs = []         # ids in subscription order
        self.handles = []
        self.counter = 0
        self.chains = set()    # ids of `chain` subscribers: they assign the value they receive to a second Observable of the same type
        self.mirror = None     # that Observable's value (created by the first `chain` with the primary's INITIAL value)
        self.initial = None

    def eq(self, a, b):
        if self.kind == "dy":
            return abs(a - b) < EPS
        if self.kind == "dc":
            return abs(a - b) < 2 * SCALE
        return a == b

    def show(self, v):
        return "'" + v if self.kind == "str" else str(v)

    def parse(self, t):
        if self.kind == "str":
            if not t.startswith("'"):
                raise Invalid()
            return t[1:]
        return int(t)

    def check(self, v):
        if self.kind == "str":
            if len(v) > 400:
                raise Invalid()
        elif abs(v) >= (1 << 44):
            raise Invalid()        # far away from signed overflow / from leaving the exactly representable range
        return v

    def out(self, ret, notified):
        parts = []
        if notified:
            for i in self.subs:
                parts.append("%d(%s)" % (i, self.show(self.val)))
                if i in self.chains and not self.eq(self.mirror, self.val):
                    # the mirror Observable changes (w.r.t. its own Eq) and notifies its recorder inside this callback
                    self.mirror = self.val
                    parts.append("m(%s)" % self.show(self.val))
        return "ret=%s | val=%s | log=%s" % (ret, self.show(self.val), " ".join(parts))

    def step(self, line):
        t = line.split()
        assert t[0] == "obsv"
        op, a = t[1], t[2:]
        if op == "new":
            self.__init__()
            self.kind = a[0]
            self.val = self.check(self.parse(a[1]))
            self.initial = self.val
            return "ok"
        if self.kind is None:
            raise Invalid()
        if op == "value":
            return "val=" + self.show(self.val)
        if op == "subscribe":
            self.subs.append(self.counter)
            self.handles.append(self.counter)
            self.counter += 1
            return "h=%d id=%d" % (len(self.handles) - 1, self.counter - 1)
        if op == "chain":
            if self.mirror is None:
                self.mirror = self.initial
            self.subs.append(self.counter)
            self.handles.append(self.counter)
            self.chains.add(self.counter)
            self.counter += 1
            return "h=%d id=%d" % (len(self.handles) - 1, self.counter - 1)
        if op == "unsub":
            h = int(a[0])
            if h >= len(self.handles) or self.handles[h] is None:
                raise Invalid()
            self.subs.remove(self.handles[h])
            self.handles[h] = None
            return "ok"
        if op == "assign":
            v = self.check(self.parse(a[0]))
            if self.eq(self.val, v):
                return self.out("-", False)                 # stored value untouched, nobody notified
            self.val = v
            return self.out("-", True)
        if op in ("preinc", "predec", "postinc", "postdec"):
            if self.kind == "str":
                raise Invalid()
            one = SCALE if self.kind in ("dy", "dc") else 1
            old = self.val
            self.val = self.check(old + one if op.endswith("inc") else old - one)
            return self.out(self.show(self.val if op.startswith("pre") else old), True)
        if op == "apply":
            new = self.unop(a[0], self.val)
        else:
            new = self.binop(op, self.val, self.parse(a[0]))
        old = self.val
        self.val = self.check(new)
        return self.out("-", not self.eq(old, new))

    def unop(self, fn, x):
        if self.kind == "str":
            return {"id": x, "clr": "", "dup": x + x}[fn] if fn in ("id", "clr", "dup") else self.bad()
        return {"id": x, "neg": -x, "zero": 0, "dbl": x + x}[fn] if fn in ("id", "neg", "zero", "dbl") else self.bad()

    def bad(self):
        raise Invalid()

    def binop(self, op, x, y):
        if self.kind == "str":
            if op != "add":
                raise Invalid()
            return x + y
        if op == "add":
            return x + y
        if op == "sub":
            return x - y
        if self.kind == "long":
            if op == "mul":
                return x * y
            if op == "div":
                if y == 0:
                    raise Invalid()
                return tdiv(x, y)
        else:
            if op == "mul":
                if (x * y) % SCALE:
                    raise Invalid()
                return (x * y) // SCALE
            if op == "div":
                if y == 0 or (x * SCALE) % y:
                    raise Invalid()
                return tdiv(x * SCALE, y)
        raise Invalid()


def obsv_expected(case):
    r = ObsvRef()
    return [r.step(l) for l in case]


def obsv_valid(case):
    try:
        obsv_expected(case)
        return True
    except (Invalid, ValueError, IndexError, KeyError):
        return False


def gen_c16_case(rng, kind, maxlen):
    r = ObsvRef()
    case = []

    def emit(line):
        import copy
        saved = (r.kind, r.val, list(r.subs), list(r.handles), r.counter)
        try:
            r.step(line)
        except (Invalid, KeyError):
            r.kind, r.val, r.subs, r.handles, r.counter = saved
            return False
        case.append(line)
        return True

    def word():
        if rng.chance(1, 8):
            return rng.pick(["%00", "%00", "%01", "%ff"])        # one byte, escaped on the wire: NUL (the char whose integer value is 0), …
        n = rng.pick([0, 1, 2, 5, 15, 16, 30])
        return "".join(LETTERS[rng.below(3)] for _ in range(n))

    def value():
        if kind == "str":
            if rng.chance(1, 4):
                return "'" + r.val if r.val is not None else "'"
            return "'" + word()
        if kind == "long":
            if rng.chance(1, 4) and r.val is not None:
                return str(r.val + rng.pick([0, 0, 1, -1]))
            return str(rng.below(41) - 20)
        # dyadic: near the current value around the NearEq threshold, or a fresh multiple of 2^-k
        if rng.chance(1, 2) and r.val is not None:
            return str(r.val + rng.pick([0, 1, -1, EPS - 1, EPS, EPS + 1, -(EPS - 1), -EPS, -(EPS + 1), EPS // 2, 3 * EPS]))
        return str((rng.below(65) - 32) * (SCALE >> rng.below(6)))

    def operand(op):
        if kind == "str":
            return "'" + word()
        if kind == "long":
            if op in ("mul", "div"):
                return str(rng.pick([0, 1, 1, -1, 2, 3, -2, 7]))
            return str(rng.pick([0, 0, 1, -1, 5, -13, 100]))
        if op in ("mul", "div"):
            return str(rng.pick([SCALE, SCALE, 2 * SCALE, -SCALE, SCALE // 2, SCALE // 4, 3 * SCALE, 0, SCALE + 1]))
        return str(rng.pick([0, 0, 1, -1, EPS - 1, EPS, -EPS, SCALE, -3 * SCALE // 2, 5]))

    emit("obsv new %s %s" % (kind, value()))
    for _ in range(rng.below(3)):
        emit("obsv subscribe")
    length = 5 + rng.below(maxlen)
    tries = 0
    while len(case) < length and tries < 10 * length:
        tries += 1
        k = rng.below(100)
        if k < 22:
            emit("obsv assign " + value())
        elif k < 50:
            op = rng.pick(["add"] if kind == "str" else ["add", "sub", "mul", "div"])
            emit("obsv %s %s" % (op, operand(op)))
        elif k < 68:
            if kind != "str":
                emit("obsv " + rng.pick(["preinc", "predec", "postinc", "postdec"]))
            else:
                emit("obsv add '" + word())
        elif k < 80:
            emit("obsv apply " + rng.pick(["id", "clr", "dup"] if kind == "str" else ["id", "neg", "zero", "dbl"]))
        elif k < 88:
            if len(r.subs) < 4:
                # one subscriber in six feeds a second Observable of the same type (a derived value)
                emit("obsv chain" if rng.chance(1, 6) else "obsv subscribe")
        elif k < 94:
            if r.handles:
                emit("obsv unsub %d" % rng.below(len(r.handles)))
        else:
            emit("obsv value")
    emit("obsv value")
    return case


def gen_c16_many(rng, kind):
    """a long-lived first subscriber and 66-140 attach/detach cycles of short-lived ones on the same Observable: subscription
    ids far beyond any small fixed capacity, the first one alive all the time"""
    r = ObsvRef()
    case = []

    def emit(line):
        r.step(line)
        case.append(line)

    def fresh(i):
        if kind == "str":
            return "'" + "abc"[i % 3] * (1 + i % 5)
        if kind == "long":
            return str(i % 17 - 8)
        return str((i % 23 - 11) * (SCALE >> (i % 4)) * 4)
    emit("obsv new %s %s" % (kind, fresh(1)))
    emit("obsv subscribe")
    n = 66 + rng.below(75)
    keep = []
    for i in range(n):
        emit("obsv subscribe")
        h = len(r.handles) - 1
        emit("obsv assign " + fresh(i + 2))
        if rng.chance(1, 9):
            keep.append(h)                 # a few stay subscribed
        else:
            emit("obsv unsub %d" % h)
        if i in (63, 64, 65, 127, 128):
            emit("obsv assign " + fresh(i + 5))
    for h in keep:
        emit("obsv unsub %d" % h)
    emit("obsv assign " + fresh(3))
    emit("obsv assign " + fresh(4))
    emit("obsv unsub 0")
    emit("obsv assign " + fresh(6))
    emit("obsv value")
    return case


def gen_c05_many(rng, sig):
    """the same for Subject: ids 0 … 140 over the lifetime of one Subject, the first observer alive throughout"""
    b = CaseBuilder(sig)
    b.emit("subj lib 0 -")
    b.emit("subj new 1")
    b.emit("subj sub 1 %d 0 -" % rng.below(6))
    n = 66 + rng.below(75)
    for i in range(n):
        b.emit("subj sub 1 %d 0 -" % rng.below(6))
        h = len(b.ref.handles) - 1
        if i % 7 == 0 or i in (62, 63, 64, 65, 127, 128):
            b.emit("subj notify 1 0 %s" % gen_arg(rng, sig))
        if not rng.chance(1, 9):
            b.emit("subj %s %d" % (rng.pick(["unsubH", "unsubH", "unsubS 1"]), h))
    b.emit("subj notify 1 0 %s" % gen_arg(rng, sig))
    b.emit("subj unsubH 0")
    b.emit("subj notify 1 0 %s" % gen_arg(rng, sig))
    finish_case(b)
    return b.case


# ====================================================================== running

def build_all(res, want_subj, want_obsv):
    """the five signature binaries and the Observable binary are compiled in parallel (cached by tree hash)"""
    out = {}
    jobs = []
    if want_subj:
        for k in range(NSIG):
            jobs.append(("subj%d" % k, [SUBJ_SRC], ["-DONLY_SIG=%d" % k]))
    if want_obsv:
        jobs.append(("obsv", [OBSV_SRC], []))

    def work(name, srcs, flags):
        out[name] = lib.build_harness("sj_" + name, srcs, extra_flags=flags)

    ths = [threading.Thread(target=work, args=j) for j in jobs]
    for t in ths:
        t.start()
    for t in ths:
        t.join()
    for name, (path, msg) in out.items():
        if path is None:
            res.failures.append(Failure("infra", "harness %s does not compile against the working tree" % name, replay={"compiler": msg[-3000:]}))
            return None
    return {k: v[0] for k, v in out.items()}


MAX_ABORTS = 6


def run_lines_full(binary, lines, timeout=1200):
    """lib.run_lines, but the sanitizer report is summarised from the whole stderr (headline + first frame inside the repo)"""
    import os
    import subprocess
    env = dict(os.environ)
    env.update(lib.ASAN_ENV)
    try:
        p = subprocess.run([binary], input="\n".join(lines) + "\n", stdout=subprocess.PIPE, stderr=subprocess.PIPE, text=True, timeout=timeout, env=env)
        out, rc, err = p.stdout, p.returncode, p.stderr
    except subprocess.TimeoutExpired as e:
        out, rc, err = (e.stdout or b"").decode() if isinstance(e.stdout, bytes) else (e.stdout or ""), -9, "TIMEOUT after %ds" % timeout
    out = out.split("\n")
    if out and out[-1] == "":
        out.pop()
    head, frame = "", ""
    for line in err.split("\n"):
        if not head and ("ERROR: AddressSanitizer" in line or "runtime error" in line or "ERROR: LeakSanitizer" in line or "TIMEOUT" in line):
            head = line.strip()
            if "AddressSanitizer" in head:
                head = "AddressSanitizer: " + head.split("AddressSanitizer:")[1].split(" on address")[0].strip()
        if head and not frame and "/include/tulz/" in line:
            frame = line.strip().split("/include/")[-1]
    summary = (head + (" at " + frame if frame else "")) or (err.strip().split("\n")[-1][:200] if err.strip() else "")
    return out, rc, summary


def run_stream_capped(binary, cases, reset_line):
    """seqtie.run_stream, but after MAX_ABORTS sanitizer aborts the rest of the stream is not run (['!SKIPPED']):
    on a tree where most cases crash, restarting the stream after every crash would be quadratic"""
    results = [None] * len(cases)
    start, aborts = 0, 0
    while start < len(cases):
        if aborts >= MAX_ABORTS:
            for k in range(start, len(cases)):
                results[k] = ["!SKIPPED"]
            break
        lines, bounds = [], []
        for c in cases[start:]:
            lines.append(reset_line)
            bounds.append((len(lines), len(lines) + len(c)))
            lines.extend(c)
        out, rc, err = run_lines_full(binary, lines, 400 if len(cases) - start > 1 else 60)
        done, aborted = 0, False
        for k, (a, b) in enumerate(bounds):
            if b <= len(out):
                results[start + k] = out[a:b]
                done += 1
            else:
                partial = out[a:] if a <= len(out) else []
                results[start + k] = partial + ["!ABORT %s" % err]
                done += 1
                aborted = True
                break
        if not aborted:
            break
        aborts += 1
        start += done
    return results


def case_sig(case):
    return int(case[0].split()[2])


def run_subj_streams(bins, cases):
    """impl outputs (per-signature binaries, in parallel) and model outputs"""
    impl = [None] * len(cases)
    model = [None]
    groups = {}
    for i, c in enumerate(cases):
        groups.setdefault(case_sig(c), []).append(i)

    def work_impl(sig, idxs):
        outs = run_stream_capped(bins["subj%d" % sig], [cases[i] for i in idxs], "subj reset")
        for i, o in zip(idxs, outs):
            impl[i] = o

    def work_model():
        # cross-subject rounds (`nx`) are outside the one-Subject model: those cases are compared oracle <-> code only
        idx = [i for i, c in enumerate(cases) if not any(",nx" in l or " nx" in l for l in c)]
        outs = seqtie.run_stream(None, [cases[i] for i in idx], "subj reset", is_driver=True)
        full = [subj_expected(c) if any(",nx" in l or " nx" in l for l in c) else None for c in cases]
        for i, o in zip(idx, outs):
            full[i] = o
        model[0] = full

    ths = [threading.Thread(target=work_impl, args=(s, idxs)) for s, idxs in groups.items()] + [threading.Thread(target=work_model)]
    for t in ths:
        t.start()
    for t in ths:
        t.join()
    return impl, model[0]


def shrink_scripts(case, fails):
    """second shrinking phase: drop single actions from script tokens"""
    cur = list(case)
    changed = True
    while changed:
        changed = False
        for li, line in enumerate(cur):
            t = line.split()
            if t[1] == "sub":
                pos = 5
            elif t[1] == "lib":
                pos = 3
            else:
                continue
            acts = [] if t[pos] == "-" else t[pos].split(",")
            for k in range(len(acts)):
                na = acts[:k] + acts[k + 1:]
                t2 = list(t)
                t2[pos] = ",".join(na) if na else "-"
                cand = cur[:li] + [" ".join(t2)] + cur[li + 1:]
                if fails(cand):
                    cur = cand
                    changed = True
                    break
            if changed:
                break
    return cur


def simplify_subject(case, fails):
    """third shrinking phase: simplest signature / argument / nesting bound / construction route that still fails"""
    cur = list(case)

    def attempt(cand):
        nonlocal cur
        if cand != cur and fails(cand):
            cur = cand
            return True
        return False

    def mapped(f):
        return [f(l.split()) for l in cur]

    attempt(mapped(lambda t: "subj sig 0" if t[1] == "sig" else (" ".join(t[:4] + ["-"]) if t[1] == "notify" else " ".join(t))))
    for li, l in enumerate(cur):
        t = l.split()
        if t[1] == "notify" and t[3] != "0":
            for f in range(int(t[3])):
                if attempt(cur[:li] + [" ".join(t[:3] + [str(f)] + t[4:])] + cur[li + 1:]):
                    break
        if t[1] == "sub" and t[3] != "2" and t[4] == "0":
            attempt(cur[:li] + [" ".join(t[:3] + ["2"] + t[4:])] + cur[li + 1:])
    return cur


def compare(res, prop, what, cases, exp, impl, model, run_one, valid, expected, component):
    nviol = ndrift = nskip = 0
    for c, e, o, m in zip(cases, exp, impl, model):
        if o == ["!SKIPPED"]:
            nskip += 1
            o = e
        d = seqtie.first_diff(e, o)
        if d is not None:
            nviol += 1
            if nviol <= 3:
                def fails(cand):
                    if not cand or not valid(cand):
                        return False
                    return seqtie.first_diff(expected(cand), run_one(cand)) is not None
                small = seqtie.ddmin(c, fails)
                if component == "subject":
                    small = shrink_scripts(small, fails)
                    small = seqtie.ddmin(small, fails)
                    small = simplify_subject(small, fails)
                ee, oo = expected(small), run_one(small)
                dd = seqtie.first_diff(ee, oo) or (0, "?", "?")
                at = small[dd[0]] if dd[0] < len(small) else "?"
                res.failures.append(Failure("violation", "%s: real code differs from the property oracle at op %d (%s): expected %r, got %r" % (what, dd[0], at, dd[1], dd[2]),
                                            signature=";".join(small),
                                            replay={"component": component, "ops": small, "expected": ee, "got": oo}))
        d = seqtie.first_diff(e, m)
        if d is not None:
            ndrift += 1
            if ndrift <= 3:
                res.failures.append(Failure("drift", "%s: Lean model disagrees with the property oracle at op %d (%s): expected %r, model %r" %
                                            (what, d[0], c[d[0]] if d[0] < len(c) else "?", d[1], d[2]),
                                            replay={"correspondence": component + " model vs oracle", "ops": c, "expected": e, "model": m}))
    res.extra["impl_mismatches"] = nviol
    res.extra["not_run_after_%d_aborts" % MAX_ABORTS] = nskip
    res.extra["model_mismatches"] = ndrift


def tie_subject(prop, tier, seed, res):
    rng = lib.SplitMix(seed).fork("subject/" + prop)
    bins = build_all(res, True, False)
    if bins is None:
        return res
    cases = [c for c in lib.load_corpus("subject") if c and c[0].startswith("subj ")]
    ncorpus = len(cases)
    if prop == "C05":
        n = 20000 if tier == "quick" else 150000
        for i in range(n):
            cases.append(gen_c05_case(rng, i % NSIG, 40 if tier == "quick" else 70))
        # "never invoked again" (C05_never_again) is stated for arbitrary callback scripts: a share of the histories has
        # callbacks that unsubscribe / subscribe / invalidate during the round (the generator of C10)
        for i in range(n // 5):
            cases.append(gen_c10_random(rng, i % NSIG, 4, 3))
        for i in range(n // 10):
            cases.append(gen_cross_case(rng, i % NSIG))
        for i in range(10 if tier == "quick" else 100):
            cases.append(gen_c05_many(rng, i % NSIG))
    else:
        cases += gen_c10_exhaustive(tier)
        nex = len(cases) - ncorpus
        res.extra["exhaustive_small_scope_cases"] = nex
        n = 10000 if tier == "quick" else 100000
        for i in range(n):
            cases.append(gen_c10_random(rng, i % NSIG, 5, 4))
        for i in range(n // 10):
            cases.append(gen_cross_case(rng, i % NSIG))
    exp = [subj_expected(c) for c in cases]
    impl, model = run_subj_streams(bins, cases)

    def run_one(cand):
        return run_stream_capped(bins["subj%d" % case_sig(cand)], [cand], "subj reset")[0]

    def valid(cand):
        return cand[0].startswith("subj sig ") and subj_valid(cand)

    compare(res, prop, "Subject", cases, exp, impl, model, run_one, valid, subj_expected, "subject")

    opcount, distinct, br = {}, set(), {"nested_rounds": 0, "caught": 0, "freed_in_round": 0, "stale_rejected": 0}
    for c, e in zip(cases, exp):
        for l, x in zip(c, e):
            t = l.split()
            opcount[t[1]] = opcount.get(t[1], 0) + 1
            if t[1] == "notify":
                body = x.split(" | ")[0]
                if "[ " in body and body.count("[") > 1 and "] ]" in body:
                    br["nested_rounds"] += 1
                if " E" in body:
                    br["caught"] += 1
                if not x.endswith("freed="):
                    br["freed_in_round"] += 1
                # shape of the round: the log with the argument values removed
                shape = " ".join(w.split("(")[0] + "[" if w.endswith("[") else w for w in body[4:].split())
                distinct.add((shape, x.split("freed=")[1]))
            elif x == "!INVALID_ARG":
                br["stale_rejected"] += 1
                distinct.add((t[1], x))
    res.evaluations = len(cases)
    res.distinct = len(distinct)
    res.rule = ("cases = corpus (%d) + %s; every case is one signature (5 signatures in rotation), ends with isvalid/ismuted of all handles, drop, live; "
                "distinct_nontrivial = distinct (call-log shape with nesting, destroyed set) pairs of notify rounds plus distinct rejected unsubscribes" %
                (ncorpus, "seeded random valid histories (subscribe via 6 construction routes, unsubscribe via handle/subject incl. stale, cleared, foreign handles, "
                          "mute/unmute, invalidate via getObserver and SelfView, handle moves, USubscription wrap, several subjects)" if prop == "C05" else
                 "exhaustive small scope (1 observer: all scripts of length<=2(3) x depth 0..2; 2 observers: length<=2 x <=1(2); 3 observers: all single actions on all targets) "
                 "+ seeded random configurations (<=5 observers, scripts<=4, depth<=3, top-level ops between rounds)"))
    res.dist = {"ops": opcount, "cases": len(cases), "total_ops": sum(opcount.values()), "branches": br}
    res.samples = [cases[ncorpus], cases[len(cases) // 2], cases[-1]]
    return res


def tie_obsv(prop, tier, seed, res):
    rng = lib.SplitMix(seed).fork("observable")
    bins = build_all(res, False, True)
    if bins is None:
        return res
    cases = [c for c in lib.load_corpus("subject") if c and c[0].startswith("obsv ")]
    ncorpus = len(cases)
    n = 20000 if tier == "quick" else 150000
    kinds = ["long", "dy", "dc", "str"]
    for i in range(n):
        cases.append(gen_c16_case(rng, kinds[i % len(kinds)], 30 if tier == "quick" else 60))
    for i in range(12 if tier == "quick" else 120):
        cases.append(gen_c16_many(rng, kinds[i % len(kinds)]))
    exp = [obsv_expected(c) for c in cases]
    out = [None, None]

    def wi():
        out[0] = run_stream_capped(bins["obsv"], cases, "obsv reset")

    def wm():
        out[1] = seqtie.run_stream(None, cases, "obsv reset", is_driver=True)

    ths = [threading.Thread(target=wi), threading.Thread(target=wm)]
    for t in ths:
        t.start()
    for t in ths:
        t.join()

    def run_one(cand):
        return run_stream_capped(bins["obsv"], [cand], "obsv reset")[0]

    def valid(cand):
        return cand[0].startswith("obsv new ") and obsv_valid(cand)

    # histories with a `chain` subscriber involve a second Observable: they are outside the one-Observable Lean model and are
    # compared oracle <-> code only (like the cross-subject rounds of C05)
    for i, c in enumerate(cases):
        if any(l == "obsv chain" for l in c):
            out[1][i] = exp[i]
    compare(res, prop, "Observable", cases, exp, out[0], out[1], run_one, valid, obsv_expected, "observable")
    opcount, distinct, br = {}, set(), {"notified": 0, "silent": 0, "neareq_equal_but_different": 0}
    for c, e in zip(cases, exp):
        kind = c[0].split()[2]
        for l, x in zip(c, e):
            t = l.split()
            opcount[t[1]] = opcount.get(t[1], 0) + 1
            if x.startswith("ret="):
                notified = not x.endswith("log=")
                nsubs = x.count("(")
                br["notified" if notified else "silent"] += 1
                if kind in ("dy", "dc") and t[1] == "assign" and not notified and ("val=" + t[2] + " ") not in x:
                    br["neareq_equal_but_different"] += 1
                distinct.add((kind, t[1], notified, nsubs, x.split(" | ")[0] != "ret=-"))
    res.evaluations = len(cases)
    res.distinct = len(distinct)
    res.rule = ("cases = corpus (%d) + seeded random valid histories over Observable<long>, Observable<double,NearEq> (dyadic rationals, exact), Observable<std::string>; "
                "distinct_nontrivial = distinct (kind, operator, notified?, number of subscribers called, returns a value?) tuples" % ncorpus)
    res.dist = {"ops": opcount, "cases": len(cases), "total_ops": sum(opcount.values()), "branches": br}
    res.samples = [cases[ncorpus], cases[-1]]
    return res


def run_tie(prop, spec, tier, seed):
    res = TieResult()
    if prop == "C16":
        return tie_obsv(prop, tier, seed, res)
    return tie_subject(prop, tier, seed, res)


def replay(prop, spec, path):
    data = json.load(open(path))
    ops = data.get("replay", {}).get("ops") or data.get("ops")
    if not ops:
        print(json.dumps(data, indent=1))
        return 0
    res = TieResult()
    if ops[0].startswith("obsv"):
        bins = build_all(res, False, True)
        e = obsv_expected(ops)
        o = run_stream_capped(bins["obsv"], [ops], "obsv reset")[0]
        m = seqtie.run_stream(None, [ops], "obsv reset", is_driver=True)[0]
    else:
        bins = build_all(res, True, False)
        e = subj_expected(ops)
        o = run_stream_capped(bins["subj%d" % case_sig(ops)], [ops], "subj reset")[0]
        m = seqtie.run_stream(None, [ops], "subj reset", is_driver=True)[0]
    bad = False
    for i, l in enumerate(ops):
        ee = e[i]
        oo = o[i] if i < len(o) else "<missing>"
        mm = m[i] if i < len(m) else "<missing>"
        flag = "" if ee == oo else "   <-- differs"
        bad = bad or bool(flag)
        print("%-34s oracle: %-30s impl: %-30s model: %s%s" % (l, ee, oo, mm, flag))
    if bad:
        print("VIOLATION property=%s replay=%s" % (prop, path))
    return 1 if bad else 0
