"""C19: tulz::LocaleInfo::get against the Lean byte-level model and a direct Python statement of the property.

Three-way tie per input string s (one line `loc get <hex of s>`):
  oracle = the property stated directly over tables parsed HERE, independently of the translator
  impl   = harness/locale/locale_harness.cpp running the real LocaleInfo::get under ASan/UBSan
  model  = tulzdrv (lean/Tulz/Model/Locale.lean: the repaired code, byte level, over the regenerated tables)
impl != oracle -> violation with the (shrunk) string as replay;  model != oracle -> drift.
In addition the four views of the two tables must agree: regex parse (oracle), translator output (what Lean
proves things about), the Lean driver's `loc table`, and the table as compiled into the harness.
"""
import codecs
import hashlib
import json
import os
import re
import subprocess
import sys
from concurrent.futures import ThreadPoolExecutor

import lib
import seqtie
from lib import Failure, TieResult

sys.path.insert(0, os.path.join(lib.VERIF, "tools", "translators"))
import locale_tables  # noqa: E402

HARNESS = "harness/locale/locale_harness.cpp"
GENERATED = os.path.join(lib.LEAN_DIR, "Tulz", "Generated", "LocaleTables.lean")
HARNESS_FLAGS = ["-fno-builtin"]
ASAN_EXTRA = ":strict_string_checks=1"
MAX_ABORTS = 30          # after that many sanitizer aborts the remaining inputs are not run (the check has failed anyway)
CHUNK = 40000
WORKERS = 4            # concurrent harness / driver processes

PROPS = {
    "C19": {
        "design_ref": "6.6/C19",
        "technique": "Lean 4 proof over a byte-level model of LocaleInfo::get with an explicit 64-byte buffer (safety for every string, get = spec) + kernel-decided facts over tables regenerated from LocaleInfo.cpp on every run (translator) + exhaustive table-product correspondence under ASan",
        "level_text": "Machine-checked proof that the byte-level transcription of get (memcpy/strcmp as partial operations that fail on overflow, negative length, missing terminator, uninitialised result) returns .ok for every byte string and equals the plain specification (known language key x known country key, optional charset suffix -> that code, all names for it, that country; anything else -> the English/United Kingdom fallback with error set; every returned string is a table component). Table-dependent premises (no key has '_' or NUL, keys < 64 bytes, codes and names disjoint, ...) are re-proved by decide +kernel over Lean tables regenerated from src/LocaleInfo.cpp on every run. Tied to the real code by running model, Python oracle and the real get() (ASan, poisoned stack) on all language x country x suffix combinations plus adversarial and random strings.",
        "level_note": "Trusted: Lean kernel; libc string functions and std::list as modelled; the lexical table translator (cross-checked against an independent parse and the compiled tables each run); interpretive choices recorded in assumptions; unbounded Int lengths.",
        "lean_modules": ["Tulz.Props.C19"],
        "theorems": ["Tulz.C19_table_facts", "Tulz.C19_safe", "Tulz.C19_get_eq_spec", "Tulz.C19_known_code", "Tulz.C19_known_name",
                     "Tulz.C19_known", "Tulz.C19_other", "Tulz.C19_error_iff", "Tulz.C19_pointers",
                     "Tulz.Locale.getT_safe", "Tulz.Locale.getT_eq_specT", "Tulz.Locale.getT_nf"],
        "trusted_base": [
            "modelled, not verified: strstr (one-byte needle = first index), memcpy, memset, strcmp (needs a NUL inside the 64-byte buffer), "
            "range-for over the two arrays, std::list::emplace_back/empty, `result = {}`, fprintf(stderr) of the argument",
            "translator tools/translators/locale_tables.py (lexical; cross-checked on every run against an independent regex parse and "
            "against the tables as compiled into the harness)",
            "the fallback literals en/English/GB/United Kingdom are constants of the model (tied by the correspondence check only)",
            "`refers to a table entry` is read by content, not by address; the `error` text is not a table pointer",
        ],
        "assumptions": [
            "the argument is a NUL-terminated string (a byte list without NUL); C19_safe needs not even that",
            "interpretive choices: language part = before the first `_`; country part = up to the first `.` of the string, which must not "
            "precede the `_`; key = code -> all names with that code in table order; key = name -> first entry with that name, that name only "
            "(Norwegian -> nb, Ndebele -> nd); a country name containing `.` (Virgin Islands, U.S.) cannot be addressed by name",
        ],
    },
}


# ------------------------------------------------------------------ translator (runs on every check)

def translate(prop, spec):
    lang, ctry = locale_tables.translate(lib.REPO, GENERATED)
    return {"translator": "tools/translators/locale_tables.py", "source": os.path.join(lib.REPO, "src/LocaleInfo.cpp"),
            "language_entries": len(lang), "country_entries": len(ctry),
            "generated_sha256": hashlib.sha256(open(GENERATED, "rb").read()).hexdigest()}


# ------------------------------------------------------------------ independent table parse + oracle

def strip_cpp_comments(src):
    # strings in this file contain neither // nor /* (checked: a string with them would change the entry count below)
    pat = re.compile(rb'//[^\n]*|/\*.*?\*/|"(?:[^"\\\n]|\\.)*"', re.S)
    return pat.sub(lambda m: m.group(0) if m.group(0).startswith(b'"') else b" ", src)


def parse_tables_independently(repo):
    src = strip_cpp_comments(open(os.path.join(repo, "src", "LocaleInfo.cpp"), "rb").read())
    res = []
    for name in (b"languageInfo", b"countryInfo"):
        m = re.search(rb"LocaleInfo::" + name + rb"\s*\[\s*\]\s*=\s*\{(.*?)\}\s*;", src, re.S)
        if not m:
            raise RuntimeError("table %s not found" % name.decode())
        ents = re.findall(rb'\{\s*"((?:[^"\\]|\\.)*)"\s*,\s*"((?:[^"\\]|\\.)*)"\s*,?\s*\}', m.group(1))
        tab = [(codecs.escape_decode(c)[0], codecs.escape_decode(v)[0]) for v, c in ents]     # source order is {value, code}
        if len(ents) != m.group(1).count(b"{"):
            raise RuntimeError("table %s: %d entries recognised, %d opening braces" % (name.decode(), len(ents), m.group(1).count(b"{")))
        res.append(tab)
    return res[0], res[1]


FALLBACK = (b"en", [b"English"], b"United Kingdom", b"GB", 1)


def hx(b):
    return b.hex() if b else "-"


def show(r):
    if r == AMBIGUOUS:
        return AMBIGUOUS
    code, names, country, ccode, err = r
    return "%s | %s | %s | %s | err:%d" % (hx(code), ",".join(hx(n) for n in names), hx(country), hx(ccode), err)


AMBIGUOUS = "!AMBIGUOUS"


class Oracle:
    """The property, stated directly and independently of how the code finds its delimiters:

    s is well-shaped iff s = L + '_' + C + suffix for SOME language key L (code or name of a table entry), country key C
    (code or name, without '.': the country part ends at the charset delimiter) and suffix = '' or '.' + anything.
    Then the answer is: L's code and names (L a code: all names with that code in table order; L a name: the first entry
    with that name, that name) and C's entry.  Every other string gets the fallback with error set.
    With tables satisfying the table facts there is at most one such decomposition (no key contains '_', no language key
    contains '.'), so this coincides with `spec`; with a table that breaks a fact the offending key yields a concrete
    failing input.  A key that selects two different entries (code that is also a name, duplicated country key) makes the
    property unsatisfiable: the expected value is `!AMBIGUOUS`, which no output equals."""

    def __init__(self, lang, ctry):
        self.lang, self.ctry = lang, ctry
        self.by_code = {}
        for c, n in lang:
            self.by_code.setdefault(c, []).append(n)
        self.by_name = {}
        for c, n in lang:
            self.by_name.setdefault(n, c)            # first entry with that name (recorded choice: Norwegian, Ndebele)
        self.country = {}
        self.ambiguous_country = set()
        for c, n in ctry:
            for k in (c, n):
                if k in self.country and self.country[k] != (c, n):
                    self.ambiguous_country.add(k)
                self.country.setdefault(k, (c, n))
        self.strings = set(x for e in lang + ctry for x in e)
        self.lang_pairs = set(lang)
        self.ctry_pairs = set(ctry)

    def language(self, key):
        if key in self.by_code and key in self.by_name:
            return AMBIGUOUS
        if key in self.by_code:
            return (key, self.by_code[key])
        if key in self.by_name:
            return (self.by_name[key], [key])
        return None

    def get(self, s):
        results = []
        i = s.find(b"_")
        while i >= 0:
            l = self.language(s[:i])
            if l is not None:
                rest = s[i + 1:]
                j = rest.find(b".")
                ckey = rest if j < 0 else rest[:j]          # the country part never contains '.'
                if ckey in self.country:
                    if l == AMBIGUOUS or ckey in self.ambiguous_country:
                        return AMBIGUOUS
                    cc, cn = self.country[ckey]
                    r = (l[0], l[1], cn, cc, 0)
                    if r not in results:
                        results.append(r)
            i = s.find(b"_", i + 1)
        if not results:
            return FALLBACK
        if len(results) > 1:
            return AMBIGUOUS
        return results[0]

    def in_tables(self, line):
        """`every pointer it returns refers to a table entry`, by content, on an output line"""
        f = line.split(" | ")
        if len(f) != 5:
            return False
        try:
            dec = lambda h: b"" if h == "-" else bytes.fromhex(h)
            code, names, country, ccode = dec(f[0]), [dec(x) for x in f[1].split(",")], dec(f[2]), dec(f[3])
        except ValueError:
            return False
        return bool(names) and all((code, n) in self.lang_pairs for n in names) and (ccode, country) in self.ctry_pairs

    def shape(self, s):
        """coarse class of an input, for the coverage statistics"""
        def bucket(n):
            for b in (0, 1, 2, 3, 62, 63, 64, 65):
                if n == b:
                    return str(b)
            return "4-61" if n < 62 else ("66-128" if n <= 128 else ">128")
        if b"_" not in s:
            return "no_underscore/" + ("dot" if b"." in s else "nodot") + "/" + bucket(len(s))
        language, rest = s.split(b"_", 1)
        country = rest.split(b".", 1)[0]
        lk = "code" if language in self.by_code else "name" if language in self.by_name else "unknown"
        ck = "key" if country in self.country else "unknown"
        suffix = "none" if b"." not in rest else "dot-empty" if rest.endswith(b".") and rest.count(b".") == 1 else "charset"
        return "/".join(["dotfirst" if b"." in language else "ok", lk, bucket(len(language)), ck, bucket(len(country)), suffix,
                         "more_" if b"_" in rest else ""])


# ------------------------------------------------------------------ generators

def exhaustive_cases(lang, ctry, every):
    lkeys = []
    seen = set()
    for c, n in lang:
        for k in (c, n):
            if k not in seen:
                seen.add(k)
                lkeys.append(k)
    ckeys = [k for c, n in ctry for k in (c, n)]
    out = []
    i = 0
    for lk in lkeys:
        for ck in ckeys:
            for suffix in (b"", b".UTF-8"):
                if i % every == 0:
                    out.append(lk + b"_" + ck + suffix)
                i += 1
    return out, len(lkeys), len(ckeys)


def adversarial_cases(lang, ctry):
    out = [b"", b"_", b".", b"_.", b"._", b"__", b"..", b"en", b"en_", b"_GB", b"en.", b".en_GB", b"en._GB", b"en_.GB", b"en_GB.", b"en_GB..",
           b"en_GB_x", b"en__GB", b"en_GB.UTF-8_x.y", b"en_GB._", b"zz_GB", b"en_ZZ", b"zz_ZZ", b"en.x_GB", b"English_Narnia", b"Klingon_GB",
           b"EN_GB", b"en_gb", b"GB_en", b"Nauru_Nauru", b"na_Nauru", b"en_Virgin Islands, U.S.", b"en_Virgin Islands, U", b"en_VI",
           b"Norwegian_NO", b"Ndebele_ZW", b"nb_NO", b"nn_NO", b"no_NO", b"en_GB.UTF-8", b"English_United States.1252", b"hu_HU",
           b" en_GB", b"en _GB", b"en_ GB", b"en_GB ", b"en-GB", b"en_GB@euro", b"C", b"POSIX", b"C.UTF-8"]
    out += [b"a" * 80 + b"_GB", b"en_" + b"B" * 80, b"a" * 200 + b"_" + b"B" * 200 + b".x"]
    for n in list(range(55, 72)) + [100, 127, 128, 129, 200, 255, 256, 257, 300]:
        a = b"a" * n
        out += [a, a + b"_GB", b"en_" + a, a + b"_" + a, a + b"_GB.UTF-8", b"en_" + a + b".UTF-8", a + b"." + a, b"." + a + b"_GB",
                b"en_GB." + a, a + b".x_GB", b"en" + b"." * n + b"_GB", b"_" * n, b"." * n, b"en_GB" + b"_" * n, a + b"_", b"_" + a,
                b"English" + a[7:] + b"_GB" if n > 7 else b"English_GB", b"en_United Kingdom" + a[14:] if n > 14 else b"en_GB"]
        # a known key followed by padding: the comparison must not be a prefix comparison
        out += [b"en" + b"\x01" * (n - 2) + b"_GB", b"en_GB" + b"\xff" * (n - 2)]
    keys = [lang[0][0], lang[0][1], lang[-1][0], lang[-1][1], ctry[0][0], ctry[0][1], ctry[-1][0], ctry[-1][1], b"Bokm\xc3\xa5l", b"\xc3\x85land Islands"]
    for k in keys:
        out += [k, k + b"_", b"_" + k, k + b"_" + k, k[:-1] + b"_GB", k + b"x_GB", b"en_" + k[:-1], b"en_" + k + b"x", k.upper() + b"_GB", b"en_" + k.lower(),
                k + b"._GB", k + b"_GB.", b"en_" + k + b".", b"en_" + k + b"._", b"en_" + k + b"_."]
    for b in (1, 9, 10, 31, 32, 127, 128, 195, 255):
        c = bytes([b])
        out += [c, c + b"_GB", b"en_" + c, b"en" + c + b"_GB", b"en_GB" + c, c * 64 + b"_GB", b"en_" + c * 64]
    return out


def small_scope_cases(maxlen, alphabet=b"en_.GB"):
    """every string up to `maxlen` over an alphabet that contains both delimiters and spells a known pair"""
    out = [b""]
    layer = [b""]
    for _ in range(maxlen):
        layer = [x + bytes([c]) for x in layer for c in alphabet]
        out += layer
    return out


def random_case(rng, lang, ctry):
    def part(kind):
        k = rng.below(10)
        table = lang if kind == "l" else ctry
        if k < 4:
            e = rng.pick(table)
            return e[rng.below(2)]
        if k < 6:
            e = bytearray(rng.pick(table)[rng.below(2)])
            m = rng.below(4)
            if m == 0 and e:
                e[rng.below(len(e))] ^= 1 << rng.below(7)
            elif m == 1 and e:
                del e[rng.below(len(e))]
            elif m == 2:
                e.insert(rng.below(len(e) + 1), 1 + rng.below(255))
            else:
                e = e * (1 + rng.below(40))
            return bytes(b for b in e if b != 0)
        if k < 7:
            return b""
        n = rng.pick([1, 2, 3, 5, 20, 61, 62, 63, 64, 65, 66, 90, 128, 200, 300, 1 + rng.below(300)])
        alphabet = rng.pick([b"a", b"ab", b"aZ09 ,()-", bytes(range(1, 256)), b"a._", b"\xc3\xa5\xc3\x85"])
        return bytes(rng.pick(alphabet) for _ in range(n))
    k = rng.below(10)
    L, C, X = part("l"), part("c"), part("x")
    if k < 3:
        return L + b"_" + C
    if k < 5:
        return L + b"_" + C + b"." + X
    if k == 5:
        return L + b"." + X + b"_" + C
    if k == 6:
        return L + rng.pick([b"", b"-", b"__", b"_.", b"._", b"."]) + C
    if k == 7:
        return L + b"_" + C + b"_" + X + (b"." if rng.chance(1, 2) else b"")
    if k == 8:
        return C + b"_" + L
    seps = b"".join(rng.pick([b"_", b".", b"a", b""]) for _ in range(rng.below(8)))
    return seps + L + seps + C


# ------------------------------------------------------------------ runners

def asan_env(symbolize=False):
    opts = lib.ASAN_ENV["ASAN_OPTIONS"] + ASAN_EXTRA + (":symbolize=1" if symbolize else ":symbolize=0")
    return {"ASAN_OPTIONS": opts}


def run_bin(binary, lines, symbolize=False, timeout=1200):
    """like lib.run_lines, but stderr is arbitrary bytes here (get() echoes its argument)"""
    env = dict(os.environ)
    env.update(lib.ASAN_ENV)
    env.update(asan_env(symbolize))
    p = subprocess.run([binary], input=("\n".join(lines) + "\n").encode(), stdout=subprocess.PIPE, stderr=subprocess.PIPE, timeout=timeout, env=env)
    out = p.stdout.decode("latin-1").split("\n")
    if out and out[-1] == "":
        out.pop()
    return out, p.returncode, p.stderr[-6000:].decode("latin-1")


def parallel(fn, lines, workers=WORKERS):
    """split `lines` into contiguous slices, run `fn(slice)` concurrently, return the per-slice results in order"""
    if len(lines) < 4000 or workers < 2:
        return [fn(lines)]
    step = (len(lines) + workers - 1) // workers
    slices = [lines[i:i + step] for i in range(0, len(lines), step)]
    with ThreadPoolExecutor(max_workers=workers) as ex:
        return list(ex.map(fn, slices))


def run_impl_parallel(binary, lines):
    parts = parallel(lambda sl: run_impl(binary, sl), lines)
    return [o for p in parts for o in p[0]], sum(p[1] for p in parts)


def run_impl(binary, lines, max_aborts=MAX_ABORTS, symbolize=False):
    """one output per input line; a sanitizer abort is attributed to the line at which the output stops and the
    stream is resumed after it.  returns (outputs, aborts)"""
    res = [None] * len(lines)
    aborts = 0
    pos = 0
    while pos < len(lines):
        if aborts >= max_aborts:
            for k in range(pos, len(lines)):
                res[k] = "!NOT-RUN"
            break
        chunk = lines[pos:pos + CHUNK]
        out, rc, err = run_bin(binary, chunk, symbolize)
        n = min(len(out), len(chunk))
        res[pos:pos + n] = out[:n]
        if n < len(chunk):
            res[pos + n] = "!ABORT rc=%d %s" % (rc, seqtie.summarize_err(err))
            aborts += 1
            pos += n + 1
        else:
            pos += n
            if rc != 0:      # output complete but a non-zero exit (leak report at exit, …): attribute it to the chunk's last line
                res[pos - 1] = "!ABORT rc=%d %s" % (rc, seqtie.summarize_err(err))
                aborts += 1
    return res, aborts


def run_model(lines):
    def one(sl):
        out, rc, err = lib.run_driver(sl, timeout=1200)
        if rc != 0 or len(out) != len(sl):
            raise RuntimeError("tulzdrv failed: rc=%d %s" % (rc, err[-300:]))
        return out
    return [o for p in parallel(one, lines) for o in p]


# prefix, fill byte, count, suffix (hex): hu + x…x + _HU,  x…x + _HU,  hu_HU + x…x,  hu_HU. + x…x (a long charset is fine)
BIG_QUICK = ["loc getbig 6875 78 4294967299 5f4855", "loc getbig - 78 2147483653 5f4855", "loc getbig 68755f4855 78 4294967297 -"]
BIG_MORE = ["loc getbig 68755f48552e 78 4294967297 -", "loc getbig 68755f 78 2147483653 -", "loc getbig 6875 78 4294967360 5f48552e5554462d38",
            "loc getbig 48756e67617269616e5f48756e67617279 20 4294967296 -"]


def run_big(binary, line):
    """one multi-gigabyte call in its own process; ASan's printf interceptor is switched off for it (it keeps the length of a
    %s argument in an int and reports its own overflow for 2 - 4 GiB strings; get() echoes its argument on stderr)"""
    env = dict(os.environ)
    env.update(lib.ASAN_ENV)
    env["ASAN_OPTIONS"] = lib.ASAN_ENV["ASAN_OPTIONS"] + ASAN_EXTRA + ":symbolize=0:check_printf=0"
    try:
        p = subprocess.run([binary], input=(line + "\n").encode(), stdout=subprocess.PIPE, stderr=subprocess.PIPE, timeout=900, env=env)
    except subprocess.TimeoutExpired:
        return "!TIMEOUT"
    out = p.stdout.decode("latin-1").strip().split("\n")
    if p.returncode != 0 or not out or not out[-1]:
        return "!ABORT rc=%d %s" % (p.returncode, seqtie.summarize_err(p.stderr[-6000:].decode("latin-1")))
    return out[-1]


def line_of(s):
    return "loc get " + hx(s)


def failure_class(expected_line, got):
    if got.startswith("!ABORT"):
        m = re.search(r"AddressSanitizer: ([\w-]+)|runtime error: ([^:]+)|LeakSanitizer", got)
        return "abort:" + (m.group(1) or m.group(2) or "leak" if m else "other")
    e, g = expected_line.split(" | "), got.split(" | ")
    if len(e) != len(g):
        return "format"
    names = ["code", "names", "country", "ccode", "err"]
    return "fields:" + "+".join(n for n, a, b in zip(names, e, g) if a != b)


def build(res=None):
    binary, out = lib.build_harness("locale", [HARNESS], extra_flags=HARNESS_FLAGS, repo_sources=["src/LocaleInfo.cpp"])
    if binary is None and res is not None:
        res.failures.append(Failure("infra", "harness does not compile against the working tree", replay={"compiler": out[-3000:]}))
    return binary


def parse_table_line(line):
    tab = []
    for item in line.split():
        c, n = item.split(":")
        tab.append((bytes.fromhex(c) if c != "-" else b"", bytes.fromhex(n) if n != "-" else b""))
    return tab


# ------------------------------------------------------------------ the tie

def run_tie(prop, spec, tier, seed):
    res = TieResult()
    rng = lib.SplitMix(seed).fork("locale")
    binary = build(res)
    if binary is None:
        return res
    try:
        lang, ctry = parse_tables_independently(lib.REPO)
    except Exception as e:
        res.failures.append(Failure("infra", "independent table parse failed: %r" % (e,)))
        return res
    orc = Oracle(lang, ctry)

    # strings of 2 - 4 GiB (started now, collected at the end): `any length` includes part lengths that do not fit an int
    big_lines = BIG_QUICK if tier == "quick" else BIG_QUICK + BIG_MORE
    big_pool = ThreadPoolExecutor(max_workers=3)
    big_jobs = [big_pool.submit(run_big, binary, l) for l in big_lines]

    # the four views of the tables
    tl, tc = locale_tables.parse_repo(lib.REPO)
    views = {"translator": ([(bytes(c), bytes(n)) for c, n in tl], [(bytes(c), bytes(n)) for c, n in tc])}
    out, rc, err = run_bin(binary, ["loc table lang", "loc table country"])
    if rc == 0 and len(out) == 2:
        views["compiled"] = (parse_table_line(out[0]), parse_table_line(out[1]))
    else:
        res.failures.append(Failure("infra", "harness cannot dump its tables: rc=%d %s" % (rc, err[-300:])))
    out, rc, err = lib.run_driver(["loc table lang", "loc table country"])
    if rc == 0 and len(out) == 2 and not out[0].startswith("bad"):
        views["lean-driver"] = (parse_table_line(out[0]), parse_table_line(out[1]))
    else:
        res.failures.append(Failure("infra", "tulzdrv cannot dump its tables"))
    for name, (vl, vc) in views.items():
        if vl != lang or vc != ctry:
            diff = [i for i, (a, b) in enumerate(zip(vl + vc, lang + ctry)) if a != b][:3]
            res.failures.append(Failure("drift", "tables seen by %s differ from the independent parse of src/LocaleInfo.cpp (sizes %d/%d vs %d/%d, first differing entries %s)"
                                        % (name, len(vl), len(vc), len(lang), len(ctry), diff),
                                        replay={"correspondence": "table views", "view": name}))

    # cases
    corpus = [bytes.fromhex(l.split()[2]) if l.split()[2] != "-" else b"" for c in lib.load_corpus("locale") for l in c if l.startswith("loc get ")]
    adv = adversarial_cases(lang, ctry)
    ex, nl, nc = exhaustive_cases(lang, ctry, 1)
    nrand = 30000 if tier == "quick" else 600000
    rnd = [random_case(rng, lang, ctry) for _ in range(nrand)]
    rnd = [s for s in rnd if b"\0" not in s]
    small = small_scope_cases(5 if tier == "quick" else 7)
    # every two-byte language part whose first byte is a lower-case letter and whose second byte is ANY byte (upper case, digits,
    # punctuation, control and high bytes), with two known countries: an index computed from the bytes of a short code must not alias
    two = [bytes([b0, b1]) + b"_" + c for b0 in range(ord("a"), ord("z") + 1) for b1 in range(1, 256) if b1 not in (ord("_"), ord("."))
           for c in (b"EE", b"GB")]
    two += [bytes([b1, b0]) + b"_GB" for b0 in range(ord("a"), ord("z") + 1) for b1 in range(1, 256) if b1 not in (ord("_"), ord(".")) and not (97 <= b1 <= 122)]
    cases = corpus + adv + small + two + rnd + ex
    lines = [line_of(s) for s in cases]
    exp = [show(orc.get(s)) for s in cases]

    impl, aborts = run_impl_parallel(binary, lines)
    try:
        model = run_model(lines)
    except Exception as e:
        res.failures.append(Failure("infra", "driver failed: %r" % (e,)))
        model = None

    # statistics
    shapes = {}
    found = set()
    for s, e in zip(cases, exp):
        if e.endswith("err:0"):
            found.add(e)
        else:
            k = orc.shape(s)
            shapes[k] = shapes.get(k, 0) + 1
    res.evaluations = len(cases)
    res.distinct = len(found) + len(shapes)
    res.rule = ("cases = corpus (%d) + adversarial (%d: every delimiter order, empty/unknown parts, part lengths 55..71 and up to 300, known key + padding, "
                "control and high bytes) + every string of length <= %d over {e,n,_,.,G,B} (%d) + seeded random structured strings (%d) + EXHAUSTIVE (%d language keys: every distinct code and name) x (%d country keys: "
                "every code and name) x (no suffix, .UTF-8) = %d; distinct_nontrivial = distinct expected non-fallback results (%d) + distinct shape classes "
                "of the fallback inputs (%d; class = dot-before-underscore, language key kind and length bucket, country kind and length bucket, suffix kind, "
                "extra underscore)" % (len(corpus), len(adv), 5 if tier == "quick" else 7, len(small), len(rnd), nl, nc, len(ex), len(found), len(shapes)))
    res.dist = {"cases": len(cases), "expected_found": sum(1 for e in exp if e.endswith("err:0")), "expected_fallback": sum(1 for e in exp if e.endswith("err:1")),
                "fallback_shape_classes": dict(sorted(shapes.items(), key=lambda kv: -kv[1])[:40]),
                "length_max": max(len(s) for s in cases), "sanitizer_aborts": aborts,
                "not_run_after_abort_limit": sum(1 for o in impl if o == "!NOT-RUN")}
    res.samples = [lines[len(corpus)], lines[len(corpus) + len(adv)], lines[-1]]
    res.extra["exhaustive_part"] = "all %d x %d x 2 key combinations" % (nl, nc)

    # impl vs oracle
    classes = {}
    nmis = 0
    for i, (e, o) in enumerate(zip(exp, impl)):
        if o == "!NOT-RUN" or o == e:
            continue
        nmis += 1
        cl = failure_class(e, o)
        if cl not in classes or len(cases[i]) < len(cases[classes[cl]]):
            classes[cl] = i
    # every returned string is a component of a table entry (by content), also where impl == oracle (e.g. the fallback)
    checked = {}
    for i, o in enumerate(impl):
        if o.startswith("!") or o in checked:
            continue
        checked[o] = orc.in_tables(o)
        if not checked[o]:
            nmis += 1
            if "not-in-table" not in classes:
                classes["not-in-table"] = i
    res.extra["impl_mismatches"] = nmis
    res.extra["impl_mismatch_classes"] = {k: lines[v] for k, v in classes.items()}
    for cl, i in sorted(classes.items())[:5]:
        def fails(cand, cl=cl):
            s = bytes(cand)
            o, _ = run_impl(binary, [line_of(s)], max_aborts=2)
            e = show(orc.get(s))
            if cl == "not-in-table":
                return not o[0].startswith("!") and not orc.in_tables(o[0])
            return o[0] != e and failure_class(e, o[0]) == cl
        small = bytes(seqtie.ddmin(list(cases[i]), fails)) if len(cases[i]) > 1 else cases[i]
        if not fails(list(small)):
            small = cases[i]
        o, _ = run_impl(binary, [line_of(small)], max_aborts=2, symbolize=True)
        e = show(orc.get(small))
        what = ("LocaleInfo::get(%r) [%s]: expected %s, got %s" % (small.decode("latin-1"), cl, pretty(e), pretty(o[0])) if cl != "not-in-table" else
                "LocaleInfo::get(%r) returns a string that is not a component of any table entry (or a name not paired with the returned code): %s"
                % (small.decode("latin-1"), pretty(o[0])))
        res.failures.append(Failure("violation", what,
                                    signature=line_of(small),
                                    replay={"component": "locale", "ops": [line_of(small)], "input_latin1": small.decode("latin-1"),
                                            "class": cl, "expected": e, "got": o[0], "unshrunk": lines[i]}))

    # the same function called during static initialisation (before any dynamic initialiser of LocaleInfo.cpp has run)
    st_lines = ["loc static %d" % k for k in range(64)]
    st_out, st_aborts = run_impl(binary, st_lines, max_aborts=2)
    st_n = 0
    for l, o in zip(st_lines, st_out):
        if o == "none":
            break
        st_n += 1
        if " => " not in o:
            res.failures.append(Failure("violation", "LocaleInfo::get called during static initialisation of another translation unit: %s" % o[:300],
                                        signature=l, replay={"component": "locale", "ops": [l], "got": o}))
            break
        h, got = o.split(" => ", 1)
        s = bytes.fromhex(h) if h != "-" else b""
        e = show(orc.get(s))
        if got != e or not orc.in_tables(got):
            res.failures.append(Failure("violation", "LocaleInfo::get(%r) called during static initialisation of a translation unit linked before LocaleInfo.cpp: "
                                        "expected %s, got %s (the same call from main: %s)" % (s.decode("latin-1"), pretty(e), pretty(got), pretty(run_impl(binary, [line_of(s)], max_aborts=1)[0][0])),
                                        signature=l, replay={"component": "locale", "ops": [l], "input_latin1": s.decode("latin-1"), "class": "static-init", "expected": e, "got": got}))
            break
    res.extra["static_init_calls"] = st_n
    res.rule += "; + %d fixed strings passed to get() from a static initialiser of a translation unit linked BEFORE LocaleInfo.cpp" % st_n
    if st_n == 0 and not res.failures:
        res.failures.append(Failure("infra", "harness made no static-initialisation calls"))

    # concurrent callers: get() is a function of its argument alone
    par_out, _ = run_impl(binary, ["loc par %d" % (20000 if tier == "quick" else 200000)], max_aborts=1)
    res.extra["concurrent_callers"] = par_out[0][:200]
    if par_out[0] != "ok":
        res.failures.append(Failure("violation", "LocaleInfo::get called from four threads at once (valid and unknown locales): %s" % par_out[0][:400],
                                    signature="loc par", replay={"component": "locale", "ops": ["loc par 20000"], "got": par_out[0]}))
    res.rule += "; + four concurrent callers compared with the single-threaded answers"

    # the multi-gigabyte strings: the answer is that of the same string with a 70-byte fill (no table key is longer than
    # 63 bytes and the fill byte is not a delimiter, so the two strings decompose alike)
    nbig = 0
    for l, job in zip(big_lines, big_jobs):
        got = job.result()
        t = l.split()
        dec = lambda h: b"" if h == "-" else bytes.fromhex(h)
        short = dec(t[2]) + dec(t[3]) * 70 + dec(t[5])
        e = show(orc.get(short))
        nbig += 1
        if got != e:
            res.failures.append(Failure("violation", "LocaleInfo::get(%r + %s x %r + %r): expected %s, got %s" %
                                        (dec(t[2]).decode("latin-1"), t[4], dec(t[3]).decode("latin-1"), dec(t[5]).decode("latin-1"), pretty(e), pretty(got) if not got.startswith("!") else got[:300]),
                                        signature=l, replay={"component": "locale", "ops": [l], "class": "huge", "expected": e, "got": got}))
    big_pool.shutdown()
    res.extra["huge_strings"] = nbig
    res.rule += "; + %d strings of 2^31+5 … 2^32+3 bytes (a table key followed or preceded by that many fill bytes)" % nbig

    # model vs oracle
    if model is not None:
        bad = [i for i, (e, m) in enumerate(zip(exp, model)) if e != m]
        res.extra["model_mismatches"] = len(bad)
        for i in bad[:3]:
            res.failures.append(Failure("drift", "Lean model disagrees with the oracle on %r: expected %s, model %s" % (cases[i].decode("latin-1"), pretty(exp[i]), pretty(model[i])),
                                        replay={"correspondence": "locale model vs oracle", "ops": [lines[i]], "expected": exp[i], "model": model[i]}))
    return res


def pretty(line):
    """hex fields -> readable text (for messages only)"""
    def dec(h):
        if h == "-":
            return "''"
        try:
            return repr(bytes.fromhex(h).decode("utf-8", "replace"))
        except ValueError:
            return h
    parts = line.split(" | ")
    if len(parts) != 5:
        return line
    return " | ".join([dec(parts[0]), ",".join(dec(x) for x in parts[1].split(",")), dec(parts[2]), dec(parts[3]), parts[4]])


def replay(prop, spec, path):
    data = json.load(open(path))
    ops = data.get("replay", {}).get("ops") or data.get("ops")
    if not ops:
        print(json.dumps(data, indent=1))
        return 0
    binary = build()
    if binary is None:
        print("harness does not compile")
        return 2
    lang, ctry = parse_tables_independently(lib.REPO)
    orc = Oracle(lang, ctry)
    bad = False
    for l in ops:
        if l.split()[1] == "par":
            o, _ = run_impl(binary, [l], max_aborts=1)
            print("four concurrent callers of LocaleInfo::get: %s" % o[0])
            bad = bad or o[0] != "ok"
            continue
        if l.split()[1] == "getbig":
            t = l.split()
            dec = lambda h: b"" if h == "-" else bytes.fromhex(h)
            e = show(orc.get(dec(t[2]) + dec(t[3]) * 70 + dec(t[5])))
            o = run_big(binary, l)
            print("input   %r + %s x %r + %r" % (dec(t[2]), t[4], dec(t[3]), dec(t[5])))
            print("oracle  %s" % pretty(e))
            print("impl    %s%s" % (pretty(o) if not o.startswith("!") else o, "" if o == e else "    <-- differs"))
            bad = bad or o != e
            continue
        static = l.split()[1] == "static"
        out, rc, err = run_bin(binary, [l], symbolize=True)
        o = out[0] if out else "!ABORT rc=%d %s" % (rc, seqtie.summarize_err(err))
        if static:
            print("(get called during static initialisation of a translation unit linked before LocaleInfo.cpp)")
            h, o = o.split(" => ", 1) if " => " in o else ("-", o)
            l = "loc get " + h
        else:
            h = l.split()[2]
        s = bytes.fromhex(h) if h != "-" else b""
        e = show(orc.get(s))
        m = lib.run_driver([l, "loc orig " + h])[0]
        print("input   %r (%d bytes)" % (s.decode("latin-1"), len(s)))
        print("oracle  %s" % pretty(e))
        print("impl    %s%s" % (pretty(o), "" if o == e else "    <-- differs"))
        print("model   %s   (model of the code as found: %s)" % (pretty(m[0]), pretty(m[1])))
        if o != e:
            bad = True
            sys.stdout.write("\n".join(x for x in err.split("\n")[:25] if "Couldn't find" not in x and "Falling back" not in x) + "\n")
    if bad:
        print("VIOLATION property=%s replay=%s" % (prop, path))
    return 1 if bad else 0
