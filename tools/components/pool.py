"""C07 / C08: tulz::ThreadPool (+ tulz::Thread) under the controlled scheduler, lock-step against the Lean model
(Tulz/Model/Pool.lean, namespace TPool), with direct trace monitors for every clause of the two properties.
Second part of every run (components/poolx.py): the same pool WITH expiring workers and update() under a virtual clock
(harness/pool/poolx_harness.cpp), lock-step against Tulz/Model/PoolX.lean (namespace TPoolX, theorems C07X_* / C08X_*)."""
import json
import os
import threading

import lib
import schedtie
from lib import Failure, TieResult
from components import poolx

HARNESS = "harness/pool/pool_harness.cpp"
REPO_SRC = ["src/threading/ThreadPool.cpp", "src/threading/Thread.cpp", "src/threading/Runnable.cpp"]

TB = [
    "modelled, not verified: pthread mutex / condition-variable semantics (atomic release-and-block in wait, no lost notification under the mutex, notify_one wakes one and notify_all every thread blocked at that moment, join returns after the thread function returned); spurious wake-ups are allowed in every safety theorem and in C08_stop_measure / C08_stop_returns, excluded only in the global termination measure (C07_every_run_finishes, C08_restart)",
    "execution model: sequentially consistent interleaving of m_queueMutex / m_poolMutex critical sections, notifications, joins, task-body ends and deletes (justified by data-race freedom, C15; in particular m_isRunning is accessed under m_queueMutex by stop() and the workers in the REPAIRED code, and by start() only while no worker exists or without changing it)",
    "hand transcription of ThreadPool.cpp / Thread.cpp into 16 step kinds; std::list as a FIFO list; `delete` as an event; the spawn condition `getActiveThreadCount() == getThreadCount()` is dropped because it is invariantly true for non-expiring workers (every pool thread is unfinished while the pool is running)",
    "the number of worker threads ever created and the task ids are unbounded Nat",
    "the tie is by exploration: controlled-scheduler executions of the real ThreadPool.cpp are replayed step by step on the model (every critical section, notification, join and task event must match)",
    "expiring workers / update() (theorems *X, model Tulz/Model/PoolX.lean, 24 step kinds + spurious wake-up + clock tick at any moment): the CLOCK is modelled, not verified — "
    "a natural number of milliseconds that never decreases, read once per evaluation of the wait predicate atomically with the worker's m_queueMutex critical section, once at thread "
    "creation and once when a task body returns; `time() - last > timeout` is written `timeout + last < now` (no int64 overflow). In the harness std::chrono::system_clock is token-remapped to a "
    "virtual clock that only the owner script advances (`t<ms>`, while holding m_queueMutex so that clock reads and advances are ordered like the critical sections): real-time behaviour of "
    "system_clock (jumps backwards, resolution) is outside the tie. Thread::m_isFinished is a separate step (`exited` -> `finished`); join returns only after it (std::thread::join modelled)",
    "expiring workers: the *X theorems are safety theorems (bound, ownership, quiescent state after stop(), progress inside stop()); the liveness results (every run finite, restart runs the task) remain those of the non-expiring model",
]
ASSUME = ["C07_*/C08_* (model TPool): non-expiring workers (setExpiryTimeout(-1)), update() is not called, max >= 1; "
          "C07X_*/C08X_* (model TPoolX): any expiry timeout (negative = none), update() and clock ticks anywhere, max >= 0",
          "one owner thread issues start/clear/stop/update and the getters; tasks do not call the pool",
          "task bodies terminate", "the owner submits distinct task objects", "max and the expiry timeout are constant during a run",
          "fair scheduler for liveness", "the clock never goes backwards"]

PROPS = {
    "C07": {
        "design_ref": "6.5/C07",
        "lean_modules": ["Tulz.Props.C07", "Tulz.Props.C08X"],
        "theorems": ["TPoolX.C07X_ownership", "TPoolX.xstep?_sound", "TPool.C07_run_at_most_once", "TPool.C07_destroy_at_most_once", "TPool.C07_owned", "TPool.C07_destroy_after_run",
                     "TPool.C07_fifo", "TPool.C07_single_worker", "TPool.C07_no_run_after_stop", "TPool.C07_progress",
                     "TPool.C07_quiescent", "TPool.C07_every_run_finishes", "TPool.xstep?_sound", "TPool.xstep?_complete"],
        "technique": "Lean 4 inductive-invariant proofs over a transition system (owner program of start/clear/stop incl. restart, any max >= 1, any number of tasks, every interleaving, critical-section granularity) + strictly decreasing measure + lock-step replay of controlled-scheduler executions of the real ThreadPool.cpp on the model",
        "level_text": "Machine-checked proof, for every owner program of start/clear/stop operations on distinct tasks, every max >= 1 and every interleaving (spurious wake-ups included), that every submitted task is in exactly one place (queued / in one worker's hands / destroyed), is run at most once and destroyed at most once, never before or during its run; tasks are dequeued in submission order and with max = 1 only one worker is alive; nothing starts after stop() returned until the next start; a queued task always has an enabled step that leads to it (no lost task); every run is finite (natural-number measure) and in a state with no enabled step every task has been destroyed exactly once and every task not dropped by a clear()/stop() was run exactly once. The model is tied to ThreadPool.cpp by replaying every scheduler-observed critical section / notification / join / task event of the real code on the executable step function (proved sound and complete for the step relation) and by direct trace monitors of every clause on the same executions (plus ASan for use of a deleted task).",
        "level_note": "Trusted: Lean kernel; transcription of ThreadPool.cpp at critical-section granularity (repaired stop()); pthread semantics; DRF (C15); schedule exploration only validates the tie (corpus + DFS with bounded preemptions on small scripts + seeded random schedules). Expiring workers and update(): the safety part (each task in exactly one place, at most one run, destroyed after its run or dropped) is proved on the extended model TPoolX (C07X_ownership) and tied by the same lock-step replay with a virtual clock; FIFO/progress/termination theorems are for non-expiring workers.",
        "trusted_base": TB, "assumptions": ASSUME,
    },
    "C08": {
        "design_ref": "6.5/C08",
        "lean_modules": ["Tulz.Props.C08", "Tulz.Props.C08X"],
        "theorems": ["TPoolX.C08X_pool_bounded", "TPoolX.C08X_stop_quiescent", "TPoolX.C08X_stop_progress", "TPoolX.C08X_stop_measure", "TPoolX.C08X_stop_returns", "TPoolX.C07X_ownership", "TPoolX.xstep?_sound", "TPool.C08_max", "TPool.C08_stop_progress", "TPool.C08_stop_measure", "TPool.C08_stop_returns", "TPool.C08_after_stop",
                     "TPool.C08_stopped_state", "TPool.C08_restart", "TPool.xstep?_sound", "TPool.xstep?_complete"],
        "technique": "Lean 4 inductive invariant (flag write and predicate evaluation exclude each other => nobody parked un-notified once stop() has notified) + progress + strictly decreasing measure inside stop() + restart lemma, any program / max / interleaving; lock-step replay and deadlock detection on the real code, whose cv.wait entry point is exactly the evaluated-but-not-blocked window",
        "level_text": "Machine-checked proof that the pool never holds more than max threads and every live worker is in the pool; that while the owner is inside stop() some step is always enabled and every step of any thread (spurious wake-ups included) strictly decreases a natural-number measure, so stop() returns in every fair interleaving whatever the workers were doing (idle, evaluated the predicate but not yet blocked, waking up, running a task); that on return the pool is empty, every worker thread has exited (no task running), the queue is empty and every task still queued was destroyed, and that this persists until the next start; and that a start after a stop spawns a fresh worker that can take the task at once, with every run finite and the task run exactly once unless a later clear()/stop() drops it. Tied to ThreadPool.cpp by lock-step replay, the scheduler's deadlock detector around stop() and trace monitors (getThreadCount() == 0, no task event after stop, all spawned threads exited and joined, live workers <= max, restart spawns).",
        "level_note": "Trusted: as C07. With expiring workers and update() (model TPoolX, virtual clock): pool.length <= max, every thread outside the pool has completed, stop() leaves pool = [] / every worker ever created completed / queue empty / every submitted task destroyed, stop() always has an enabled step and every step inside stop() decreases a measure, so stop() returns in every interleaving (C08X_*); the restart liveness is proved for non-expiring workers only. The theorems are about the REPAIRED stop() (finding F6: flag written under m_queueMutex); the unrepaired code deadlocks in the window the scheduler exposes.",
        "trusted_base": TB, "assumptions": ASSUME,
    },
}


# ------------------------------------------------------------------ scripts

def parse_cfg(cfg):
    mx, ops = cfg.split(":")
    return int(mx), ops.split(",")


def model_prog(cfg):
    """owner program for the model: sN | c | x (the scheduler-level wait `w` is not an operation of the pool)"""
    mx, ops = parse_cfg(cfg)
    out = []
    n = 0
    for o in ops:
        if o in ("s", "f", "g", "l"):
            n += 1
            out.append("s%d" % n)
        elif o in ("c", "x"):
            out.append(o)
    return mx, ",".join(out)


def gen_cfg(rng, tier):
    mx = 1 + rng.below(3)
    ops = []
    budget = 2 + rng.below(5 if tier == "quick" else 8)
    style = rng.below(4)
    for _ in range(budget):
        r = rng.below(20)
        if r < 11 or not ops:
            ops.append(rng.pick("sssfgl") if style != 0 else "s")
        elif r < 13:
            ops.append("c")
        elif r < 16:
            ops.append("w")
        elif r < 19:
            if rng.chance(1, 2):
                ops.append("w")
            ops.append("x")
        else:
            ops.append("x")
            ops.append("x")
    if rng.chance(1, 2):
        ops.append("w")
    ops.append("x")
    if rng.chance(1, 12):
        # the boundary configuration: no worker may ever be created, every task stays queued until clear()/stop() destroys it
        mx = 0
        ops = [o for o in ops if o != "w"]
    return "%d:%s" % (mx, ",".join(ops))


DFS_QUICK = ["0:s,f,x,s,x", "1:s,x", "1:s,s,x", "2:s,s,x", "1:s,w,x", "1:s,x,s,w,x", "2:s,c,s,x", "2:f,g,w,x"]
DFS_THOROUGH = DFS_QUICK + ["3:s,s,s,x", "2:s,s,w,x,s,x", "1:s,s,c,w,x", "2:s,x,x,s,s,w,x", "1:s,f,g,x", "3:s,c,x,f,w,x", "2:s,s,s,c,s,w,x"]


# ------------------------------------------------------------------ fault injection: the system refuses a worker thread

# `S` = a start() during which std::thread's constructor throws (std::system_error); the owner catches it and carries on.  These
# executions are outside the transition system (no such step there): they are judged by `fault_monitor` alone.
FAULT_SCRIPTS = ["1:S,x", "2:s,S,x", "1:S,s,w,x", "2:s,S,s,w,x", "2:S,S,x", "1:s,w,S,x", "3:s,s,S,x,s,w,x", "2:S,x,s,w,x"]


def fault_monitor(run):
    """C07/C08 after a failed thread creation: stop() still returns and leaves an empty pool, every submitted task is destroyed
    exactly once (none twice, none while it runs), none runs twice or after the final stop()"""
    msgs = []
    if run.status != "ok":
        msgs.append("execution ended with `%s`%s" % (run.status, (": " + lib.err_summary(run.stderr)) if run.stderr else ""))
    ev = parse(run)
    submitted, destroyed, began, running = [], [], [], set()
    last_stop = None
    for i, t in enumerate(ev):
        if t[0] == "submit":
            submitted.append(t[1])
        elif t[0] == "runBegin":
            if t[1] in began:
                msgs.append("task %s run twice" % t[1])
            if t[1] in destroyed:
                msgs.append("task %s run after it was destroyed" % t[1])
            began.append(t[1])
            running.add(t[1])
        elif t[0] == "runEnd":
            running.discard(t[1])
        elif t[0] == "destroy":
            if t[1] in destroyed:
                msgs.append("task %s destroyed twice" % t[1])
            if t[1] in running:
                msgs.append("task %s destroyed while it runs" % t[1])
            destroyed.append(t[1])
        elif t[0] == "stopReturned":
            last_stop = i
            if running:
                msgs.append("stop() returned while task(s) %s still run" % sorted(running))
        elif t[0] == "threadCount" and i >= 2 and ev[i - 2][0] == "stopReturned" and t[1] != "0":
            msgs.append("getThreadCount() = %s after stop() returned" % t[1])
    if run.status == "ok":
        left = [x for x in submitted if x not in destroyed]
        if left:
            msgs.append("task(s) %s never destroyed although the script ended with stop()" % left)
        if last_stop is not None and any(t[0] in ("runBegin",) for t in ev[last_stop:]):
            msgs.append("a task started after the final stop() had returned")
    return msgs


def batch(binary, lines, **kw):
    """schedtie.run_batch, plus a work-around: when the harness process exits right after a run's `end deadlock`
    line, run_batch marks the *next* (never started) run as `abort`; such phantom runs are executed again."""
    runs = schedtie.run_batch(binary, lines, **kw)
    for i, r in enumerate(runs):
        if r.status == "abort" and not r.events and not r.points:
            runs[i] = schedtie.run_batch(binary, [lines[i]])[0]
    return runs


def dfs(binary, mk_line, budget, preempt_bound):
    """schedtie.dfs on top of `batch` (stateless breadth-first exploration of schedules with a preemption bound)"""
    seen = set()
    frontier = [()]
    all_runs = []
    complete = True
    while frontier:
        if len(all_runs) + len(frontier) > budget:
            frontier = frontier[:max(0, budget - len(all_runs))]
            complete = False
            if not frontier:
                break
        runs = batch(binary, [mk_line(list(p)) for p in frontier])
        nxt = []
        for pref, r in zip(frontier, runs):
            all_runs.append(r)
            ch = r.choices()
            for idx in range(len(pref), len(r.points)):
                chosen, en = r.points[idx]
                for alt in en:
                    if alt == chosen:
                        continue
                    cand = tuple(ch[:idx]) + (alt,)
                    if cand in seen:
                        continue
                    if schedtie.preemptions(r.points[:idx] + [(alt, en)]) > preempt_bound:
                        continue
                    seen.add(cand)
                    nxt.append(cand)
        frontier = nxt
    return all_runs, complete


def explicit_line(cfg, choices):
    return "run %s sched %s pts" % (cfg, " ".join(map(str, choices)))


def cfg_of(run):
    return run.line.split()[1]


# ------------------------------------------------------------------ trace analysis

def parse(run):
    return [l.split() for l in run.events if not l.startswith("pw ")]


def canonical_steps(events):
    """driver lines: one per completed critical section / notification / join / task event / owner observation.
    A notification issued inside a critical section is reported right after that section's line.
    Scheduler thread ids: 0 = owner, k >= 1 = the (k-1)-th worker thread ever spawned (= model worker index)."""
    out = []
    held = {}           # thread -> set of mutexes
    deferred = {}
    qds = None          # tasks destroyed by the owner inside the current queue critical section
    spawned = None
    in_p = False

    def flush(t):
        for d in deferred.pop(t, []):
            out.append(d)

    for t in events:
        k = t[0]
        if k == "lock":
            held.setdefault(t[1], set()).add(t[2])
            if t[1] == "0" and t[2] == "m0":
                qds = []
            elif t[1] == "0" and t[2] == "m1":
                in_p, spawned = True, None
            elif t[1] != "0" and t[2] != "m0":
                out.append("pool bad worker-locks-" + t[2])
        elif k == "unlock":
            held.setdefault(t[1], set()).discard(t[2])
            if t[1] == "0" and t[2] == "m0":
                out.append("pool ocs q" + "".join(" " + d for d in (qds or [])))
                qds = None
            elif t[1] == "0" and t[2] == "m1":
                if spawned is None:
                    out.append("pool ocs p")
                in_p = False
            elif t[1] != "0" and t[2] == "m0":
                out.append("pool wcs %d" % (int(t[1]) - 1))
            if not held.get(t[1]):
                flush(t[1])
        elif k == "park":
            held.setdefault(t[1], set()).discard("m0")
            if t[1] == "0":
                out.append("pool bad owner-parks")
            else:
                out.append("pool wpark %d" % (int(t[1]) - 1))
            flush(t[1])
        elif k == "notify":
            if t[1] != "0":
                line = "pool bad worker-notifies"
            else:
                line = "pool onotify " + t[3] + "".join(" %d" % (int(x) - 1) for x in t[4:])
            if held.get(t[1]):
                deferred.setdefault(t[1], []).append(line)
            else:
                out.append(line)
        elif k == "spawn":
            if in_p and spawned is None:
                # m_poolMutex is only ever taken by the owner, so where it is released is not observable by the workers,
                # while the new thread may run before the owner releases it: the section is reported at the spawn
                spawned = int(t[2]) - 1
                out.append("pool ocs p spawn %d" % spawned)
            else:
                out.append("pool bad spawn-outside-pool-section")
        elif k == "joined":
            out.append("pool joined %d" % (int(t[2]) - 1))
        elif k == "exit":
            out.append("pool exit %d" % (int(t[1]) - 1))
        elif k == "submit":
            out.append("pool submit " + t[1])
        elif k in ("runBegin", "runEnd"):
            out.append("pool %s %s %d" % (k, t[1], int(t[2]) - 1))
        elif k == "destroy":
            if t[2] == "0":
                if qds is not None:
                    qds.append(t[1])
                else:
                    out.append("pool odestroy " + t[1])
            else:
                out.append("pool destroy %s %d" % (t[1], int(t[2]) - 1))
        elif k == "stopReturned":
            out.append("pool stopReturned")
        elif k == "threadCount":
            out.append("pool threadCount " + t[1])
    return out


def first_line(err, needle):
    for x in err.split("\n"):
        if needle in x:
            return x.strip()[:220]
    return err.strip().split("\n")[-1][:220] if err.strip() else ""


def monitor(prop, cfg, run):
    """direct statement of the property on the observed trace; every message is a definite violation"""
    ev = parse(run)
    mx, ops = parse_cfg(cfg)
    msgs = []
    idx = {}            # task -> {submit, runBegin:[…], runEnd:[…], destroy:[(i, thread)]}
    def rec(t):
        return idx.setdefault(t, {"submit": None, "rb": [], "re": [], "de": []})
    ops_at = []         # (index, name) of `op …` events
    for i, t in enumerate(ev):
        if t[0] == "submit":
            rec(t[1])["submit"] = i
        elif t[0] == "runBegin":
            rec(t[1])["rb"].append((i, t[2]))
        elif t[0] == "runEnd":
            rec(t[1])["re"].append((i, t[2]))
        elif t[0] == "destroy":
            rec(t[1])["de"].append((i, t[2]))
        elif t[0] == "op":
            ops_at.append((i, t[1]))
    last_op = ops_at[-1][1] if ops_at else None
    finished_op = any(t[0] == "opdone" for t in ev[ops_at[-1][0]:]) if ops_at else True
    stuck = run.status in ("deadlock", "hang")
    if run.status == "leftover" and prop == "C08":
        left = [t for t in ev if t[0] == "leftover"]
        msgs.append("worker threads %s are still alive after the final stop() returned" % (left[0][1:] if left else "?"))
    if run.status == "abort":
        what = first_line(run.stderr, "ERROR: AddressSanitizer") or first_line(run.stderr, "runtime error")
        msgs.append("the real code crashed (%s)" % (what or "no diagnostic"))
    if prop == "C07":
        for t, r in sorted(idx.items(), key=lambda kv: int(kv[0])):
            if len(r["rb"]) > 1:
                msgs.append("task %s was run %d times (runBegin by threads %s)" % (t, len(r["rb"]), [w for _, w in r["rb"]]))
            if len(r["de"]) > 1:
                msgs.append("task %s was destroyed %d times" % (t, len(r["de"])))
            if r["de"]:
                d = r["de"][0][0]
                for b, w in r["rb"]:
                    if b > d:
                        msgs.append("task %s started running (event %d) after it was destroyed (event %d)" % (t, b, d))
                    else:
                        ends = [e for e, _ in r["re"] if b < e]
                        if not ends or d < ends[0]:
                            msgs.append("task %s was destroyed (event %d) while it was running (runBegin at %d, no runEnd before)" % (t, d, b))
            if run.status == "ok":
                if len(r["de"]) == 0:
                    msgs.append("task %s was never destroyed although the pool was stopped and the run ended" % t)
                if not r["rb"]:
                    # legitimate only if a clear()/stop() was issued after the submission
                    later = [n for i, n in ops_at if n in ("clear", "stop") and r["submit"] is not None and i > r["submit"]]
                    dropped_by_owner = any(w == "0" for _, w in r["de"])
                    if not later or (r["de"] and not dropped_by_owner):
                        msgs.append("task %s was never run although it was not dropped by a clear()/stop()" % t)
        if stuck and last_op == "await" and not finished_op:
            pend = [t for t, r in idx.items() if not r["de"]]
            msgs.append("lost task: the owner neither cleared nor stopped the pool, tasks %s are pending and no thread can move (%s)" %
                        (sorted(pend, key=int), " ".join(ev[-1]) if ev else ""))
        # nothing starts after stop() returned until the next start
        stopped = False
        for t in ev:
            if t[0] == "stopReturned":
                stopped = True
            elif t[0] == "op" and t[1] == "start":
                stopped = False
            elif t[0] == "runBegin" and stopped:
                msgs.append("task %s started running after stop() had returned" % t[1])
        if mx == 1:
            order = [int(t[1]) for t in ev if t[0] == "runBegin"]
            if order != sorted(order):
                msgs.append("single worker: tasks ran in order %s, not in submission order" % order)
    elif prop == "C08":
        if stuck and last_op == "stop" and not finished_op:
            msgs.append("stop() never returns: %s (%s)" % (run.status, " ".join(ev[-1]) if ev else ""))
        elif stuck and not (last_op == "await" and not finished_op):
            msgs.append("%s inside %s" % (run.status, last_op))
        live = set()
        spawned = set()
        restart_pending = False     # a stop() returned and no start() has completed since
        in_restart = False          # … and the operation in progress is that first start()
        running_now = {}
        for i, t in enumerate(ev):
            if t[0] == "spawn":
                live.add(t[2]); spawned.add(t[2])
                if len(live) > mx:
                    msgs.append("%d worker threads alive (%s) with setMaxThreadCount(%d)" % (len(live), sorted(live), mx))
            elif t[0] == "exit":
                live.discard(t[1])
            elif t[0] == "runBegin":
                running_now[t[1]] = t[2]
            elif t[0] == "runEnd":
                running_now.pop(t[1], None)
            elif t[0] == "threadCount":
                n = int(t[1])
                if n > mx:
                    msgs.append("getThreadCount() = %d with setMaxThreadCount(%d)" % (n, mx))
                if i >= 2 and ev[i - 2][0] == "stopReturned" and n != 0:
                    msgs.append("getThreadCount() = %d after stop() returned" % n)
                if in_restart:
                    # first start after a stop(): a worker must have been spawned
                    if n < 1 and mx >= 1:
                        msgs.append("start() after stop() did not spawn a worker (getThreadCount() = %d)" % n)
                    in_restart = restart_pending = False
            elif t[0] == "op" and t[1] == "start":
                in_restart = restart_pending
            elif t[0] == "stopReturned":
                if live:
                    msgs.append("stop() returned while worker threads %s have not exited" % sorted(live))
                if running_now:
                    msgs.append("stop() returned while tasks %s are running" % sorted(running_now))
                pend = [x for x, r in idx.items() if r["submit"] is not None and r["submit"] < i and not any(d < i for d, _ in r["de"])]
                if pend:
                    msgs.append("stop() returned but tasks %s (submitted before) have not been destroyed" % sorted(pend, key=int))
                restart_pending = True
        stopped = False
        for t in ev:
            if t[0] == "stopReturned":
                stopped = True
            elif t[0] == "op" and t[1] == "start":
                stopped = False
            elif t[0] in ("runBegin", "runEnd") and stopped:
                msgs.append("task event `%s` after stop() had returned and before any start()" % " ".join(t))
        if stuck and last_op == "await" and not finished_op and any(t[0] == "stopReturned" for t in ev):
            # restart: a task submitted after a stop() is never run
            after = [x for x, r in idx.items() if not r["de"]]
            msgs.append("restart does not work: tasks %s submitted after stop() are never run (%s)" % (sorted(after, key=int), run.status))
    # de-duplicate, keep order
    seen = set()
    res = []
    for m in msgs:
        if m not in seen:
            seen.add(m)
            res.append(m)
    return res


def model_check(runs):
    """lock-step replay on the Lean model; returns per run the first mismatch (or None)"""
    lines = []
    idx = []
    for r in runs:
        ev = parse(r)
        steps = canonical_steps(ev)
        mx, prog = model_prog(cfg_of(r))
        start = len(lines)
        lines.append("pool init %d %s" % (mx, prog))
        lines.extend(steps)
        if r.status == "ok":
            lines.append("pool end")
        elif r.status == "deadlock":
            lines.append("pool stuck")
        elif r.status == "leftover":
            lines.append("pool end")
        else:
            lines.append("pool status")
        idx.append((start, len(lines)))
    out, rc, err = lib.run_driver(lines)
    res = []
    for (a, b), r in zip(idx, runs):
        seg = out[a:b]
        bad = None
        if len(seg) < b - a:
            bad = "driver stopped early: " + err[-300:]
        for i, o in enumerate(seg):
            if o.startswith("MISMATCH") or o == "bad-op" or o == "bad-component":
                bad = "%s -> %s" % (lines[a + i], o)
                break
        res.append(bad)
    return res


def shrink(binary, prop, run):
    """shorter explicit schedule with the same verdict: shortest prefix of the choices that still fails
    (the default policy continues the running thread), verified by re-running"""
    cfg = cfg_of(run)
    best = run
    ch = run.choices()
    lo, hi = 0, len(ch)
    while lo < hi:
        mid = (lo + hi) // 2
        r = batch(binary, [explicit_line(cfg, ch[:mid])])[0]
        if r.status is not None and monitor(prop, cfg, r):
            hi = mid
            best = r
        else:
            lo = mid + 1
    return best


def load_corpus():
    cdir = os.path.join(lib.VERIF, "corpus", "pool")
    lines = []
    if os.path.isdir(cdir):
        for f in sorted(os.listdir(cdir)):
            if f.endswith(".json"):
                c = json.load(open(os.path.join(cdir, f)))
                lines.append(explicit_line(c["cfg"], c["schedule"]))
    return lines


def run_tie(prop, spec, tier, seed):
    res = TieResult()
    rng = lib.SplitMix(seed).fork("pool")
    # the expiring-worker harness is a second binary: compile it while the first one builds and runs (cached by content hash)
    xbuild = threading.Thread(target=poolx.build)
    xbuild.start()
    binary, out = schedtie.build("pool_harness", HARNESS, REPO_SRC)
    if binary is None:
        res.failures.append(Failure("infra", "harness does not compile against the working tree", replay={"compiler": out[-3000:]}))
        return res
    runs = []
    # 1. corpus (explicit schedules)
    runs += batch(binary, load_corpus())
    ncorpus = len(runs)
    # 2. exhaustive DFS with bounded preemptions on small scripts
    dfs_total, dfs_complete = 0, True
    cfgs = DFS_QUICK if tier == "quick" else DFS_THOROUGH
    budget = 600 if tier == "quick" else 4000
    bound = 2 if tier == "quick" else 3
    for cfg in cfgs:
        rs, complete = dfs(binary, lambda p, cfg=cfg: explicit_line(cfg, p), budget, bound)
        runs += rs
        dfs_total += len(rs)
        dfs_complete = dfs_complete and complete
    # 3. seeded random schedules of random scripts
    nrand = 4000 if tier == "quick" else 40000
    lines = []
    for i in range(nrand):
        lines.append("run %s seed %d pts" % (gen_cfg(rng, tier), rng.next() % (1 << 40)))
    runs += batch(binary, lines, max_restarts=60)

    executed = [r for r in runs if r.status is not None]
    res.evaluations = len(executed)
    res.traces = len(executed)
    distinct = set()
    stat = {"ok": 0, "deadlock": 0, "abort": 0, "hang": 0, "leftover": 0}
    opstat = {}
    feat = {"worker_parked": 0, "restart": 0, "clear_with_queued": 0, "stop_with_running_task": 0, "stop_with_queued": 0,
            "two_or_more_workers": 0, "notify_one_hit": 0, "stop_while_worker_in_window": 0, "callable_tasks": 0, "badarg": 0}
    all_steps = []
    for r in executed:
        stat[r.status] = stat.get(r.status, 0) + 1
        ev = parse(r)
        steps = canonical_steps(ev)
        all_steps.append(steps)
        mx, ops = parse_cfg(cfg_of(r))
        for o in ops:
            opstat[o] = opstat.get(o, 0) + 1
        parked = any(s.startswith("pool wpark") for s in steps)
        if parked:
            feat["worker_parked"] += 1
            distinct.add((cfg_of(r), tuple(steps)))
        if "x" in ops[:-1] and any(o in "sfgl" for o in ops[ops.index("x"):]):
            feat["restart"] += 1
        if any(s.startswith("pool ocs q ") for s in steps):
            feat["clear_with_queued"] += 1
        if sum(1 for t in ev if t[0] == "spawn") >= 2:
            feat["two_or_more_workers"] += 1
        if any(t[0] == "notify" and t[3] == "one" and len(t) > 4 for t in ev):
            feat["notify_one_hit"] += 1
        if any(o in "fg" for o in ops):
            feat["callable_tasks"] += 1
        if any(t[0] == "BADARG" for t in ev):
            feat["badarg"] += 1
        # stop() entered while a task is running / while a worker sits between predicate and block
        running, holder = set(), None
        queued = set()
        for i, t in enumerate(ev):
            if t[0] == "submit":
                queued.add(t[1])
            elif t[0] == "destroy":
                queued.discard(t[1])
            if t[0] == "runBegin":
                queued.discard(t[1])
                running.add(t[1])
            elif t[0] == "runEnd":
                running.discard(t[1])
            elif t[0] == "lock" and t[1] != "0" and t[2] == "m0":
                holder = t[1]
            elif (t[0] in ("unlock", "park")) and t[1] == holder:
                holder = None
            elif t[0] == "op" and t[1] == "stop":
                if running:
                    feat["stop_with_running_task"] += 1
                if queued:
                    feat["stop_with_queued"] += 1
                if holder is not None:
                    feat["stop_while_worker_in_window"] += 1
    res.distinct = len(distinct)
    res.rule = ("executions of the real ThreadPool.cpp/Thread.cpp under the controlled scheduler: corpus schedules (%d) + stateless DFS with <=%d preemptions "
                "over %s (%d executions, %s) + %d seeded random schedules of random owner scripts (2-%d operations over s/f/g/c/x/w, max 1-3, restarts); "
                "distinct_nontrivial = distinct (script, sequence of critical sections / notifications / joins / task events) in which at least one worker parked" %
                (ncorpus, bound, cfgs, dfs_total, "complete within the bound" if dfs_complete else "budget-limited", nrand, 7 if tier == "quick" else 10))
    res.dist = {"status": stat, "ops": opstat, "features": feat, "dfs_executions": dfs_total, "random_executions": nrand,
                "skipped_after_crashes": len(runs) - len(executed)}
    if executed:
        pick = [executed[min(len(executed) - 1, ncorpus)], executed[-1]]
        res.samples = [{"run": r.line, "status": r.status, "steps": canonical_steps(parse(r))[:60]} for r in pick]

    # monitors (direct statement of the property on the trace)
    nviol = 0
    sigs = set()
    for r in executed:
        msgs = monitor(prop, cfg_of(r), r)
        if msgs:
            nviol += 1
            key = (cfg_of(r), msgs[0].split(":")[0][:40])
            if len(sigs) < 3 and key not in sigs:
                sigs.add(key)
                small = shrink(binary, prop, r)
                sm = monitor(prop, cfg_of(small), small)
                res.failures.append(Failure("violation", "tulz::ThreadPool, script %s: %s" % (cfg_of(small), "; ".join(sm[:3])),
                                            signature="%s|%s" % (cfg_of(small), " ".join(map(str, small.choices()))),
                                            replay={"component": "pool", "cfg": cfg_of(small), "schedule": small.choices(),
                                                    "events": small.events, "status": small.status, "stderr": small.stderr[-1500:],
                                                    "monitor": sm}))
    res.extra["monitor_violations"] = nviol
    # fault injection: a worker thread that the system refuses to create
    nf = 12 if tier == "quick" else 150
    flines = ["run %s seed %d pts" % (cfg, rng.next() % (1 << 40)) for cfg in FAULT_SCRIPTS for _ in range(nf)]
    fruns = [r for r in batch(binary, flines, max_restarts=30) if r.status is not None]
    res.evaluations += len(fruns)
    res.traces += len(fruns)
    res.dist["fault_injection_executions"] = len(fruns)
    nfv = 0
    for r in fruns:
        fm = fault_monitor(r)
        if fm:
            nfv += 1
            if nfv <= 2:
                res.failures.append(Failure("violation", "tulz::ThreadPool, script %s with a refused thread creation (S): %s" % (cfg_of(r), "; ".join(fm[:3])),
                                            signature="%s|%s" % (cfg_of(r), " ".join(map(str, r.choices()))),
                                            replay={"component": "pool", "cfg": cfg_of(r), "schedule": r.choices(), "events": r.events,
                                                    "status": r.status, "stderr": r.stderr[-1500:], "monitor": fm}))
    res.extra["monitor_violations"] += nfv
    # lock-step replay on the model
    mm = model_check(executed)
    nmm = 0
    for r, bad in zip(executed, mm):
        if bad:
            nmm += 1
            if nmm <= 2:
                res.failures.append(Failure("drift", "lock-step replay: real ThreadPool and the Lean model disagree (%s): %s" % (r.line, bad),
                                            replay={"correspondence": "pool lock-step replay", "run": r.line, "schedule": r.choices(), "events": r.events,
                                                    "mismatch": bad}))
    res.extra["model_mismatches"] = nmm
    # expiring workers + update() under a virtual clock (model TPoolX)
    xbuild.join()
    xr = poolx.run(prop, tier, rng.fork("poolx"), res, batch, dfs)
    if xr is not None:
        res.evaluations += xr["executed"]
        res.traces += xr["executed"]
        res.distinct += xr["distinct"]
        res.rule += ("; PLUS expiring workers: the real ThreadPool.cpp with setExpiryTimeout(T), update() and a virtual clock (harness/pool/poolx_harness.cpp): DFS with <=%d preemptions over %s "
                     "(%d executions, %s) + %d seeded random schedules of random scripts over s/f/g/l/c/x/w/u/t<ms>/z with max 0-3 and timeout in {-1,0,3,5,10} "
                     "(shapes: idle past the timeout -> update() wakes -> worker retires -> update() reaps or stop() before the reap -> restart with >= max submissions; clock advances between submissions; "
                     "expiry with a non-empty queue; update() with a negative timeout), each replayed lock-step on TPoolX.xstep?; distinct_nontrivial adds the distinct (script, step sequence) in which a worker expired" %
                     (xr["dfs_bound"], xr["dfs_cfgs"], xr["dfs_executions"], "complete within the bound" if xr["dfs_complete"] else "budget-limited", xr["random_executions"]))
        res.dist["expiry"] = {k: xr[k] for k in ("status", "ops", "features", "dfs_executions", "random_executions", "skipped_after_crashes")}
        if xr["sample"]:
            res.samples = res.samples[:2] + [xr["sample"]]
        res.extra["monitor_violations"] += xr["monitor_violations"]
        res.extra["model_mismatches"] += xr["model_mismatches"]
    return res


def replay(prop, spec, path):
    data = json.load(open(path))
    rp = data.get("replay", data)
    if "cfg" not in rp:
        print(json.dumps(data, indent=1)[:4000])
        return 0
    if rp.get("harness") == "poolx":
        rc = poolx.replay(prop, rp)
        if rc == 1:
            print("VIOLATION property=%s replay=%s" % (prop, path))
        return rc
    binary, out = schedtie.build("pool_harness", HARNESS, REPO_SRC)
    if binary is None:
        print(out[-3000:])
        return 2
    r = batch(binary, [explicit_line(rp["cfg"], rp["schedule"])])[0]
    for e in r.events:
        print(e)
    print("end", r.status)
    if r.stderr:
        print(r.stderr[-1500:])
    if "S" in parse_cfg(rp["cfg"])[1]:
        msgs, bad = fault_monitor(r), None          # fault-injection scripts are judged by their own monitor
    else:
        msgs = monitor(prop, rp["cfg"], r)
        bad = model_check([r])[0]
    if bad:
        print("model replay:", bad)
    for m in msgs:
        print("MONITOR:", m)
    if msgs:
        print("VIOLATION property=%s replay=%s" % (prop, path))
    return 1 if msgs else 0
