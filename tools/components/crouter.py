"""C11: ConcurrentSubjectRouter operations are atomic with respect to each other.

Legs: (P) Lean composition Rwp x abstract router state with the lock kinds taken from a table GENERATED from
ConcurrentSubjectRouter.h on every run (translator tools/translators/router_locks.py); (T) the real
ConcurrentSubjectRouter + real Resource under the controlled scheduler, its lock traffic replayed lock-step on the
Rwp model with the generated kinds; (S) a direct linearizability monitor on the observed operations."""
import json
import os
import sys

import lib
import schedtie
from lib import Failure, TieResult
from components import rwp as rwpmod

sys.path.insert(0, os.path.join(lib.VERIF, "tools", "translators"))
import router_locks  # noqa: E402

HARNESS = "harness/crouter/crouter_harness.cpp"
REPO_SRC = ["src/threading/rwp/Resource.cpp", "src/observer/routing/SubjectRouter.cpp", "src/observer/routing/RoutingKey.cpp",
            "src/observer/routing/RoutingKeyBuilder.cpp", "src/observer/routing/RoutingLevelView.cpp"]
GENERATED = os.path.join(lib.LEAN_DIR, "Tulz", "Generated", "RouterLocks.lean")

PROPS = {
    "C11": {
        "design_ref": "6.4/C11",
        "lean_modules": ["Tulz.Props.C11", "Tulz.Props.C11C06"],
        "theorems": ["Rwp.C11_table_ok", "Rwp.C11_stable_under_read", "Rwp.C11_notify_atomic", "Rwp.C11_mutation_exclusive",
                     "Rwp.C11_after_unsubscribe", "Rwp.C11_for_this_code", "Rwp.C11_read_lock_is_not_enough", "Rwp.C01_exclusion",
                     "Rwp.C11_concurrent_notify_is_C06", "Rwp.CReach.pres"],
        "technique": "Lean 4 invariant proof over the composition (proved rwp lock model) x (abstract router state) with the per-operation lock kinds regenerated from ConcurrentSubjectRouter.h by a translator; lock-step replay + linearizability monitor on the real code under the controlled scheduler",
        "level_text": "Machine-checked proof, for any number of threads and every interleaving, that while a thread holds the read lock the router state equals the state at the instant its request was granted, that everything one notify/exists/depth reads is the state of that one instant, that a subscribe/unsubscribe/shrink body takes effect only when no other thread is inside any router operation (from C01), and that once the current state excludes an observer no delivery in progress or later sees it. Composed with the concrete router model of C06 (C11_concurrent_notify_is_C06): every state a notify under the read lock looks at yields exactly the C06 delivery on the snapshot taken when its lock was granted. The premise 'every operation runs under a named guard, mutating ones under the write lock' is a kernel-decided fact about a table regenerated from ConcurrentSubjectRouter.h on every run; the theorem C11_read_lock_is_not_enough shows the premise is necessary. The real router is run under the controlled scheduler: its Resource traffic is replayed lock-step on the Rwp model with the generated kinds, and a brute-force linearizability monitor compares every notify's delivered observers with a sequential reference router.",
        "level_note": "Trusted: Lean kernel; C01's trusted base; the lexical translator (named guard on m_resource before the first use of m_router, outermost block); the router is abstract in the theorems (its sequential behaviour is C06/C13); programs of the statement only (callbacks do not call back into the router, no observer invalidation from other threads).",
        "trusted_base": rwpmod.TB + ["translator tools/translators/router_locks.py (lexical: first named rwp::ReadLock/WriteLock on m_resource in the outermost block before m_router is used; anything else is none/temporary/unknown and fails the obligation)",
                                      "the router state is abstract in the theorems; lazy removal of invalidated observers inside notify (a mutation under the read lock) is outside the statement's programs"],
        "assumptions": ["callbacks do not call back into the router", "no observer invalidation while other threads use the router"],
    },
}


def translate(prop, spec):
    table = router_locks.translate(lib.REPO, GENERATED)
    return {"translator": "tools/translators/router_locks.py", "table": [{"op": n, "guard": k, "why": w} for n, k, w in table]}


def lock_kinds():
    t = {n: k for n, k, _ in router_locks.translate(lib.REPO, GENERATED)}
    m = {"N": t["notify"], "S": t["subscribe"], "U": t["unsubscribe"], "K": t["shrink"], "E": t["exists_"], "D": t["depth"]}
    return m


# ------------------------------------------------------------------ configurations

KEYS = ["a/b", "a/c", "b", "a/b/c"]
PATTERNS = ["a/b", "a/*", "*/*", "b", "*", "a/c", "a/b/c", "a/*/c"]


def gen_config(rng, tier):
    ninit = rng.below(3)
    init = ";".join(rng.pick(KEYS) for _ in range(ninit)) if ninit else "-"
    nth = 2 + rng.below(2 if tier == "quick" else 3)
    many = rng.chance(2, 5)
    if many:
        nth = 4 + rng.below(2)          # queue layouts such as holder, reader, writer, reader need 4-5 threads
    threads = []
    for t in range(nth):
        nops = 1 + rng.below(2 if many else 3)
        ops = []
        nsub = 0
        for _ in range(nops):
            k = rng.below(100)
            if k < 40:
                # one notify in five is issued from inside a callback of a second, unrelated router (op X)
                ops.append(("X" if rng.chance(1, 5) else "N") + rng.pick(PATTERNS))
            elif k < 65:
                ops.append("S" + rng.pick(KEYS))
                nsub += 1
            elif k < 80 and nsub:
                ops.append("U%d" % rng.below(nsub))
            elif k < 88:
                ops.append("K" + rng.pick(PATTERNS))
            elif k < 95:
                ops.append("E" + rng.pick(KEYS))
            else:
                ops.append("D")
        threads.append(":".join(ops))
    return init + "|" + ",".join(threads)


def gen_crowd(rng):
    """one slow delivery (thread 1) with 30-37 mutating operations queued behind it: queue lengths around 32 entries inside the Resource"""
    n = rng.pick([30, 31, 32, 33, 34, 35, 36, 37])
    threads = ["N" + rng.pick(["a/*", "a/b", "*/*"])]
    for _ in range(n):
        first = rng.pick(["S" + rng.pick(KEYS), "K" + rng.pick(PATTERNS)])
        ops = [first]
        if first[0] == "S" and rng.chance(1, 3):
            ops.append("U0")
        elif rng.chance(1, 4):
            ops.append("N" + rng.pick(PATTERNS))
        threads.append(":".join(ops))
    return "!a/b|" + ",".join(threads)


DFS_CONFIGS = ["a/b|Na/*,Sa/c", "a/b|Na/*:Na/b,Sa/c:U0", "a/b;a/c|Xa/*,Sa/c:U0,Ka/*", "a/b;a/c|Na/*,Ka/*,Sa/b", "-|Sa/b:U0,Na/b:Na/b",
               "a/b|Na/*,Sa/b:Sa/c", "-|Sa/b:Sa/c:U0:U1,Na/*:Na/*", "a/b|Na/*,Sa/c,Na/*,Sa/b,Na/*"]


# ------------------------------------------------------------------ trace analysis

def match(pattern, key):
    p, k = pattern.split("/"), key.split("/")
    return len(p) == len(k) and all(a == "*" or a == b for a, b in zip(p, k))


def ops_of(run):
    ops = {}
    order = []
    for i, l in enumerate(run.events):
        t = l.split()
        if t[0] == "op":
            o = {"t": int(t[1]), "idx": int(t[2]), "text": t[3], "call": i, "ret": None, "res": None, "cbs": []}
            ops[(o["t"], o["idx"])] = o
            order.append(o)
        elif t[0] == "opret":
            o = ops.get((int(t[1]), int(t[2])))
            if o:
                o["ret"] = i
                o["res"] = t[3] if len(t) > 3 else ""
        elif t[0] == "cb":
            th = int(t[1])
            cur = [o for o in order if o["t"] == th and o["ret"] is None]
            if cur:
                cur[-1]["cbs"].append(int(t[2]))
    return order


def linearizable(ops):
    """is there a total order of the completed operations, consistent with real time, in which every notify delivers
    exactly the observers the sequential reference router would?  Brute force with pruning (<= ~10 ops)."""
    done = [o for o in ops if o["ret"] is not None]
    pending = [o for o in ops if o["ret"] is None]
    allops = done + pending          # a pending op (crash/deadlock) may or may not have taken effect: only completed ones are checked
    n = len(done)
    subs_of_thread = {}

    def apply(state, o, sub_lists):
        k = o["text"][0]
        arg = o["text"][1:]
        if k == "S":
            obs = int(o["res"])
            state = dict(state)
            state[arg] = state.get(arg, ()) + (obs,)
            sub_lists = dict(sub_lists)
            sub_lists[o["t"]] = sub_lists.get(o["t"], ()) + (obs,)
            return state, sub_lists, True
        if k == "U":
            if o["res"] != "ok":
                return state, sub_lists, True
            mine = sub_lists.get(o["t"], ())
            idx = int(arg)
            if idx >= len(mine):
                return state, sub_lists, False
            obs = mine[idx]
            state = {kk: tuple(x for x in v if x != obs) for kk, v in state.items()}
            return state, sub_lists, True
        if k == "N":
            exp = sorted(x for kk, v in state.items() if match(arg, kk) for x in v)
            return state, sub_lists, exp == sorted(o["cbs"])
        return state, sub_lists, True

    # program order inside a thread is part of real-time order
    def preds(o):
        return [p for p in done if p is not o and p["ret"] < o["call"]]

    pred = {id(o): preds(o) for o in done}
    seen = set()

    def dfs(state, sub_lists, placed):
        if len(placed) == n:
            return True
        key = (tuple(sorted(state.items())), tuple(sorted(sub_lists.items())), frozenset(placed))
        if key in seen:
            return False
        seen.add(key)
        for o in done:
            if id(o) in placed:
                continue
            if any(id(p) not in placed for p in pred[id(o)]):
                continue
            st2, sl2, ok = apply(state, o, sub_lists)
            if ok and dfs(st2, sl2, placed | {id(o)}):
                return True
        return False

    return dfs({}, {}, frozenset())


def monitor(run):
    msgs = []
    ops = ops_of(run)
    if run.status in ("deadlock", "hang"):
        msgs.append("router operations deadlocked: " + (run.events[-1] if run.events else ""))
    if run.status == "abort":
        msgs.append("aborted: " + lib.err_summary(run.stderr))
    # an observer is never invoked after its unsubscribe() has returned
    unsub_ret = {}
    subs = {}
    for o in ops:
        if o["text"][0] == "S" and o["res"] is not None:
            subs.setdefault(o["t"], []).append(int(o["res"]))
    cnt = {}
    for o in ops:
        if o["text"][0] == "S":
            cnt[o["t"]] = cnt.get(o["t"], 0) + 1
        if o["text"][0] == "U" and o["res"] == "ok":
            mine = subs.get(o["t"], [])
            k = int(o["text"][1:])
            if k < len(mine):
                unsub_ret[mine[k]] = o["ret"]
    for i, l in enumerate(run.events):
        t = l.split()
        if t[0] == "cb" and int(t[2]) in unsub_ret and i > unsub_ret[int(t[2])]:
            msgs.append("observer %s was invoked (event %d) after its unsubscribe() had returned (event %d)" % (t[2], i, unsub_ret[int(t[2])]))
    # crowd executions (30+ mutually concurrent operations) are beyond the brute-force order search: they are judged by the rules above
    # and by the lock-step replay
    if run.status == "ok" and not run.line.split()[1].startswith("!") and not linearizable(ops):
        msgs.append("no sequential order of the operations (consistent with their call/return times) explains the observers each notify delivered to: "
                    + "; ".join("%d.%d %s -> %s" % (o["t"], o["idx"], o["text"], o["cbs"] if o["text"][0] == "N" else o["res"]) for o in ops))
    return msgs


def rwp_lines(run, kinds):
    """translate the run into the rwp driver's lock-step lines (programs derived from the executed operations)"""
    ops = ops_of(run)
    executed = [o for o in ops if not (o["text"][0] == "U" and o["res"] == "skipped")]
    nthreads = 1 + max([o["t"] for o in ops] + [0])
    progs = [""] * nthreads
    callk = {}
    for o in executed:
        g = kinds[o["text"][0]]
        k = "R" if g == "read" else "W" if g == "write" else None
        if k is None:
            continue        # an operation that takes no lock produces no lock traffic
        progs[o["t"]] += k
        callk[o["call"]] = (o["t"], k)
    events = []
    for i, l in enumerate(run.events):
        t = l.split()
        if i in callk:
            events.append(["call", str(callk[i][0]), callk[i][1]])
        if t[0] in ("lock", "unlock", "park", "notify"):
            events.append(t)
    lines = ["rwp init " + ",".join(progs)] + rwpmod.canonical_steps(events)
    lines.append("rwp end" if run.status == "ok" else "rwp status")
    return lines


def model_check(runs, kinds):
    lines, idx = [], []
    for r in runs:
        ls = rwp_lines(r, kinds)
        idx.append((len(lines), len(lines) + len(ls)))
        lines.extend(ls)
    out, rc, err = lib.run_driver(lines)
    res = []
    for (a, b) in idx:
        bad = None
        for i, o in enumerate(out[a:b]):
            if o.startswith("MISMATCH") or o.startswith("bad-"):
                bad = "%s -> %s" % (lines[a + i], o)
                break
        res.append(bad)
    return res


def line_for(cfg, choices):
    return "run %s sched %s pts" % (cfg, " ".join(map(str, choices)))


def run_tie(prop, spec, tier, seed):
    res = TieResult()
    rng = lib.SplitMix(seed).fork("crouter")
    binary, out = schedtie.build("crouter_harness", HARNESS, REPO_SRC)
    if binary is None:
        res.failures.append(Failure("infra", "harness does not compile against the working tree", replay={"compiler": out[-3000:]}))
        return res
    kinds = lock_kinds()
    runs = []
    cdir = os.path.join(lib.VERIF, "corpus", "crouter")
    corpus = []
    if os.path.isdir(cdir):
        for f in sorted(os.listdir(cdir)):
            if f.endswith(".json"):
                c = json.load(open(os.path.join(cdir, f)))
                corpus.append(line_for(c["config"], c["schedule"]))
    runs += schedtie.run_batch(binary, corpus)
    ncorpus = len(runs)
    ndfs = 0
    for cfg in DFS_CONFIGS:
        rs, _ = schedtie.dfs(binary, lambda p, cfg=cfg: line_for(cfg, p), 250 if tier == "quick" else 4000, 2 if tier == "quick" else 3)
        runs += rs
        ndfs += len(rs)
    nrand = 1200 if tier == "quick" else 30000
    lines = ["run %s seed %d pts" % (gen_config(rng, tier), rng.next() % (1 << 40)) for _ in range(nrand)]
    ncrowd = 12 if tier == "quick" else 400
    lines += ["run %s seed %d pts" % (gen_crowd(rng), rng.next() % (1 << 40)) for _ in range(ncrowd)]
    runs += schedtie.run_batch(binary, lines)
    executed = [r for r in runs if r.status is not None]
    res.evaluations = len(executed)
    res.traces = len(executed)
    distinct = set()
    stat = {}
    overlapped = 0
    for r in executed:
        stat[r.status] = stat.get(r.status, 0) + 1
        ops = ops_of(r)
        # non-trivial: some mutating operation overlaps (in real time) a notify of another thread
        ov = any(a["text"][0] == "N" and b["text"][0] in "SUK" and a["t"] != b["t"] and a["ret"] is not None and b["ret"] is not None
                 and a["call"] < b["ret"] and b["call"] < a["ret"] for a in ops for b in ops)
        if ov:
            overlapped += 1
            distinct.add((r.line.split()[1], tuple(l for l in r.events if l.split()[0] in ("op", "opret", "cb", "park"))))
    res.distinct = len(distinct)
    res.rule = ("executions of the real ConcurrentSubjectRouter under the controlled scheduler: corpus (%d) + stateless DFS (<=%d preemptions) over %s (%d executions) "
                "+ %d seeded random schedules of random 2-%d-thread (40%% with 4-5 threads) operation mixes (notify/subscribe/unsubscribe/shrink/exists/depth, callbacks yield); "
                "distinct_nontrivial = distinct (configuration, observable trace) in which a mutating operation overlaps a notify of another thread in real time" %
                (ncorpus, 2 if tier == "quick" else 3, DFS_CONFIGS, ndfs, nrand, 5))
    res.dist = {"status": stat, "executions_with_overlap": overlapped, "lock_kinds": kinds}
    if executed:
        res.samples = [{"run": executed[min(ncorpus, len(executed) - 1)].line, "events": [l for l in executed[min(ncorpus, len(executed) - 1)].events if l.split()[0] in ("op", "opret", "cb", "cbx", "park")][:40]}]
    nviol = 0
    for r in executed:
        msgs = monitor(r)
        if msgs:
            nviol += 1
            if nviol <= 3:
                small = shrink(binary, r)
                res.failures.append(Failure("violation", "ConcurrentSubjectRouter, %s: %s" % (small.line.split()[1], monitor(small)[0]),
                                            signature="%s|%s" % (small.line.split()[1], " ".join(map(str, small.choices()))),
                                            replay={"component": "crouter", "config": small.line.split()[1], "schedule": small.choices(),
                                                    "events": small.events, "status": small.status}))
    res.extra["monitor_violations"] = nviol
    # free-running leg (real threads, real memory): an observer must never be invoked after its unsubscribe() returned,
    # and no delivery may overlap a mutation — what the controlled scheduler (one thread at a time) cannot exhibit
    sbin, sout = lib.build_harness("crouter_stress", ["harness/crouter/crouter_stress.cpp"], repo_sources=REPO_SRC,
                                   flags=["-std=c++20", "-O2", "-g"])
    if sbin is None:
        res.failures.append(Failure("infra", "crouter stress program does not compile against the working tree", replay={"compiler": (sout or "")[-3000:]}))
    else:
        import subprocess
        nruns, ms = (6, 1000) if tier == "quick" else (20, 3000)
        stress = []
        for k in range(nruns):
            sd = (seed * 7919 + k) % 100000
            try:
                p = subprocess.run([sbin, str(sd), str(ms)], capture_output=True, text=True, timeout=120)
                rc, out = p.returncode, (p.stdout + p.stderr).strip()
            except subprocess.TimeoutExpired:
                rc, out = -1, "timeout (operations blocked forever)"
            stress.append({"seed": sd, "rc": rc, "out": out[-200:]})
            if rc != 0:
                res.failures.append(Failure("violation", "ConcurrentSubjectRouter, free-running stress (5 subscribe/unsubscribe threads + 2 notifiers, %d ms, seed %d): %s"
                                            % (ms, sd, out.split("\n")[-1][:200]),
                                            signature="crouter_stress",
                                            replay={"component": "crouter", "program": "harness/crouter/crouter_stress.cpp", "args": [sd, ms], "output": out[-1500:]}))
                break
        res.extra["stress_runs"] = stress
    mm = model_check(executed, kinds)
    nmm = 0
    for r, bad in zip(executed, mm):
        if bad and r.status == "ok":
            nmm += 1
            if nmm <= 2:
                res.failures.append(Failure("drift", "lock-step replay of the router's Resource traffic on the Rwp model (kinds from the generated table) disagrees (%s): %s" % (r.line, bad),
                                            replay={"correspondence": "crouter lock-step replay", "run": r.line, "schedule": r.choices(), "mismatch": bad}))
    res.extra["model_mismatches"] = nmm
    return res


def shrink(binary, run):
    cfg = run.line.split()[1]
    ch = run.choices()
    best = run
    lo, hi = 0, len(ch)
    while lo < hi:
        mid = (lo + hi) // 2
        r = schedtie.run_batch(binary, [line_for(cfg, ch[:mid])])[0]
        if r.status is not None and monitor(r):
            hi = mid
            best = r
        else:
            lo = mid + 1
    return best


def replay(prop, spec, path):
    data = json.load(open(path))
    rp = data.get("replay", {})
    if "config" not in rp:
        print(json.dumps(data, indent=1)[:4000])
        return 0
    binary, out = schedtie.build("crouter_harness", HARNESS, REPO_SRC)
    r = schedtie.run_batch(binary, [line_for(rp["config"], rp["schedule"])])[0]
    for e in r.events:
        print(e)
    print("end", r.status)
    msgs = monitor(r)
    for m in msgs:
        print("MONITOR:", m)
    if msgs:
        print("VIOLATION property=%s replay=%s" % (prop, path))
    return 1 if msgs else 0
