#!/usr/bin/env python3
"""Translator for C19: the two initialiser tables of src/LocaleInfo.cpp -> lean/Tulz/Generated/LocaleTables.lean

    def languageTable countryTable : List (List Nat × List Nat)      -- (bytes of code, bytes of name)
    def languageTableEnc countryTableEnc : List (Nat × Nat)          -- the same, each string packed into one Nat (untrusted cache
                                                                      -- of `map encPair`, re-proved equal by the kernel)

It is run on EVERY check (tools/components/locale.py: translate); the committed copy of the generated file
is only a build cache.  The parser is lexical and fails closed: anything between the braces of the two
initialisers that is not `{ "string" , "string" }` separated by commas raises TranslateError, as does an
unknown escape sequence, a prefixed/raw literal, a preprocessor line inside a table, or a `_info` struct whose
member order is not (value, code).
"""
import os
import re
import sys


class TranslateError(Exception):
    pass


SIMPLE_ESC = {ord("n"): 10, ord("t"): 9, ord("r"): 13, ord("a"): 7, ord("b"): 8, ord("f"): 12, ord("v"): 11,
              ord("\\"): 92, ord("'"): 39, ord('"'): 34, ord("?"): 63}
HEXD = b"0123456789abcdefABCDEF"
OCTD = b"01234567"


def strip_comments(src):
    """bytes -> bytes with // and /* */ comments replaced by one space (newlines kept); string and
    character literals are copied verbatim"""
    out = bytearray()
    i, n = 0, len(src)
    while i < n:
        c = src[i:i + 1]
        if src.startswith(b"//", i):
            while i < n and src[i:i + 1] != b"\n":
                i += 1
            out += b" "
        elif src.startswith(b"/*", i):
            j = src.find(b"*/", i + 2)
            if j < 0:
                raise TranslateError("unterminated /* comment")
            out += b" " + b"\n" * src[i:j].count(b"\n")
            i = j + 2
        elif c in (b'"', b"'"):
            j = i + 1
            while True:
                if j >= n or src[j:j + 1] == b"\n":
                    raise TranslateError("unterminated literal at byte %d" % i)
                if src[j:j + 1] == b"\\":
                    j += 2
                    continue
                if src[j:j + 1] == c:
                    break
                j += 1
            out += src[i:j + 1]
            i = j + 1
        else:
            out += c
            i += 1
    return bytes(out)


def decode_literal(body):
    """bytes between the quotes of an ordinary narrow string literal -> list of byte values"""
    res = []
    i, n = 0, len(body)
    while i < n:
        b = body[i]
        if b != 92:
            res.append(b)
            i += 1
            continue
        if i + 1 >= n:
            raise TranslateError("dangling backslash")
        e = body[i + 1]
        if e in SIMPLE_ESC:
            res.append(SIMPLE_ESC[e])
            i += 2
        elif e == ord("x"):
            j = i + 2
            while j < n and body[j] in HEXD:
                j += 1
            if j == i + 2:
                raise TranslateError("\\x without digits")
            v = int(body[i + 2:j], 16)
            if v > 255:
                raise TranslateError("\\x escape out of range")
            res.append(v)
            i = j
        elif e in OCTD:
            j = i + 1
            while j < n and j < i + 4 and body[j] in OCTD:
                j += 1
            v = int(body[i + 1:j], 8)
            if v > 255:
                raise TranslateError("octal escape out of range")
            res.append(v)
            i = j
        else:
            raise TranslateError("unsupported escape sequence \\%s" % chr(e))
    return res


def tokens(region):
    """tokenise the inside of an initialiser: '{', '}', ',', ('str', bytes).  Anything else raises."""
    i, n = 0, len(region)
    toks = []
    while i < n:
        c = region[i:i + 1]
        if c in b" \t\r\n":
            i += 1
        elif c in b"{},":
            toks.append(c.decode())
            i += 1
        elif c == b'"':
            j = i + 1
            while region[j:j + 1] != b'"':
                j += 2 if region[j:j + 1] == b"\\" else 1
                if j >= n:
                    raise TranslateError("unterminated string in table")
            toks.append(("str", decode_literal(region[i + 1:j])))
            i = j + 1
        else:
            raise TranslateError("unexpected text in table initialiser: %r" % region[i:i + 30])
    return toks


def parse_entries(region, what):
    toks = tokens(region)
    entries = []
    k = 0

    def strings():
        """one or more adjacent literals (concatenated by the compiler)"""
        nonlocal k
        if k >= len(toks) or not isinstance(toks[k], tuple):
            raise TranslateError("%s: string literal expected at token %d" % (what, k))
        val = []
        while k < len(toks) and isinstance(toks[k], tuple):
            val += toks[k][1]
            k += 1
        return val

    def expect(t):
        nonlocal k
        if k >= len(toks) or toks[k] != t:
            raise TranslateError("%s: %r expected at token %d (entry %d)" % (what, t, k, len(entries)))
        k += 1

    while k < len(toks):
        expect("{")
        value = strings()
        expect(",")
        code = strings()
        if k < len(toks) and toks[k] == ",":    # trailing comma inside the braces
            k += 1
        expect("}")
        entries.append((code, value))
        if k < len(toks):
            expect(",")
    if not entries:
        raise TranslateError("%s: empty table" % what)
    for code, value in entries:
        if 0 in code or 0 in value:
            # an embedded NUL would make the C string shorter than the literal: not representable as `bytes without NUL`
            raise TranslateError("%s: embedded NUL in a table string" % what)
    return entries


def find_table(src, name):
    m = re.search(rb"const\s+LocaleInfo::(\w+)\s+LocaleInfo::" + name + rb"\s*\[\s*\]\s*=\s*\{", src)
    if not m:
        raise TranslateError("definition of LocaleInfo::%s[] not found" % name.decode())
    # definitions only (`LocaleInfo::name[] = {`): an indexed USE such as `LocaleInfo::languageInfo[i]` elsewhere is not one
    if len(re.findall(rb"LocaleInfo::" + name + rb"\s*\[\s*\]\s*=", src)) != 1:
        raise TranslateError("more than one definition of %s" % name.decode())
    start = m.end()
    depth = 1
    i = start
    instr = False
    while i < len(src):
        c = src[i:i + 1]
        if instr:
            if c == b"\\":
                i += 1
            elif c == b'"':
                instr = False
        elif c == b'"':
            instr = True
        elif c == b"{":
            depth += 1
        elif c == b"}":
            depth -= 1
            if depth == 0:
                break
        i += 1
    if depth != 0:
        raise TranslateError("unbalanced braces in %s" % name.decode())
    if not re.match(rb"\s*;", src[i + 1:i + 20]):
        raise TranslateError("`;` expected after the initialiser of %s" % name.decode())
    region = src[start:i]
    if b"#" in re.sub(rb'"(?:[^"\\]|\\.)*"', b'""', region):
        raise TranslateError("preprocessor directive inside %s" % name.decode())
    return region


def check_struct_order(header):
    h = strip_comments(header)
    m = re.search(rb"struct\s+_info\s*\{\s*const\s+char\s*\*\s*(\w+)\s*;\s*const\s+char\s*\*\s*(\w+)\s*;\s*\}", h)
    if not m or (m.group(1), m.group(2)) != (b"value", b"code"):
        raise TranslateError("struct _info is not { const char *value; const char *code; }")
    if not re.search(rb"using\s+LanguageInfo\s*=\s*_info\s*;", h) or not re.search(rb"using\s+CountryInfo\s*=\s*_info\s*;", h):
        raise TranslateError("LanguageInfo / CountryInfo are not aliases of _info")


def parse_repo(repo):
    src = strip_comments(open(os.path.join(repo, "src", "LocaleInfo.cpp"), "rb").read())
    check_struct_order(open(os.path.join(repo, "include", "tulz", "LocaleInfo.h"), "rb").read())
    lang = parse_entries(find_table(src, b"languageInfo"), "languageInfo")
    ctry = parse_entries(find_table(src, b"countryInfo"), "countryInfo")
    return lang, ctry


def lean_list(xs):
    return "[" + ", ".join(str(x) for x in xs) + "]"


def show(bs):
    return bytes(bs).decode("utf-8", "replace").replace("\n", " ").replace("-/", "- /").replace("/-", "/ -")


def enc(bs):
    v = 1
    for b in reversed(bs):
        v = v * 256 + b
    return v


def emit(lang, ctry):
    out = ["/- GENERATED by tools/translators/locale_tables.py from src/LocaleInfo.cpp on every check run.",
           "   DO NOT EDIT: the committed copy is only a build cache and is overwritten before the proofs are re-checked.",
           "   Entries are (bytes of code, bytes of name) in source order. -/",
           "namespace Tulz.Locale", ""]
    for name, tab in (("languageTable", lang), ("countryTable", ctry)):
        out.append("def %s : List (List Nat × List Nat) := [" % name)
        for i, (code, value) in enumerate(tab):
            out.append("  (%s, %s)%s  -- %s / %s" % (lean_list(code), lean_list(value), "," if i + 1 < len(tab) else "", show(code), show(value)))
        out.append("]")
        out.append("")
    # the same tables with every string packed into one number (enc [] = 1, enc (b :: bs) = enc bs * 256 + b).  They are
    # NOT trusted: Props/C19.lean proves `table.map encPair = tableEnc` by kernel evaluation and uses them only to make the
    # quadratic uniqueness / disjointness checks cheap (comparisons of Nat literals).
    for name, tab in (("languageTableEnc", lang), ("countryTableEnc", ctry)):
        out.append("def %s : List (Nat × Nat) := [" % name)
        for i, (code, value) in enumerate(tab):
            out.append("  (%d, %d)%s" % (enc(code), enc(value), "," if i + 1 < len(tab) else ""))
        out.append("]")
        out.append("")
    # untrusted hints for a linear fast path of the codes/names disjointness check: the longest code.  If every code is at
    # most this long and every name longer, codes and names are disjoint; otherwise the checker falls back to all pairs.
    out.append("def languageSplitLen : Nat := %d" % max(len(c) for c, _ in lang))
    out.append("def countrySplitLen : Nat := %d" % max(len(c) for c, _ in ctry))
    out.append("")
    out.append("end Tulz.Locale")
    return "\n".join(out) + "\n"


def translate(repo, dest):
    lang, ctry = parse_repo(repo)
    text = emit(lang, ctry)
    os.makedirs(os.path.dirname(dest), exist_ok=True)
    tmp = dest + ".%d.tmp" % os.getpid()
    with open(tmp, "w", encoding="utf-8") as f:
        f.write(text)
    os.replace(tmp, dest)
    return lang, ctry


if __name__ == "__main__":
    repo = os.environ.get("TULZ_REPO", "/repo")
    here = os.path.dirname(os.path.dirname(os.path.dirname(os.path.abspath(__file__))))
    dest = sys.argv[1] if len(sys.argv) > 1 else os.path.join(here, "lean", "Tulz", "Generated", "LocaleTables.lean")
    l, c = translate(repo, dest)
    print("languageTable: %d entries, countryTable: %d entries -> %s" % (len(l), len(c), dest))
