#!/usr/bin/env python3
"""Translator for C20: the lambdas that tulz::Thread hands to std::thread -> lean/Tulz/Generated/ThreadCaptures.lean

Reads (from $TULZ_REPO)
  include/tulz/threading/Thread.h   template<typename T, typename ...Args> … start(T ptr, Args&&... args) { m_thread = std::thread(<lambda>); }
                                    the forwarding constructor Thread(T ptr, Args&&... args)
  src/threading/Thread.cpp          void Thread::start(Runnable *runnable) { m_thread = std::thread(<lambda>); }
                                    Thread::join(), Thread::isFinished()
and emits, per lambda,
  * how each entity the body uses is captured: the callable parameter (`ptr` / `runnable`), the argument pack (`args`),
    `this`:  byCopy | byRef (explicit items of the capture list)  |  defaultRef | defaultCopy (entity is used by the body and
    only a capture-default `&` / `=` covers it)  |  unused (the body does not mention it)
  * whether the lambda is `mutable`
  * the body as a list of recognised statements (invoke / setFinished / run / delete)
plus three shape facts (join() is `m_thread.join();`, isFinished() is `return m_isFinished;`, the constructor forwards to start).

It is run on EVERY check (tools/components/thread.py: translate); the committed copy of the generated file is only a build
cache.  The analysis is lexical (tokens of the comment-stripped source, brace/bracket matching) and FAILS CLOSED: every
construct it does not recognise raises TranslateError — a parameter list of another shape (`T&& ptr`, `const T&`), more than one
lambda, extra arguments to std::thread, an init-capture other than `name = ptr` / `name = std::move(ptr)` /
`name = std::forward<T>(ptr)`, `*this`, a structured statement or any statement in the lambda body that is not one of the four
recognised forms, an entity that is used but not captured, preprocessor lines inside the functions.
"""
import os
import re
import sys


class TranslateError(Exception):
    pass


# ------------------------------------------------------------------ lexing

def strip_comments(src):
    out = []
    i, n = 0, len(src)
    while i < n:
        c = src[i]
        if src.startswith("//", i):
            while i < n and src[i] != "\n":
                i += 1
            out.append(" ")
        elif src.startswith("/*", i):
            j = src.find("*/", i + 2)
            if j < 0:
                raise TranslateError("unterminated /* comment")
            out.append(" " + "\n" * src[i:j].count("\n"))
            i = j + 2
        elif c in "\"'":
            j = i + 1
            while True:
                if j >= n or src[j] == "\n":
                    raise TranslateError("unterminated literal")
                if src[j] == "\\":
                    j += 2
                    continue
                if src[j] == c:
                    break
                j += 1
            out.append(src[i:j + 1])
            i = j + 1
        else:
            out.append(c)
            i += 1
    return "".join(out)


TOKEN = re.compile(r"""
    (?P<ws>\s+)
  | (?P<pp>^[ \t]*\#[^\n]*(?:\\\n[^\n]*)*)
  | (?P<id>[A-Za-z_]\w*)
  | (?P<num>\d[\w.']*)
  | (?P<str>"(?:[^"\\\n]|\\.)*"|'(?:[^'\\\n]|\\.)*')
  | (?P<op>\.\.\.|->\*|->|::|&&|\|\||<<=|>>=|<=>|==|!=|<=|>=|\+\+|--|\+=|-=|\*=|/=|%=|&=|\|=|\^=|<<|[-+*/%&|^~!=<>?:;,.(){}\[\]])
""", re.X | re.M)


def lex(src):
    """list of (kind, text); kinds: id num str op pp"""
    toks = []
    i, n = 0, len(src)
    while i < n:
        m = TOKEN.match(src, i)
        if not m:
            raise TranslateError("cannot tokenise at %r" % src[i:i + 30])
        k = m.lastgroup
        if k != "ws":
            toks.append((k, m.group(0)))
        i = m.end()
    return toks


def txt(toks):
    return " ".join(t for _, t in toks)


OPEN = {"(": ")", "[": "]", "{": "}"}
CLOSE = {")", "]", "}"}


def match(toks, i):
    """toks[i] is an opening bracket; index of its partner"""
    want = []
    for j in range(i, len(toks)):
        t = toks[j][1]
        if toks[j][0] == "op" and t in OPEN:
            want.append(OPEN[t])
        elif toks[j][0] == "op" and t in CLOSE:
            if not want or want.pop() != t:
                raise TranslateError("unbalanced %r near %s" % (t, txt(toks[max(0, j - 8):j + 1])))
            if not want:
                return j
    raise TranslateError("unbalanced %r" % toks[i][1])


def split_top(toks, sep):
    """split a token list at top-level occurrences of operator `sep` (angle brackets are not nested: not needed here)"""
    parts, cur, depth = [], [], 0
    for k, t in toks:
        if k == "op" and t in OPEN:
            depth += 1
        elif k == "op" and t in CLOSE:
            depth -= 1
        if depth == 0 and k == "op" and t == sep:
            parts.append(cur)
            cur = []
        else:
            cur.append((k, t))
    parts.append(cur)
    return parts


def texts(toks):
    return [t for _, t in toks]


def no_pp(toks, what):
    if any(k == "pp" for k, _ in toks):
        raise TranslateError("preprocessor directive inside %s" % what)


# ------------------------------------------------------------------ locating the functions

def find_all(toks, pattern):
    """indices where the token texts match `pattern` (list of strings)"""
    tt = texts(toks)
    n = len(pattern)
    return [i for i in range(len(tt) - n + 1) if tt[i:i + n] == pattern]


def function_after(toks, i_open_paren, what):
    """(param tokens, body tokens, index after body) for `name ( params ) [const] { body }` with toks[i_open_paren] == '('"""
    j = match(toks, i_open_paren)
    params = toks[i_open_paren + 1:j]
    k = j + 1
    while k < len(toks) and toks[k][1] in ("const", "noexcept"):
        k += 1
    if k >= len(toks) or toks[k][1] != "{":
        raise TranslateError("%s: `{` expected after the parameter list, found %r" % (what, toks[k][1] if k < len(toks) else "EOF"))
    e = match(toks, k)
    body = toks[k + 1:e]
    no_pp(params + body, what)
    return params, body, e + 1


def parse_template_start(htoks):
    """the member template start(T ptr, Args&&... args) of Thread.h -> (callable name, pack name, type name, pack type name, body)"""
    starts = [i for i in find_all(htoks, ["start", "("]) if i > 0 and htoks[i - 1][1] not in (".", "->")]
    defs = []
    for i in starts:
        j = match(htoks, i + 1)
        k = j + 1
        if k < len(htoks) and htoks[k][1] == "{":
            defs.append(i)
    # exactly one definition of `start` in the header (the template); start(Runnable*) is only declared there
    # (a call `start(ptr, …)` followed by `;` is not a definition)
    if len(defs) != 1:
        raise TranslateError("Thread.h: expected exactly one definition of start(...) {...}, found %d" % len(defs))
    i = defs[0]
    params, body, _ = function_after(htoks, i + 1, "Thread.h start()")
    # the template header must precede: template < typename T , typename ... Args >
    back = texts(htoks[max(0, i - 60):i])
    s = " ".join(back)
    m = re.search(r"template < (?:typename|class) (\w+) , (?:typename|class) \.\.\. (\w+) >(?! .*template <)", s)
    if not m:
        raise TranslateError("Thread.h: `template<typename T, typename ...Args>` expected before start(), found: … %s" % s[-120:])
    tname, packt = m.group(1), m.group(2)
    ps = split_top(params, ",")
    if len(ps) != 2:
        raise TranslateError("Thread.h start(): two parameters expected (callable by value, forwarding pack), found: %s" % txt(params))
    p0, p1 = texts(ps[0]), texts(ps[1])
    if len(p0) != 2 or p0[0] != tname or not re.match(r"[A-Za-z_]\w*$", p0[1]):
        raise TranslateError("Thread.h start(): first parameter is not `%s <name>` (by value): %s" % (tname, " ".join(p0)))
    if len(p1) != 4 or p1[:3] != [packt, "&&", "..."] or not re.match(r"[A-Za-z_]\w*$", p1[3]):
        raise TranslateError("Thread.h start(): second parameter is not `%s&&... <name>`: %s" % (packt, " ".join(p1)))
    return {"callable": p0[1], "pack": p1[3], "T": tname, "Args": packt, "body": body}


def parse_ctor(htoks, info):
    """template<…> explicit Thread(T ptr, Args&&... args) { start(ptr, std::forward<Args>(args)...); }"""
    cands = []
    for i in find_all(htoks, ["Thread", "("]):
        j = match(htoks, i + 1)
        if j + 1 < len(htoks) and htoks[j + 1][1] == "{" and j > i + 1:
            cands.append(i)
    if len(cands) != 1:
        return False, "expected one constructor with parameters and a body, found %d" % len(cands)
    params, body, _ = function_after(htoks, cands[0] + 1, "Thread.h constructor")
    ps = split_top(params, ",")
    if len(ps) != 2:
        return False, "constructor parameters: " + txt(params)
    p0, p1 = texts(ps[0]), texts(ps[1])
    if len(p0) != 2 or len(p1) != 4 or p1[1:3] != ["&&", "..."]:
        return False, "constructor parameters: " + txt(params)
    c, a, at = p0[1], p1[3], p1[0]
    want = ["start", "(", c, ",", "std", "::", "forward", "<", at, ">", "(", a, ")", "...", ")", ";"]
    return texts(body) == want, txt(body)


def parse_cpp_function(ctoks, name, what):
    idx = find_all(ctoks, ["Thread", "::", name, "("])
    if len(idx) != 1:
        raise TranslateError("Thread.cpp: expected exactly one definition of Thread::%s, found %d" % (name, len(idx)))
    return function_after(ctoks, idx[0] + 3, what)


# ------------------------------------------------------------------ the lambda

def single_lambda(body, what, resolver=None):
    """body tokens of start(): exactly `m_thread = std::thread ( <lambda> ) ;` -> (capture tokens, mutable?, lambda body tokens)"""
    tt = texts(body)
    head = ["m_thread", "=", "std", "::", "thread", "("]
    # the closure may be kept in a local variable first:
    #   auto NAME = <lambda> ; m_thread = std::thread ( std::move(NAME) ) ;     (or `( NAME )`: the thread gets its own copy either way)
    # which is normalised to the direct form
    if len(tt) > 4 and tt[0] == "auto" and tt[2] == "=" and tt[3] == "[":
        name = tt[1]
        semi = None
        depth = 0
        for i in range(3, len(body)):
            t = body[i][1]
            if t in "([{":
                depth += 1
            elif t in ")]}":
                depth -= 1
            elif t == ";" and depth == 0:
                semi = i
                break
        if semi is None:
            raise TranslateError("%s: unterminated closure variable declaration" % what)
        lam = body[3:semi]
        rest = texts(body[semi + 1:])
        if rest in (head + ["std", "::", "move", "(", name, ")", ")", ";"], head + [name, ")", ";"]):
            close_tok = body[-2]
            body = body[semi + 1:semi + 1 + len(head)] + lam + [close_tok, body[-1]]
            tt = texts(body)
        else:
            raise TranslateError("%s: closure variable `%s` is not handed to std::thread in the recognised way: %s" % (what, name, " ".join(rest[:16])))
    if tt[:len(head)] != head:
        raise TranslateError("%s: body does not start with `m_thread = std::thread(`: %s" % (what, " ".join(tt[:12])))
    close = match(body, len(head) - 1)
    if texts(body[close + 1:]) != [";"]:
        raise TranslateError("%s: statements other than the std::thread assignment: %s" % (what, txt(body[close + 1:])))
    arg = body[len(head):close]
    if texts(arg[:3]) == ["&", "Thread", "::"] and resolver is not None:
        # std::thread(&Thread::NAME, this, a, …): the new thread runs this->NAME(a, …) on DECAYED COPIES of `this` and the
        # arguments — the same as the closure [this, a, …] { <body of NAME with its parameters renamed to a, …> }
        parts = split_top(arg, ",")
        if len(texts(parts[0])) != 4 or len(parts) < 2 or texts(parts[1]) != ["this"]:
            raise TranslateError("%s: unsupported member-function form of std::thread: %s" % (what, txt(arg)))
        actuals = []
        for a in parts[2:]:
            if len(a) != 1 or a[0][0] != "id":
                raise TranslateError("%s: argument of the thread entry is not a plain name (std::ref, expressions are not modelled): %s" % (what, txt(a)))
            actuals.append(a[0])
        mparams, mbody = resolver(parts[0][3][1])
        formals = []
        for f in (split_top(mparams, ",") if mparams else []):
            ft = texts(f)
            if "&" in ft or "&&" in ft or "..." in ft or not f or f[-1][0] != "id":
                raise TranslateError("%s: entry function parameter `%s` is not taken by value" % (what, " ".join(ft)))
            formals.append(f[-1][1])
        if len(formals) != len(actuals):
            raise TranslateError("%s: entry function takes %d parameters, std::thread passes %d" % (what, len(formals), len(actuals)))
        ren = dict(zip(formals, actuals))
        if any(t in ("[",) for t in texts(mbody)):
            raise TranslateError("%s: lambda / subscript inside the entry function" % what)
        lbody = [ren[t] if k == "id" and t in ren else (k, t) for k, t in mbody]
        caps = [("id", "this")]
        for a in actuals:
            caps += [("op", ","), a]
        return caps, False, lbody
    if not arg or arg[0][1] != "[":
        raise TranslateError("%s: the argument of std::thread is not a lambda expression: %s" % (what, txt(arg[:10])))
    rb = match(arg, 0)
    caps = arg[1:rb]
    k = rb + 1
    if k < len(arg) and arg[k][1] == "(":
        pe = match(arg, k)
        if pe != k + 1:
            raise TranslateError("%s: the lambda takes parameters: %s" % (what, txt(arg[k:pe + 1])))
        k = pe + 1
    mutable = False
    while k < len(arg) and arg[k][1] != "{":
        t = arg[k][1]
        if t == "mutable":
            mutable = True
        elif t == "noexcept":
            pass
        else:
            raise TranslateError("%s: unsupported lambda specifier / return type: %s" % (what, txt(arg[k:k + 6])))
        k += 1
    if k >= len(arg):
        raise TranslateError("%s: lambda body not found" % what)
    be = match(arg, k)
    if be != len(arg) - 1:
        raise TranslateError("%s: std::thread is given more than the lambda (extra arguments are not modelled): %s" % (what, txt(arg[be + 1:])))
    lbody = arg[k + 1:be]
    if any(t == "[" and (i == 0 or lbody[i - 1][1] in ("(", ",", "=", ";", "{", "return")) for i, (_, t) in enumerate(lbody)):
        raise TranslateError("%s: nested lambda in the thread body" % what)
    return caps, mutable, lbody


def parse_captures(caps, what, callable_name, pack_name, callable_type=None):
    """capture list tokens -> dict: default ('&' | '=' | None), explicit {entity: 'byCopy'|'byRef'}, alias for the callable"""
    res = {"default": None, "explicit": {}, "alias": None, "text": "[" + txt(caps) + "]"}
    if not caps:
        return res
    for idx, item in enumerate(split_top(caps, ",")):
        t = texts(item)
        if not t:
            raise TranslateError("%s: empty capture item in %s" % (what, res["text"]))
        if t == ["&"] or t == ["="]:
            if idx != 0 or res["default"]:
                raise TranslateError("%s: capture-default not first in %s" % (what, res["text"]))
            res["default"] = t[0]
            continue
        if t == ["this"]:
            ent, mode = "this", "byCopy"
        elif t == ["*", "this"]:
            raise TranslateError("%s: `*this` capture (a copy of the Thread object) is not modelled" % what)
        elif len(t) == 1 and item[0][0] == "id":
            ent, mode = t[0], "byCopy"
        elif len(t) == 2 and t[0] == "&" and item[1][0] == "id":
            ent, mode = t[1], "byRef"
        elif len(t) == 2 and t[1] == "..." and item[0][0] == "id":
            ent, mode = t[0], "byCopy"
        elif len(t) == 3 and t[0] == "&" and t[2] == "..." and item[1][0] == "id":
            ent, mode = t[1], "byRef"
        elif len(t) >= 3 and item[0][0] == "id" and t[1] in ("=", "{", "("):
            # init-capture by copy: name = ptr | name = std::move(ptr) | name = std::forward<T>(ptr) | name{…} | name(…)
            init = t[2:] if t[1] == "=" else t[2:-1]
            c = callable_name
            forms = [[c], ["std", "::", "move", "(", c, ")"]]
            if callable_type:
                forms.append(["std", "::", "forward", "<", callable_type, ">", "(", c, ")"])
            if init not in forms:
                raise TranslateError("%s: unsupported init-capture `%s`" % (what, " ".join(t)))
            ent, mode = callable_name, "byCopy"
            res["alias"] = t[0]
        else:
            raise TranslateError("%s: unsupported capture item `%s`" % (what, " ".join(t)))
        if ent in res["explicit"]:
            raise TranslateError("%s: `%s` captured twice in %s" % (what, ent, res["text"]))
        res["explicit"][ent] = mode
    known = {"this", callable_name} | ({pack_name} if pack_name else set())
    extra = set(res["explicit"]) - known
    if extra:
        raise TranslateError("%s: capture of unknown entity %s in %s" % (what, sorted(extra), res["text"]))
    return res


def classify_body(lbody, what, kind, callable_use, pack_name, args_type):
    """lambda body tokens -> (list of statement kinds, uses: set of entities mentioned)"""
    if any(t in ("{", "}") for t in texts(lbody)):
        raise TranslateError("%s: structured statement in the thread body: %s" % (what, txt(lbody)))
    stmts = split_top(lbody, ";")
    if texts(stmts[-1]):
        raise TranslateError("%s: thread body does not end with `;`: %s" % (what, txt(stmts[-1])))
    out = []
    uses = set()
    c = callable_use
    flag_forms = [["m_isFinished", "=", "true"], ["this", "->", "m_isFinished", "=", "true"],
                  ["m_isFinished", ".", "store", "(", "true", ")"], ["this", "->", "m_isFinished", ".", "store", "(", "true", ")"]]
    # an explicit memory order is accepted when it still publishes the callable's effects (release or stronger)
    for order in ("memory_order_release", "memory_order_seq_cst", "memory_order_acq_rel"):
        for pre in ([], ["this", "->"]):
            flag_forms.append(pre + ["m_isFinished", ".", "store", "(", "true", ",", "std", "::", order, ")"])
    for st in stmts[:-1]:
        t = texts(st)
        if not t:
            continue        # empty statement
        if kind == "callable":
            a = pack_name
            invoke_forms = [[c, "(", "std", "::", "forward", "<", args_type, ">", "(", a, ")", "...", ")"],
                            [c, "(", a, "...", ")"]]
            if t in invoke_forms:
                out.append("invoke")
                uses.add("callable")
                uses.add("args")
                continue
        else:
            if t == [c, "->", "run", "(", ")"]:
                out.append("run")
                uses.add("callable")
                continue
            if t == ["delete", c]:
                out.append("delete")
                uses.add("callable")
                continue
        if t in flag_forms:
            out.append("setFinished")
            uses.add("this")
            continue
        raise TranslateError("%s: unrecognised statement in the thread body: `%s`" % (what, " ".join(t)))
    return out, uses


def entity_mode(entity, name, caps, uses, what):
    if name in caps["explicit"]:
        return caps["explicit"][name]
    if entity not in uses:
        return "unused"
    if caps["default"] == "&":
        return "defaultRef"
    if caps["default"] == "=":
        return "defaultCopy"
    raise TranslateError("%s: `%s` is used by the thread body but not captured by %s (ill-formed)" % (what, name, caps["text"]))


def analyse_lambda(fn_body, what, kind, callable_name, pack_name, callable_type, args_type, resolver=None):
    caps_t, mutable, lbody = single_lambda(fn_body, what, resolver)
    caps = parse_captures(caps_t, what, callable_name, pack_name, callable_type)
    use_name = caps["alias"] or callable_name
    stmts, uses = classify_body(lbody, what, kind, use_name, pack_name, args_type)
    if caps["alias"] and callable_name in texts(lbody):
        raise TranslateError("%s: the body uses both the init-capture and the parameter" % what)
    lam = {
        "introducer": caps["text"] + "()" + (" mutable" if mutable else ""),
        "callable": entity_mode("callable", callable_name, caps, uses, what),
        "args": entity_mode("args", pack_name, caps, uses, what) if pack_name else "unused",
        "this": entity_mode("this", "this", caps, uses, what),
        "mutable": mutable,
        "body": stmts,
    }
    if lam["this"] == "byRef":
        raise TranslateError("%s: `&this` is ill-formed" % what)
    return lam


# ------------------------------------------------------------------ whole repo

def parse_repo(repo):
    hpath = os.path.join(repo, "include", "tulz", "threading", "Thread.h")
    cpath = os.path.join(repo, "src", "threading", "Thread.cpp")
    htoks = lex(strip_comments(open(hpath, encoding="utf-8").read()))
    ctoks = lex(strip_comments(open(cpath, encoding="utf-8").read()))
    info = parse_template_start(htoks)
    tmpl = analyse_lambda(info["body"], "Thread.h start(T, Args&&...)", "callable", info["callable"], info["pack"], info["T"], info["Args"])
    # start(Runnable *runnable)
    params, body, _ = parse_cpp_function(ctoks, "start", "Thread.cpp start(Runnable*)")
    p = texts(params)
    if len(p) != 3 or p[0] != "Runnable" or p[1] != "*" or not re.match(r"[A-Za-z_]\w*$", p[2]):
        raise TranslateError("Thread.cpp start(): parameter is not `Runnable *<name>`: %s" % " ".join(p))
    def resolver(name):
        mp, mb, _ = parse_cpp_function(ctoks, name, "Thread.cpp %s()" % name)
        return mp, mb
    runn = analyse_lambda(body, "Thread.cpp start(Runnable*)", "runnable", p[2], None, None, None, resolver)
    # join / isFinished / constructor shapes
    _, jbody, _ = parse_cpp_function(ctoks, "join", "Thread.cpp join()")
    _, fbody, _ = parse_cpp_function(ctoks, "isFinished", "Thread.cpp isFinished()")
    join_ok = texts(jbody) == ["m_thread", ".", "join", "(", ")", ";"]
    # an acquiring (or stronger) read: observing `true` must be ordered after everything the callable did
    fin_ok = texts(fbody) in (["return", "m_isFinished", ";"], ["return", "m_isFinished", ".", "load", "(", ")", ";"],
                              ["return", "m_isFinished", ".", "load", "(", "std", "::", "memory_order_acquire", ")", ";"],
                              ["return", "m_isFinished", ".", "load", "(", "std", "::", "memory_order_seq_cst", ")", ";"])
    ctor_ok, ctor_txt = parse_ctor(htoks, info)
    return {"startTemplate": tmpl, "startRunnable": runn,
            "joinIsStdJoin": join_ok, "joinBody": txt(jbody),
            "isFinishedReadsFlag": fin_ok, "isFinishedBody": txt(fbody),
            "ctorForwardsToStart": ctor_ok, "ctorBody": ctor_txt,
            "names": {"callable": info["callable"], "pack": info["pack"], "runnable": p[2]}}


def lean_bool(b):
    return "true" if b else "false"


def emit(t):
    def lam(name, l, doc):
        return ["/-- %s — source introducer: `%s` -/" % (doc, l["introducer"].replace("-/", "- /")),
                "def %s : LambdaCaps :=" % name,
                "  { callable := .%s, args := .%s, this := .%s, isMutable := %s," % (l["callable"], l["args"], l["this"], lean_bool(l["mutable"])),
                "    body := [%s] }" % ", ".join("." + s for s in l["body"]), ""]
    out = ["/- GENERATED by tools/translators/thread_captures.py from include/tulz/threading/Thread.h and src/threading/Thread.cpp",
           "   on every check run.  DO NOT EDIT: the committed copy is only a build cache and is overwritten before the proofs",
           "   are re-checked. -/",
           "import Tulz.Model.ThreadCap",
           "namespace Tulz.Generated.ThreadCaptures",
           "open Thread", ""]
    out += lam("startTemplate", t["startTemplate"],
               "the lambda run by `start(T %s, Args&&... %s)` (Thread.h)" % (t["names"]["callable"], t["names"]["pack"]))
    out += lam("startRunnable", t["startRunnable"], "the lambda run by `start(Runnable *%s)` (Thread.cpp)" % t["names"]["runnable"])
    out += ["/-- `Thread::join()` is exactly `m_thread.join();` -/", "def joinIsStdJoin : Bool := %s" % lean_bool(t["joinIsStdJoin"]), "",
            "/-- `Thread::isFinished()` is exactly `return m_isFinished;` -/", "def isFinishedReadsFlag : Bool := %s" % lean_bool(t["isFinishedReadsFlag"]), "",
            "/-- the forwarding constructor is exactly `start(ptr, std::forward<Args>(args)...);` -/",
            "def ctorForwardsToStart : Bool := %s" % lean_bool(t["ctorForwardsToStart"]), "",
            "end Tulz.Generated.ThreadCaptures"]
    return "\n".join(out) + "\n"


def translate(repo, dest):
    t = parse_repo(repo)
    text = emit(t)
    os.makedirs(os.path.dirname(dest), exist_ok=True)
    tmp = dest + ".%d.tmp" % os.getpid()
    with open(tmp, "w", encoding="utf-8") as f:
        f.write(text)
    os.replace(tmp, dest)
    return t


if __name__ == "__main__":
    repo = os.environ.get("TULZ_REPO", "/repo")
    here = os.path.dirname(os.path.dirname(os.path.dirname(os.path.abspath(__file__))))
    dest = sys.argv[1] if len(sys.argv) > 1 else os.path.join(here, "lean", "Tulz", "Generated", "ThreadCaptures.lean")
    import json
    print(json.dumps(translate(repo, dest), indent=1))
