#!/usr/bin/env python3
"""Translator for C15: C++ sources -> lean/Tulz/Generated/AccessTable.lean  (access / lockset table)

Run on EVERY check (tools/components/drf.py: translate); the committed copy of the generated file is only a build cache.

How it works.  One probe translation unit (harness/drf/ast_probe.cpp) #includes the analysed sources of the repository
under test and instantiates their templates once; `clang++ -fsyntax-only -Xclang -ast-dump=json` gives the fully resolved
AST (clang >= 16: the observer headers use C++20 features clang 14 rejects).  Every *entry point* (user-provided public
member function / constructor / override with a body, of a class defined in one of the ANALYSED files) is then executed
abstractly, statement by statement:

  * the state is the set of locks that MUST be held: scoped guards (`std::unique_lock`, `std::scoped_lock`,
    `std::lock_guard`, `rwp::ReadLock`, `rwp::WriteLock` as named local variables; a guard constructed as a temporary
    holds nothing afterwards), explicit `m.lock()` / `m.unlock()` on `std::mutex` members; if/else branches are
    followed separately and joined by intersection, a `return` ends its path, loops are iterated to a fixpoint;
  * every access to a data member of a class of namespace tulz is recorded with: the member, the symbolic object it
    belongs to (relative to the entry point's `this`), read or write, the declared type class (plain / std::atomic /
    synchronisation object), the locks held, whether it is a constructor initialising its own object, and the contract
    conditions (`!observer->isValid()`) the access is control-dependent on;
  * calls to functions with a body in namespace tulz are inlined with the callee's `this` / reference / pointer
    parameters bound to the caller's symbolic objects (recursion is cut when the same function is re-entered with the
    same abstract arguments), calls to anything else (std::) read or write the object they are applied to according
    to the const-ness of the called member (plus the members the standard declares race-free: begin, end, find, ...);
  * a lambda handed to `std::thread` is executed with an empty lock set and `spawned = true`; any other lambda is
    executed where it is handed over (condition-variable predicates, algorithm callbacks, factories);
  * automatic objects of tulz classes: their constructor runs at the declaration, their user-provided destructor at the
    end of the scope (before the guards of that scope are released); what their reference / pointer members were bound
    to in the constructor is remembered; by-value copies keep pointing into the world of their source; members of
    automatic objects themselves are thread-local and not recorded; arguments of an entry point are taken to be the
    calling thread's own objects (assumption A3);
  * virtual calls of `Runnable::run` and calls of `std::function` objects / function pointers are *boundaries* (user
    code): recorded in the evidence, not followed; other virtual calls are followed into every overrider in the AST;
  * contract conditions: an `if` whose condition contains `!observer->isValid()` (1) or `!m_removedObservers.empty()` (2)
    marks the accesses of its THEN branch; the Lean side decides whether the intended use excludes them.

FAIL CLOSED: an AST node kind, a lock operation, a guard form or a template the interpreter does not understand
becomes an `unknown` entry, which makes the Lean obligation `C15_table_follows` fail.  A clang error fails the translator.

The result is written as Lean data; nothing is judged here.  Roles and rules live in lean/Tulz/Model/Discipline.lean.
"""
import hashlib
import json
import os
import re
import shutil
import subprocess
import sys

VERIF = os.path.dirname(os.path.dirname(os.path.dirname(os.path.abspath(__file__))))
PROBE = os.path.join(VERIF, "harness", "drf", "ast_probe.cpp")
DISCIPLINE = os.path.join(VERIF, "lean", "Tulz", "Model", "Discipline.lean")

# entry points are taken from classes DEFINED in these files (relative to the repository root)
ANALYSED = [
    "src/threading/rwp/Resource.cpp", "include/tulz/threading/rwp/Resource.h",
    "include/tulz/threading/rwp/ReadLock.h", "include/tulz/threading/rwp/WriteLock.h",
    "include/tulz/threading/ThreadPool.h", "src/threading/ThreadPool.cpp",
    "include/tulz/threading/Thread.h", "src/threading/Thread.cpp",
    "include/tulz/observer/routing/ConcurrentSubjectRouter.h",
]

SCOPED_GUARDS = ("std::unique_lock<", "std::scoped_lock<", "std::lock_guard<", "unique_lock<", "scoped_lock<", "lock_guard<")
RW_GUARDS = {"tulz::rwp::ReadLock": "shared", "rwp::ReadLock": "shared", "ReadLock": "shared",
             "tulz::rwp::WriteLock": "excl", "rwp::WriteLock": "excl", "WriteLock": "excl"}
# [container.requirements.dataraces]: these non-const members count as const for the purpose of data races;
# plus smart-pointer observers that are non-const only by overload
RACE_FREE_NONCONST = {"begin", "end", "rbegin", "rend", "front", "back", "data", "find", "lower_bound", "upper_bound",
                      "equal_range", "at", "before_begin", "operator->", "operator*", "get"}
# library functions that only read (copy / forward from) the lvalues handed to them; an xvalue (std::move) is written.
# Everything else WRITES the lvalues it is handed without a const conversion (conservative default).
FORWARDING = {"emplace_front", "emplace_back", "emplace", "emplace_after", "emplace_hint", "push_back", "push_front", "insert",
              "insert_after", "make_unique", "make_shared", "make_pair", "make_tuple", "forward_as_tuple", "construct_at", "invoke",
              "max", "min", "operator()"}
BOUNDARY_VIRTUALS = {"tulz::Runnable::run"}
# contract conditions: id -> description (the Lean side lists the excluded ids)
COND_OBSERVER_INVALID = 1
COND_REMOVED_DURING_NOTIFY = 2
COND_TEXT = {COND_OBSERVER_INVALID: "!observer->isValid()  (an observer was invalidated)",
             COND_REMOVED_DURING_NOTIFY: "!m_removedObservers.empty()  (an observer was removed while a notification round was in progress: "
                                         "needs an invalidated observer or a callback that unsubscribes)"}


class TranslateError(Exception):
    pass


# ------------------------------------------------------------------------------------------------ AST loading

def find_clang():
    for c in ("clang++-16", "clang++-17", "clang++-18", "clang++-19", "clang++-20", "clang++"):
        p = shutil.which(c)
        if not p:
            continue
        out = subprocess.run([p, "--version"], stdout=subprocess.PIPE, stderr=subprocess.STDOUT, text=True).stdout
        m = re.search(r"clang version (\d+)", out)
        if m and int(m.group(1)) >= 16:
            return p, out.splitlines()[0]
    raise TranslateError("no clang++ >= 16 found (needed to parse the C++20 headers of the repository)")


def dump_ast(repo):
    clang, version = find_clang()
    cmd = [clang, "-std=gnu++20", "-fsyntax-only", "-I" + os.path.join(repo, "include"), "-I" + os.path.join(repo, "src"),
           "-Xclang", "-ast-dump=json", "-Xclang", "-ast-dump-filter=tulz", PROBE]
    p = subprocess.run(cmd, stdout=subprocess.PIPE, stderr=subprocess.PIPE, text=True, timeout=600)
    if p.returncode != 0 or re.search(r"\berror:", p.stderr):
        raise TranslateError("clang rejected the probe translation unit:\n" + p.stderr[-3000:])
    dec = json.JSONDecoder()
    s = p.stdout
    i, n, tops = 0, len(s), []
    while i < n:
        while i < n and s[i].isspace():
            i += 1
        if i >= n:
            break
        if s[i] != "{":          # "Dumping tulz::...:" header lines of the text dumper never appear in json mode; be safe
            j = s.find("\n", i)
            i = n if j < 0 else j + 1
            continue
        o, i = dec.raw_decode(s, i)
        tops.append(o)
    return tops, version, " ".join(cmd)


class Ast:
    """index of the dumped declarations; resolves clang's elided file/line fields"""

    def __init__(self, tops, repo):
        self.repo = os.path.realpath(repo)
        self.by_id = {}
        self.parent = {}
        self.defs = {}          # first-declaration id -> defining node (with a body)
        self.first = {}         # any redeclaration id -> first-declaration id
        self.last_file = None
        self.last_line = None
        seen = set()
        self.tops = []
        for t in tops:          # the filter dumps nested matches again: keep each top-level id once for walking,
            self._annot(t, None)    # but resolve the elided locations of ALL of them (the elision state runs through the dump)
            if t.get("id") in seen:
                continue
            seen.add(t.get("id"))
            self.tops.append(t)
        for nid, n in list(self.by_id.items()):
            f = nid
            hops = 0
            while self.by_id.get(f, {}).get("previousDecl") in self.by_id and hops < 50:
                f = self.by_id[f]["previousDecl"]
                hops += 1
            self.first[nid] = f
        for nid, n in self.by_id.items():
            if n.get("kind") in FUNC_KINDS and has_body(n):
                self.defs[self.first[nid]] = n

    def _loc(self, d):
        """update the running file/line from one bare source location dict; returns (file, line)"""
        if not isinstance(d, dict):
            return None
        for sub in ("spellingLoc", "expansionLoc"):
            if sub in d:
                r = None
                for s2 in ("spellingLoc", "expansionLoc"):
                    if s2 in d:
                        r = self._loc(d[s2])
                return r
        if "file" in d:
            self.last_file = d["file"]
        if "line" in d:
            self.last_line = d["line"]
        if "offset" in d:
            return (self.last_file, self.last_line)
        return None

    def _annot(self, n, parent):
        if not isinstance(n, dict):
            return
        if not n.get("kind", "").endswith("Decl"):
            # statements and expressions are transparent for the declaration hierarchy
            pass
        here = None
        if "loc" in n:
            here = self._loc(n["loc"]) or here
        if "range" in n:
            b = self._loc(n["range"].get("begin"))
            self._loc(n["range"].get("end"))
            here = here or b
        n["_at"] = here or (self.last_file, self.last_line)
        if "id" in n and n.get("kind", "").endswith("Decl"):
            # a decl can be dumped twice (filter); keep the one with more content
            old = self.by_id.get(n["id"])
            if old is None or len(n.get("inner", [])) >= len(old.get("inner", [])):
                self.by_id[n["id"]] = n
            if parent is not None:
                self.parent[n["id"]] = parent
        nxt = n if n.get("kind", "").endswith("Decl") and "id" in n else parent
        for c in n.get("inner", []):
            self._annot(c, nxt)

    def rel(self, path):
        if not path:
            return "?"
        rp = os.path.realpath(path)
        if rp.startswith(self.repo + os.sep):
            return rp[len(self.repo) + 1:]
        if rp.startswith(os.path.realpath(VERIF) + os.sep):
            return "<verif>/" + rp[len(os.path.realpath(VERIF)) + 1:]
        return path

    def at(self, n):
        f, l = n.get("_at", (None, None))
        return "%s:%s" % (self.rel(f), l)

    # ---- names
    def context_of(self, n):
        """the semantic parent (record / namespace) of a declaration"""
        pid = n.get("parentDeclContextId")
        if pid and pid in self.by_id:
            return self.by_id[pid]
        f = self.first.get(n.get("id"), n.get("id"))
        if f != n.get("id") and f in self.by_id:
            fn = self.by_id[f]
            if fn.get("parentDeclContextId") in self.by_id:
                return self.by_id[fn["parentDeclContextId"]]
            p = self.parent.get(f)
        else:
            p = self.parent.get(n.get("id"))
        while p is not None and p.get("kind") in ("FunctionTemplateDecl", "ClassTemplateDecl", "LinkageSpecDecl"):
            p = self.parent.get(p.get("id"))
        return p

    def record_name(self, r):
        name = r.get("name", "")
        if r.get("kind") == "ClassTemplateSpecializationDecl":
            args = [a.get("type", {}).get("qualType", a.get("value", "?")) for a in r.get("inner", []) if a.get("kind") == "TemplateArgument"]
            flat = []
            for a in r.get("inner", []):
                if a.get("kind") == "TemplateArgument":
                    if "type" in a:
                        flat.append(a["type"].get("qualType", "?"))
                    elif a.get("inner") is not None and all(x.get("kind") == "TemplateArgument" for x in a["inner"]):
                        flat.extend(x.get("type", {}).get("qualType", "?") for x in a["inner"])
                    elif a.get("kind") == "TemplateArgument" and not a.get("inner") and "value" not in a and "decl" not in a:
                        pass                          # empty pack or template-template argument
                    else:
                        flat.append(str(a.get("value", "?")))
            name += "<" + ", ".join(flat) + ">"
        return name

    def qual(self, n):
        parts = []
        cur = n
        hops = 0
        while cur is not None and hops < 30:
            k = cur.get("kind")
            if k in ("CXXRecordDecl", "ClassTemplateSpecializationDecl", "ClassTemplatePartialSpecializationDecl"):
                parts.append(self.record_name(cur))
            elif k == "NamespaceDecl":
                parts.append(cur.get("name", "(anonymous)"))
            elif k in FUNC_KINDS or k in ("FieldDecl", "VarDecl"):
                parts.append(cur.get("name", "?"))
            elif k == "TranslationUnitDecl":
                break
            cur = self.context_of(cur) if k != "NamespaceDecl" else self.parent.get(cur.get("id"))
            hops += 1
        return "::".join(reversed(parts))


FUNC_KINDS = ("CXXMethodDecl", "FunctionDecl", "CXXConstructorDecl", "CXXDestructorDecl", "CXXConversionDecl")
RECORD_KINDS = ("CXXRecordDecl", "ClassTemplateSpecializationDecl")


def has_body(fn):
    if fn.get("explicitlyDefaulted") == "default":
        return True
    return any(c.get("kind") == "CompoundStmt" for c in fn.get("inner", []))


def qt(n):
    return n.get("type", {}).get("qualType", "")


def desugared(n):
    t = n.get("type", {})
    return t.get("desugaredQualType", t.get("qualType", ""))


# ------------------------------------------------------------------------------------------------ symbolic objects

SELF = ("self",)
UNKNOWN = ("unknown",)
LOCAL = ("local", 0)        # an object with automatic storage (local variable, temporary, by-value parameter);
                            # ("local", k), k > 0: a local of class type with identity (its reference members are tracked)


def is_local(o):
    return base_of(o)[0] == "local"


def base_of(o):
    while o[0] in ("field", "within"):
        o = o[1]
    return o


def norm(o):
    if o[0] == "within":
        i = norm(o[1])
        if i[0] == "within":
            return i
        if i[0] in ("unknown", "local"):
            return i
        return ("within", i)
    if o[0] == "field":
        i = norm(o[1])
        if i[0] == "within":
            return i
        if i[0] in ("unknown", "local"):
            return i
        return ("field", i, o[2])
    return o


def within(o):
    return norm(("within", o))


def obj_text(o):
    if o[0] == "self":
        return "this"
    if o[0] == "field":
        return "%s.%s" % (obj_text(o[1]), o[2][1])
    if o[0] == "within":
        return "[%s]" % obj_text(o[1])
    if o[0] == "fresh":
        return "new#%d" % o[1]
    if o[0] == "local":
        return "<local>"
    return "?"


class LV:
    """designated object + the member location that is charged when the designation itself is read or written"""
    __slots__ = ("obj", "via", "lam", "holds")

    def __init__(self, obj=UNKNOWN, via=None, lam=None, holds=None):
        self.obj, self.via, self.lam, self.holds = obj, via, lam, holds


class Ctx:
    """one activation (function or lambda body)"""

    count = 0

    def __init__(self, this, env, fn_node, init_obj=None):
        self.this, self.env, self.fn, self.init_obj = this, env, fn_node, init_obj
        Ctx.count += 1
        self.serial = Ctx.count


class Terminated(Exception):
    pass


# ------------------------------------------------------------------------------------------------ interpreter

class Interp:
    def __init__(self, ast):
        self.ast = ast
        self.entries = []
        self.seen = set()
        self.boundaries = set()
        self.notes = []
        self.fresh_n = 0
        self.root = None
        self.stack = []         # call chain (names)
        self.active = []        # recursion keys
        self.guards = []        # list of dicts {obj, field, mode, var, scope}
        self.conds = []
        self.spawned = False
        self.scope_depth = 0
        self.member_types = {}
        self.ctor_objs = []     # objects under construction (innermost last)
        self.local_bindings = {}  # (local object, member name) -> LV a reference / pointer member was initialised with
        self.local_n = 0
        self.cleanups = []      # (scope depth, destructor definition, object): destructors of automatic objects

    # ---- helpers on declarations
    def field_info(self, fid):
        n = self.ast.by_id.get(fid)
        if n is None or n.get("kind") != "FieldDecl":
            return None
        rec = self.ast.context_of(n)
        cls = self.ast.qual(rec) if rec is not None else "?"
        return (cls, n.get("name", "?"), fid)

    def tracked(self, fi):
        return fi is not None and fi[0].startswith("tulz::")

    def decl_class(self, fi):
        n = self.ast.by_id[fi[2]]
        t = desugared(n).replace("const ", "").strip()
        t0 = qt(n).replace("const ", "").replace("mutable ", "").strip()
        for s in (t, t0):
            if re.match(r"(std::)?atomic(<|_)", s) or re.match(r"std::atomic", s):
                return "atomicTy"
            if re.match(r"(std::)?(mutex|recursive_mutex|shared_mutex|condition_variable|condition_variable_any)\b", s):
                return "syncTy"
            if re.match(r"^(tulz::)?(rwp::)?Resource$", s.strip()):
                return "syncTy"
        return "plain"

    def is_ref_field(self, fi):
        return qt(self.ast.by_id[fi[2]]).rstrip().endswith("&")

    def embedded(self, cls_name):
        t = self.field_types().get(cls_name, "*")
        return not (t.rstrip().endswith("*") or t.rstrip().endswith("&") or re.search(r"\b(unique_ptr|shared_ptr|weak_ptr)<", t))

    def field_types(self):
        if not hasattr(self, "_ftypes"):
            self._ftypes = {}
            for n in self.ast.by_id.values():
                if n.get("kind") == "FieldDecl":
                    fi = self.field_info(n["id"])
                    if fi:
                        self._ftypes[fi[:2]] = qt(n)
        return self._ftypes

    def under_construction(self, obj):
        """obj is an object whose constructor is running, or an embedded sub-object of one"""
        for co in self.ctor_objs:
            o = obj
            while True:
                if o == co:
                    return True
                if o[0] == "field" and self.embedded(o[2]):
                    o = o[1]
                    continue
                break
        return False

    # ---- recording
    def chain(self, n=None):
        s = " < ".join(reversed(self.stack))
        if n is not None:
            s += " @" + self.ast.at(n)
        return s

    def held(self):
        res = []
        for g in self.guards:
            t = (g["obj"], g["field"][:2], g["mode"])
            if t not in res:
                res.append(t)
        return res

    def record(self, via, mode, n, init=False):
        obj, fi = via
        if not self.tracked(fi):
            return
        self.member_types[(fi[0], fi[1])] = qt(self.ast.by_id[fi[2]])
        if self.is_ref_field(fi):
            return                                  # a reference member is not an object: nothing is accessed
        if is_local(norm(obj)):
            return                                  # member of an automatic object of this activation: thread-local
        dc = self.decl_class(fi)
        init = init or self.under_construction(norm(obj))
        e = dict(root=self.root, spawned=self.spawned, cls=fi[0], field=fi[1], obj=norm(obj), write=(mode == "w"),
                 decl=dc, guards=self.held(), init=bool(init), conds=sorted(set(self.conds)), unknown=False, site=self.chain(n))
        key = (e["root"], e["spawned"], e["cls"], e["field"], e["obj"], e["write"], e["decl"], tuple(e["guards"]), e["init"], tuple(e["conds"]))
        if key in self.seen:
            return
        self.seen.add(key)
        self.entries.append(e)

    def unknown(self, n, why):
        e = dict(root=self.root, spawned=self.spawned, cls="", field="", obj=UNKNOWN, write=True, decl="plain", guards=self.held(),
                 init=False, conds=sorted(set(self.conds)), unknown=True, site=self.chain(n) + " :: " + why)
        key = ("unknown", self.root, why, self.ast.at(n) if n is not None else "")
        if key in self.seen:
            return
        self.seen.add(key)
        self.entries.append(e)

    # ---- lvalues
    TRANSPARENT = ("ParenExpr", "ImplicitCastExpr", "CXXStaticCastExpr", "CXXReinterpretCastExpr", "CXXConstCastExpr",
                   "CStyleCastExpr", "ExprWithCleanups", "MaterializeTemporaryExpr", "CXXBindTemporaryExpr", "ConstantExpr",
                   "SubstNonTypeTemplateParmExpr", "CXXRewrittenBinaryOperator", "CXXDynamicCastExpr")

    def strip(self, n):
        while n.get("kind") in self.TRANSPARENT and n.get("inner"):
            n = n["inner"][0]
        return n

    def lv(self, n, cx):
        k = n.get("kind")
        if k in self.TRANSPARENT and n.get("inner"):
            return self.lv(n["inner"][0], cx)
        if k == "CXXFunctionalCastExpr" and n.get("inner") and n.get("castKind") != "ConstructorConversion":
            return self.lv(n["inner"][0], cx)
        if k == "CXXThisExpr":
            return LV(cx.this)
        if k == "UnaryOperator" and n.get("opcode") in ("&", "__extension__"):
            return self.lv(n["inner"][0], cx)
        if k == "UnaryOperator" and n.get("opcode") == "*":
            b = self.lv(n["inner"][0], cx)
            if is_local(b.obj) and self.strip(n["inner"][0]).get("kind") != "CXXThisExpr":
                return LV(b.holds if b.holds is not None else UNKNOWN)      # pointee of a pointer kept in a local object
            return b
        if k == "MemberExpr":
            fi = self.field_info(n.get("referencedMemberDecl"))
            b = self.lv(n["inner"][0], cx) if n.get("inner") else LV()
            if n.get("isArrow") and is_local(b.obj) and n.get("inner") and self.strip(n["inner"][0]).get("kind") != "CXXThisExpr":
                b = LV(b.holds if b.holds is not None else UNKNOWN)           # pointee of a pointer kept in a local object
            if fi is not None and is_local(b.obj) and not self.embedded(fi[:2]):
                # a reference / pointer member of an automatic object designates whatever it was bound to
                bound = self.local_bindings.get((b.obj, fi[1]))
                if bound is not None:
                    return LV(bound.obj, None)
                if base_of(b.obj)[1] == 0:
                    # an anonymous automatic object (argument of the entry point, by-value copy): what it refers to is what
                    # the copy source referred to, else the caller's own data (assumption A3)
                    return LV(b.holds if b.holds is not None else LOCAL)
                return LV(UNKNOWN)
            if fi is None:
                return LV(b.obj, b.via)
            if self.tracked(fi):
                if self.is_ref_field(fi):
                    return LV(norm(("field", b.obj, fi[:2])), None)
                return LV(norm(("field", b.obj, fi[:2])), (b.obj, fi))
            return LV(within(b.obj), b.via)
        if k == "DeclRefExpr":
            rid = n.get("referencedDecl", {}).get("id")
            if rid in cx.env:
                return cx.env[rid]
            return LV()
        if k in ("CXXMemberCallExpr", "CXXOperatorCallExpr", "CallExpr"):
            return self.call_result_lv(n, cx)
        if k == "ArraySubscriptExpr":
            b = self.lv(n["inner"][0], cx)
            return LV(within(b.obj), b.via)
        if k == "CXXNewExpr":
            return self.call_result_lv(n, cx)
        if k in ("CXXConstructExpr", "CXXTemporaryObjectExpr"):
            r = self.call_result_lv(n, cx, None)
            return r if r is not None else LV(LOCAL)
        if k == "CXXFunctionalCastExpr" and n.get("inner"):
            return self.lv(n["inner"][0], cx)
        if k == "LambdaExpr":
            return LV(UNKNOWN, None, (n, cx))
        return LV()

    def set_res(self, n, cx, l):
        n["_res"] = (cx.serial, l)

    def call_result_lv(self, n, cx, default=False):
        """what a call / new / construct expression designates — valid only if it was evaluated in THIS activation"""
        r = n.get("_res")
        if r is not None and r[0] == cx.serial:
            return r[1]
        return LV() if default is False else default

    # ---- const-ness
    @staticmethod
    def is_const_type(t):
        t = t.strip()
        return t.startswith("const ") or t.endswith(" const") or " const &" in t or " const *" in t and False

    def obj_is_const(self, objexpr):
        """the implicit object argument is (converted to) const"""
        n = objexpr
        while True:
            t = qt(n)
            if self.is_const_type(t):
                return True
            if n.get("kind") in ("ImplicitCastExpr", "ParenExpr") and n.get("inner"):
                n = n["inner"][0]
                if n.get("kind") == "ImplicitCastExpr" or n.get("kind") == "ParenExpr":
                    continue
                return self.is_const_type(qt(n))
            return False

    # ---- expressions
    def ev(self, n, cx, mode="r"):
        k = n.get("kind")
        if k is None:
            return
        if k == "ImplicitCastExpr":
            ck = n.get("castKind")
            if ck == "LValueToRValue":
                return self.ev(n["inner"][0], cx, "r" if mode != "n" else "r")
            if mode == "w" and self.is_const_type(qt(n)):
                mode = "r"
            return self.ev(n["inner"][0], cx, mode)
        if k in self.TRANSPARENT:
            for c in n.get("inner", []):
                self.ev(c, cx, mode)
            return
        if k == "CXXFunctionalCastExpr":
            for c in n.get("inner", []):
                self.ev(c, cx, mode)
            return
        if k in ("MemberExpr", "DeclRefExpr") and mode == "w" and self.is_const_type(qt(n)):
            mode = "r"
        if k == "MemberExpr":
            if n.get("inner"):
                self.ev(n["inner"][0], cx, "n")
            l = self.lv(n, cx)
            if mode in ("r", "w") and l.via is not None:
                self.record(l.via, mode, n, init=False)
            return
        if k == "DeclRefExpr":
            rid = n.get("referencedDecl", {}).get("id")
            l = cx.env.get(rid)
            if l is not None and l.via is not None and mode in ("r", "w"):
                self.record(l.via, mode, n)
            return
        if k == "CXXThisExpr":
            return
        if k == "BinaryOperator":
            op = n.get("opcode")
            a, b = n["inner"][0], n["inner"][1]
            if op == "=":
                self.ev(b, cx, "r")
                self.ev(a, cx, "w")
            elif op in (".*", "->*"):
                self.unknown(n, "pointer-to-member operator")
            else:
                self.ev(a, cx, "r" if op != "," else "n")
                self.ev(b, cx, "r" if op != "," else mode)
            return
        if k == "CompoundAssignOperator":
            self.ev(n["inner"][1], cx, "r")
            self.ev(n["inner"][0], cx, "w")
            return
        if k == "UnaryOperator":
            op = n.get("opcode")
            if op in ("++", "--"):
                return self.ev(n["inner"][0], cx, "w")
            if op == "&":
                return self.ev(n["inner"][0], cx, "w")      # address escapes: conservative
            if op == "*":
                return self.ev(n["inner"][0], cx, "r")
            return self.ev(n["inner"][0], cx, "r")
        if k in ("ConditionalOperator", "BinaryConditionalOperator"):
            self.ev(n["inner"][0], cx, "r")
            g0 = list(self.guards)
            outs = []
            for c in n["inner"][1:]:
                self.guards = list(g0)
                try:
                    self.ev(c, cx, mode)
                    outs.append(list(self.guards))
                except Terminated:
                    pass
            self.guards = self.meet(outs) if outs else g0
            return
        if k in ("CXXMemberCallExpr", "CXXOperatorCallExpr", "CallExpr"):
            return self.call(n, cx, mode)
        if k in ("CXXConstructExpr", "CXXTemporaryObjectExpr"):
            return self.construct(n, cx, None)
        if k == "CXXNewExpr":
            return self.new_expr(n, cx)
        if k == "CXXDeleteExpr":
            for c in n.get("inner", []):
                self.ev(c, cx, "r")
            return
        if k == "LambdaExpr":
            # a lambda that is neither handed to a call nor to std::thread: executed here (conservative: same locks)
            return self.run_lambda(n, cx, [], n)
        if k in ("InitListExpr", "CXXStdInitializerListExpr", "ParenListExpr", "CXXParenListInitExpr"):
            for c in n.get("inner", []):
                self.ev(c, cx, "r")
            return
        if k in ("CXXDefaultArgExpr", "CXXDefaultInitExpr"):
            for c in n.get("inner", []):
                self.ev(c, cx, "r")
            return
        if k == "ArraySubscriptExpr":
            self.ev(n["inner"][0], cx, mode)
            self.ev(n["inner"][1], cx, "r")
            return
        if k == "CXXThrowExpr":
            for c in n.get("inner", []):
                self.ev(c, cx, "r")
            raise Terminated()
        if k in ("IntegerLiteral", "CXXBoolLiteralExpr", "CXXNullPtrLiteralExpr", "StringLiteral", "FloatingLiteral",
                 "CharacterLiteral", "PredefinedExpr", "CXXScalarValueInitExpr", "ImplicitValueInitExpr",
                 "UnaryExprOrTypeTraitExpr", "TypeTraitExpr", "ConceptSpecializationExpr", "CXXNoexceptExpr", "GNUNullExpr",
                 "SizeOfPackExpr", "RequiresExpr", "OpaqueValueExpr", "UserDefinedLiteral", "SourceLocExpr"):
            return
        self.unknown(n, "expression kind %s not understood" % k)

    # ---- calls
    def callee_of(self, n):
        """-> (decl id or None, referenced decl summary, object expr or None, args)"""
        k = n["kind"]
        inner = n.get("inner", [])
        if k == "CXXMemberCallExpr":
            me = self.strip(inner[0])
            if me.get("kind") == "MemberExpr":
                return me.get("referencedMemberDecl"), {"name": me.get("name"), "member": True}, me["inner"][0] if me.get("inner") else None, inner[1:]
            return None, {"name": "?"}, None, inner[1:]
        c = self.strip(inner[0])
        if c.get("kind") == "DeclRefExpr":
            rd = c.get("referencedDecl", {})
            if rd.get("kind") in ("CXXMethodDecl", "CXXConversionDecl") and k == "CXXOperatorCallExpr":
                return rd.get("id"), {"name": rd.get("name"), "member": True, "type": rd.get("type", {}).get("qualType", "")}, inner[1], inner[2:]
            if rd.get("kind") in ("FunctionDecl", "CXXMethodDecl"):
                return rd.get("id"), {"name": rd.get("name"), "member": False, "type": rd.get("type", {}).get("qualType", "")}, None, inner[1:]
            # calling a local callable: function pointer, lambda parameter
            return None, {"name": rd.get("name"), "callable": c}, None, inner[1:]
        if c.get("kind") == "MemberExpr":
            # call through a data member (function pointer member `m_ptr(...)`) or a static member function
            fid = c.get("referencedMemberDecl")
            if self.field_info(fid) is not None:
                return None, {"name": c.get("name"), "callable": c}, None, inner[1:]
            return fid, {"name": c.get("name"), "member": False}, None, inner[1:]
        return None, {"name": "?", "callable": c}, None, inner[1:]

    def fn_def(self, did):
        if did is None:
            return None
        f = self.ast.first.get(did, did)
        d = self.ast.defs.get(f)
        if d is None:
            # an instantiated member of a class template specialisation refers to its own decl
            n = self.ast.by_id.get(did)
            if n is not None and has_body(n):
                d = n
        return d

    def type_of_objexpr(self, e):
        n = self.strip(e)
        t = desugared(n) or qt(n)
        t2 = qt(n)
        return t.replace("const ", "").strip(), t2.replace("const ", "").strip()

    def call(self, n, cx, mode):
        did, info, objexpr, args = self.callee_of(n)
        name = info.get("name") or "?"
        self.set_res(n, cx, LV())
        # ---- calling a local callable / std::function / function pointer
        if "callable" in info:
            c = info["callable"]
            l = self.lv(c, cx)
            self.ev(c, cx, "r")
            for a in args:
                self.ev(a, cx, "w")
            if l.lam is not None:
                self.set_res(n, cx, self.run_lambda(l.lam[0], l.lam[1], args, n, cx) or LV())
            else:
                self.boundaries.add("call of a callable object `%s` (%s)" % (name, self.ast.at(n)))
            return
        # ---- operator() of a closure whose lambda expression is known (a lambda handed to a helper as `F &&fn`, then `fn()`):
        # run the lambda's body in its defining context (its `this`, its captures), not as a method of an unknown object
        if objexpr is not None and name == "operator()" and n.get("kind") == "CXXOperatorCallExpr":
            l = self.lv(objexpr, cx)
            if l.lam is not None:
                self.ev(objexpr, cx, "r")
                self.set_res(n, cx, self.run_lambda(l.lam[0], l.lam[1], args, n, cx) or LV())
                return
        objl = None
        ot = ot2 = ""
        if objexpr is not None:
            self.ev(objexpr, cx, "n")                # loads of the pointers on the way, nested calls (once)
            objl = self.lv(objexpr, cx)
            ot, ot2 = self.type_of_objexpr(objexpr)
        decl = self.ast.by_id.get(did) if did else None
        qn = self.ast.qual(decl) if decl is not None else name

        # ---- synchronisation objects and guards
        sync = self.sync_call(n, cx, name, objexpr, objl, ot, ot2, args)
        if sync:
            return
        d = self.fn_def(did)
        if d is not None and decl is not None and qn.startswith("tulz::"):
            if decl.get("virtual") and self.ast.qual(self.ast.by_id.get(self.ast.first.get(did, did), decl)) in BOUNDARY_VIRTUALS:
                d = None
        if decl is not None and qn in BOUNDARY_VIRTUALS or (decl is not None and decl.get("pure")):
            for a in args:
                self.ev(a, cx, "r")
            if decl.get("pure") and qn not in BOUNDARY_VIRTUALS:
                ovs = self.overriders(decl)
                if not ovs:
                    self.boundaries.add("pure virtual %s without an analysable overrider (%s)" % (qn, self.ast.at(n)))
                for ov in ovs:
                    self.inline(ov, n, cx, objl, args, virtual_target=True)
            else:
                self.boundaries.add("virtual %s: user task or PooledRunnable::run/TRunnable::run (entry points of their own) (%s)" % (qn, self.ast.at(n)))
            return
        if d is not None and qn.startswith("tulz::"):
            res = self.inline(d, n, cx, objl, args)
            if decl.get("virtual") and not self.is_qualified_call(n):
                for ov in self.overriders(decl):
                    if ov is not d:
                        self.inline(ov, n, cx, objl, args, virtual_target=True)
            self.set_res(n, cx, res or LV())
            return
        if decl is not None and qn.startswith("tulz::") and decl.get("kind") in FUNC_KINDS and not decl.get("isImplicit") \
                and decl.get("explicitlyDefaulted") is None and not has_body(decl) and self.fn_def(did) is None:
            # a tulz function the probe cannot see the body of: treat like an opaque library function but say so
            self.notes.append("no body for %s in the probe: treated as an opaque library function (const-ness rule)" % qn)
        # ---- opaque (library) function
        if objexpr is not None and name == "operator()" and re.match(r"(std::)?function<", ot + " " + ot2) or \
                objexpr is not None and name == "operator()" and re.search(r"\bFunc\b|std::function<", ot + " " + ot2):
            self.boundaries.add("call of a std::function member (user callback) (%s)" % self.ast.at(n))
        if objexpr is not None:
            const = self.obj_is_const(objexpr) or re.search(r"\)\s*const\b", info.get("type", "") or "") is not None
            m = "r" if (const or name in RACE_FREE_NONCONST) else "w"
            if objl is not None and objl.via is not None:
                self.record(objl.via, m, n)
        first_obj = objl
        for a in args:
            sa = self.strip(a)
            if sa.get("kind") == "LambdaExpr":
                continue
            if name == "move" and info.get("member") is False:
                self.ev(a, cx, "w")                   # moved-from
            elif name in ("forward", "addressof", "as_const") and info.get("member") is False:
                self.ev(a, cx, mode)
            elif name in FORWARDING:
                self.ev(a, cx, "r")
            else:
                self.ev(a, cx, "w")
            if objl is not None and is_local(objl.obj) and name in FORWARDING:
                # a local container remembers what was put into it
                l = self.lv(a, cx)
                if l.obj != UNKNOWN and not is_local(l.obj):
                    objl.holds = l.obj if objl.holds in (None, l.obj) else (objl.holds if within(objl.holds) == within(l.obj) else UNKNOWN)
            if first_obj is None:
                l = self.lv(a, cx)
                if l.obj != UNKNOWN and not is_local(l.obj):
                    first_obj = l
        for a in args:
            sa = self.strip(a)
            if sa.get("kind") == "LambdaExpr":
                bind = LV(within(first_obj.obj), first_obj.via) if first_obj is not None else LV()
                self.run_lambda(sa, cx, None, n, cx, default_param=bind)
        if name in ("move", "forward", "addressof", "as_const", "get") and args and info.get("member") is False:
            self.set_res(n, cx, self.lv(args[0], cx))
        elif objl is not None and is_local(objl.obj) and objl.holds is not None:
            self.set_res(n, cx, LV(objl.holds, None))
        elif objl is not None and is_local(objl.obj) and name in ("operator*", "operator->", "get"):
            self.set_res(n, cx, LV(UNKNOWN))   # pointee of a local smart pointer / iterator of unknown provenance
        elif objl is not None:
            self.set_res(n, cx, LV(within(objl.obj), objl.via))
        elif first_obj is not None:
            self.set_res(n, cx, LV(within(first_obj.obj), first_obj.via))

    def is_qualified_call(self, n):
        me = self.strip(n["inner"][0])
        return me.get("kind") == "MemberExpr" and me.get("hasQualifier", False) or self._has_qualifier(me)

    def _has_qualifier(self, me):
        # clang's json marks a qualified member call by a nested-name qualifier only in text dumps; use the heuristic
        # that a call `Base<...>::f()` on the implicit `this` with a base-class cast is qualified
        if me.get("kind") != "MemberExpr" or not me.get("inner"):
            return False
        b = me["inner"][0]
        return b.get("kind") == "ImplicitCastExpr" and b.get("castKind") in ("UncheckedDerivedToBase", "DerivedToBase") and \
            self.strip(b).get("kind") == "CXXThisExpr" and b.get("isPartOfExplicitCast") is None and me.get("_qualified", True)

    def bases_of(self, rec):
        res = []
        for b in rec.get("bases", []) or []:
            t = b.get("type", {})
            res.append(t.get("desugaredQualType", t.get("qualType", "")))
        return res

    def derives_from(self, rec, base_qual, depth=0):
        if rec is None or depth > 8:
            return False
        for b in self.bases_of(rec):
            bq = b if b.startswith("tulz::") else "tulz::" + b
            if bq == base_qual or b == base_qual:
                return True
            for r in self.records():
                if self.ast.qual(r) in (bq, b) and self.derives_from(r, base_qual, depth + 1):
                    return True
        return False

    def records(self):
        if not hasattr(self, "_records"):
            self._records = [n for n in self.ast.by_id.values() if n.get("kind") in RECORD_KINDS and n.get("completeDefinition")]
        return self._records

    def overriders(self, decl):
        base_rec = self.ast.context_of(decl)
        bq = self.ast.qual(base_rec) if base_rec is not None else ""
        res = []
        for r in self.records():
            if r is base_rec or not self.derives_from(r, bq):
                continue
            for m in r.get("inner", []):
                if m.get("kind") in FUNC_KINDS and m.get("name") == decl.get("name") and qt(m).split(")")[0] == qt(decl).split(")")[0]:
                    d = self.fn_def(m.get("id"))
                    if d is not None:
                        res.append(d)
        return res

    def sync_call(self, n, cx, name, objexpr, objl, ot, ot2, args):
        """mutex / condition variable / guard objects / atomics; returns True when handled"""
        def isty(*pats):
            return any(re.match(p, ot) or re.match(p, ot2) for p in pats)
        if objexpr is None:
            return False
        if isty(r"(std::)?mutex\b"):
            if objl is None or objl.via is None:
                self.unknown(n, "lock operation on a mutex that is not a member")
                return True
            self.record(objl.via, "w", n)
            g = dict(obj=objl.via[0], field=objl.via[1], mode="excl", var=None, scope=None)
            if name == "lock":
                self.guards.append(g)
            elif name == "unlock":
                before = len(self.guards)
                for i in range(len(self.guards) - 1, -1, -1):
                    x = self.guards[i]
                    if x["obj"] == g["obj"] and x["field"][:2] == g["field"][:2] and x["var"] is None:
                        del self.guards[i]
                        break
                if len(self.guards) == before:
                    self.unknown(n, "unlock() of a mutex that is not known to be held by an explicit lock()")
            else:
                self.unknown(n, "mutex operation %s not understood" % name)
            return True
        if isty(r"(std::)?condition_variable(_any)?\b"):
            if objl is not None and objl.via is not None:
                self.record(objl.via, "w", n)
            if name in ("wait", "wait_for", "wait_until"):
                # the predicate and everything after the call run with the lock held again
                lockarg = self.strip(args[0]) if args else None
                rid = lockarg.get("referencedDecl", {}).get("id") if lockarg is not None and lockarg.get("kind") == "DeclRefExpr" else None
                if rid is None or not any(g["var"] == rid for g in self.guards):
                    self.unknown(n, "condition_variable::%s with a lock that is not a held guard variable" % name)
                for a in args[1:]:
                    sa = self.strip(a)
                    if sa.get("kind") == "LambdaExpr":
                        self.run_lambda(sa, cx, [], n, cx)
                    else:
                        self.ev(a, cx, "r")
            elif name not in ("notify_one", "notify_all"):
                self.unknown(n, "condition_variable operation %s not understood" % name)
            return True
        if isty(r"(std::)?(unique_lock|scoped_lock|lock_guard)<"):
            sobj = self.strip(objexpr)
            rid = sobj.get("referencedDecl", {}).get("id") if sobj.get("kind") == "DeclRefExpr" else None
            if name == "unlock" and rid is not None:
                self.guards = [g for g in self.guards if g["var"] != rid]
            elif name in ("owns_lock", "mutex", "operator bool"):
                pass
            else:
                self.unknown(n, "guard operation %s() not understood" % name)
            return True
        if isty(r"(std::)?atomic(<|_)"):
            w = not (self.obj_is_const(objexpr) or name in ("load", "operator bool", "operator int", "is_lock_free") or name.startswith("operator ") and "=" not in name)
            if objl is not None and objl.via is not None:
                self.record(objl.via, "w" if w else "r", n)
            for a in args:
                self.ev(a, cx, "r")
            return True
        return False

    def bind_params(self, d, args, cx, env):
        params = [c for c in d.get("inner", []) if c.get("kind") == "ParmVarDecl"]
        for i, p in enumerate(params):
            if i >= len(args):
                break
            a = args[i]
            pt = qt(p).strip()
            sa = self.strip(a)
            if sa.get("kind") == "LambdaExpr":
                env[p["id"]] = LV(UNKNOWN, None, (sa, cx))
                continue
            if pt.endswith("&") or pt.endswith("&&"):
                self.ev(a, cx, "n")
                env[p["id"]] = self.lv(a, cx)
            elif pt.endswith("*") or "*" in pt and pt.endswith("const"):
                self.ev(a, cx, "r")
                l = self.lv(a, cx)
                env[p["id"]] = LV(l.obj, None, l.lam)
            else:
                self.ev(a, cx, "r")
                l = self.lv(a, cx)
                # a by-value copy: an automatic object; what it points into stays reachable from the source
                if "*" in pt:
                    env[p["id"]] = LV(l.obj, None, l.lam)
                else:
                    hold = l.holds if is_local(l.obj) else (within(l.obj) if l.obj != UNKNOWN else UNKNOWN)
                    env[p["id"]] = LV(LOCAL, None, l.lam, hold)

    def inline(self, d, call, cx, objl, args, virtual_target=False, ctor_obj=None):
        qn = self.ast.qual(d)
        this = ctor_obj if ctor_obj is not None else (objl.obj if objl is not None else UNKNOWN)
        if virtual_target and objl is not None:
            this = objl.obj
        key = (d.get("id"), this, tuple(self.held()), tuple(sorted(set(self.conds))), self.spawned)
        if key in self.active:
            return LV(within(this), None)
        if len(self.active) > 60:
            self.unknown(call, "inlining depth exceeded at %s" % qn)
            return LV()
        env = {}
        self.bind_params(d, args, cx, env)
        ncx = Ctx(this, env, d, init_obj=this if d.get("kind") == "CXXConstructorDecl" else None)
        self.active.append(key)
        self.stack.append(short(qn))
        saved_scope = self.scope_depth
        g_before = [g for g in self.guards]
        try:
            self.run_function(d, ncx)
        finally:
            self.stack.pop()
            self.active.pop()
            self.scope_depth = saved_scope
        # scoped guards of the callee are gone; explicit lock()/unlock() effects persist
        self.guards = [g for g in self.guards if g["var"] is None or g in g_before]
        rt = qt(d).split("(")[0].strip()
        if rt.endswith("&") or rt.endswith("*"):
            return LV(within(this), None)
        return LV(within(this), None)

    def run_function(self, d, cx):
        """constructor initialisers, then the body"""
        is_ctor = d.get("kind") == "CXXConstructorDecl"
        if is_ctor:
            self.ctor_objs.append(norm(cx.this))
        try:
            self.run_function2(d, cx)
        finally:
            if is_ctor:
                self.ctor_objs.pop()

    def run_function2(self, d, cx):
        if d.get("kind") == "CXXConstructorDecl":
            rec = self.ast.context_of(d)
            inits_seen = set()
            for c in d.get("inner", []):
                if c.get("kind") != "CXXCtorInitializer":
                    continue
                if "anyInit" in c:
                    fid = c["anyInit"].get("id")
                    fi = self.field_info(fid)
                    inits_seen.add(fid)
                    if fi is not None and self.tracked(fi):
                        self.record((cx.this, fi), "w", c, init=True)
                    for e in c.get("inner", []):
                        self.ev_init(e, cx, member=(cx.this, fi) if fi is not None and self.tracked(fi) else None)
                    if fi is not None and is_local(norm(cx.this)) and not self.embedded(fi[:2]) and c.get("inner"):
                        self.local_bindings[(norm(cx.this), fi[1])] = self.lv(c["inner"][0], cx)
                elif "baseInit" in c:
                    for e in c.get("inner", []):
                        self.ev_init(e, cx, base=True)
                else:
                    for e in c.get("inner", []):
                        self.ev_init(e, cx)
            if d.get("explicitlyDefaulted") == "default" and rec is not None:
                # `= default`: every member is default-initialised (in-class initialisers included)
                for m in rec.get("inner", []):
                    if m.get("kind") == "FieldDecl" and m.get("id") not in inits_seen:
                        fi = self.field_info(m["id"])
                        if fi is not None and self.tracked(fi):
                            self.record((cx.this, fi), "w", d, init=True)
        for c in d.get("inner", []):
            if c.get("kind") == "CompoundStmt":
                try:
                    self.exec_stmt(c, cx)
                except Terminated:
                    pass

    def ev_init(self, e, cx, base=False, member=None):
        k = e.get("kind")
        if k in ("CXXConstructExpr", "CXXTemporaryObjectExpr") and base:
            return self.construct(e, cx, cx.this)
        if k in ("CXXConstructExpr", "CXXTemporaryObjectExpr") and member is not None:
            return self.construct(e, cx, norm(("field", member[0], member[1][:2])))
        self.ev(e, cx, "r")

    def new_fresh(self):
        self.fresh_n += 1
        return ("fresh", self.fresh_n - 1)

    def new_expr(self, n, cx):
        o = self.new_fresh()
        self.set_res(n, cx, LV(o, None))
        for c in n.get("inner", []):
            if c.get("kind") in ("CXXConstructExpr", "CXXTemporaryObjectExpr"):
                self.construct(c, cx, o)
            else:
                self.ev(c, cx, "r")

    def local_lambda(self, a, cx):
        """the LambdaExpr a thread argument denotes when it is a local variable initialised with a lambda (possibly through
        std::move / std::forward / a copy or move construction of the closure object); None otherwise"""
        for _ in range(8):
            a = self.strip(a)
            k = a.get("kind")
            if k == "LambdaExpr":
                return a
            if k in ("CXXConstructExpr", "CXXTemporaryObjectExpr") and len(a.get("inner", [])) == 1:
                a = a["inner"][0]          # copy / move construction of the closure type
                continue
            if k == "CallExpr" and len(a.get("inner", [])) == 2:
                callee = self.strip(a["inner"][0])
                name = callee.get("referencedDecl", {}).get("name") if callee.get("kind") == "DeclRefExpr" else None
                if name in ("move", "forward"):
                    a = a["inner"][1]
                    continue
                return None
            if k == "DeclRefExpr":
                lv = cx.env.get(a.get("referencedDecl", {}).get("id"))
                if lv is not None and lv.lam is not None:
                    return lv.lam[0]
                return None
            return None
        return None

    def construct(self, n, cx, obj):
        """constructor call; obj = the object under construction when known (new / base / local variable)"""
        t = desugared(n) or qt(n)
        args = n.get("inner", [])
        if re.match(r"(std::)?thread\b", t.replace("const ", "")) or re.match(r"(std::)?jthread\b", t):
            lam = [self.strip(a) for a in args if self.strip(a).get("kind") == "LambdaExpr"]
            if len(lam) == 1 and len(args) >= 1 and self.strip(args[0]) is lam[0]:
                for a in args[1:]:
                    self.ev(a, cx, "r")
                return self.spawn(lam[0], cx, n)
            if not args:
                return
            # a closure kept in a local variable first: `auto body = [..]{..}; std::thread(std::move(body))` / `std::thread(body)`
            named = self.local_lambda(args[0], cx)
            if named is not None:
                for a in args[1:]:
                    self.ev(a, cx, "r")
                return self.spawn(named, cx, n)
            # std::thread(&Class::method, object, args…): the new thread runs object->method(copies of args…)
            first = self.strip(args[0])
            if first.get("kind") == "UnaryOperator" and first.get("opcode") == "&" and len(args) >= 2 and first.get("inner"):
                ref = self.strip(first["inner"][0])
                rd = ref.get("referencedDecl", {}) if ref.get("kind") == "DeclRefExpr" else {}
                d = self.fn_def(rd.get("id")) if rd.get("kind") == "CXXMethodDecl" else None
                if d is not None and not d.get("isImplicit"):
                    self.ev(args[1], cx, "r")
                    objl = self.lv(args[1], cx)
                    env = {}
                    self.bind_params(d, args[2:], cx, env)
                    return self.spawn_method(d, objl.obj, env, n)
            if len(args) == 1 and re.match(r"(std::)?thread\b", (desugared(self.strip(args[0])) or qt(self.strip(args[0]))).replace("const ", "")):
                return self.ev(args[0], cx, "w")        # move construction from another std::thread
            self.unknown(n, "std::thread started with something that is not a lambda")
            return
        ctor_id = None
        # clang json: CXXConstructExpr has no referenced decl id; find the constructor by class + parameter types
        rec = self.find_record(t, cx)
        d = None
        if rec is not None and self.ast.qual(rec).startswith("tulz::"):
            ctype = n.get("ctorType", {}).get("qualType")
            for m in rec.get("inner", []):
                cands = [m] if m.get("kind") == "CXXConstructorDecl" else \
                    [x for x in m.get("inner", []) if x.get("kind") == "CXXConstructorDecl"] if m.get("kind") == "FunctionTemplateDecl" else []
                for c in cands:
                    if qt(c) == ctype and (not c.get("isImplicit") or c.get("explicitlyDefaulted")):
                        dd = self.fn_def(c.get("id"))
                        if dd is not None and not dd.get("isImplicit"):
                            d = dd
            if d is None and ctype and not n.get("elidable") and not re.search(r"\((const )?%s &&?\)" % re.escape(self.ast.record_name(rec)), ctype or ""):
                implicit = any(m.get("kind") == "CXXConstructorDecl" and qt(m) == ctype and m.get("isImplicit") for m in rec.get("inner", []))
                if not implicit:
                    self.notes.append("constructor %s of %s has no body in the AST (%s): arguments evaluated only" % (ctype, self.ast.qual(rec), self.ast.at(n)))
        if d is not None:
            if obj is None:
                self.local_n += 1
                obj = ("local", self.local_n)          # a temporary
            o = obj
            self.inline(d, n, cx, None, args, ctor_obj=o)
            self.set_res(n, cx, LV(o, None))
            return
        for a in args:
            self.ev(a, cx, "w")

    def find_record(self, t, cx=None):
        t = t.replace("const ", "").replace("class ", "").replace("struct ", "").strip().rstrip("&* ").strip()
        cands = [t, "tulz::" + t]
        found = []
        for r in self.records():
            q = self.ast.qual(r)
            if q in cands or q.endswith("::" + t):
                found.append((q, r))
        if not found:
            return None
        if cx is not None and len(found) > 1:
            here = self.ast.qual(cx.fn)
            found.sort(key=lambda qr: -len(os.path.commonprefix([qr[0], here])))
        return found[0][1]

    # ---- lambdas
    def lambda_parts(self, lam):
        body = None
        params = []
        for c in lam.get("inner", []):
            if c.get("kind") == "CXXRecordDecl":
                for m in c.get("inner", []):
                    if m.get("kind") == "CXXMethodDecl" and m.get("name") == "operator()":
                        params = [p for p in m.get("inner", []) if p.get("kind") == "ParmVarDecl"]
                        body = next((x for x in m.get("inner", []) if x.get("kind") == "CompoundStmt"), body)
                    if m.get("kind") == "FunctionTemplateDecl" and m.get("name") == "operator()":
                        # generic lambda: use an instantiation when there is one, else the pattern
                        insts = [x for x in m.get("inner", []) if x.get("kind") == "CXXMethodDecl"]
                        best = None
                        for x in insts:
                            if any(y.get("kind") == "CompoundStmt" for y in x.get("inner", [])):
                                best = x if best is None or any(y.get("kind") == "TemplateArgument" for y in x.get("inner", [])) else best
                        if best is not None:
                            params = [p for p in best.get("inner", []) if p.get("kind") == "ParmVarDecl"]
                            body = next(x for x in best.get("inner", []) if x.get("kind") == "CompoundStmt")
        if body is None:
            body = next((c for c in lam.get("inner", []) if c.get("kind") == "CompoundStmt"), None)
        return params, body

    def run_lambda(self, lam, defcx, args, site, callcx=None, default_param=None):
        params, body = self.lambda_parts(lam)
        if body is None:
            self.unknown(site, "lambda without a body")
            return LV()
        key = ("lambda", lam.get("_at"), id(lam), tuple(self.held()), self.spawned)
        if key in self.active:
            return LV()
        env = dict(defcx.env)                       # captures: by reference or by copy, the designations stay the same
        for i, p in enumerate(params):
            if args is not None and i < len(args) and callcx is not None:
                self.ev(args[i], callcx, "n" if qt(p).strip().endswith("&") else "r")
                l = self.lv(args[i], callcx)
                env[p["id"]] = LV(l.obj, l.via if qt(p).strip().endswith("&") else None, l.lam)
            elif default_param is not None:
                env[p["id"]] = default_param
            else:
                env[p["id"]] = LV()
        ncx = Ctx(defcx.this, env, defcx.fn, None)
        self.active.append(key)
        self.stack.append("lambda@%s" % (lam.get("_at", ("?", "?"))[1]))
        g_before = list(self.guards)
        try:
            self.exec_stmt(body, ncx)
        except Terminated:
            pass
        finally:
            self.stack.pop()
            self.active.pop()
        self.guards = [g for g in self.guards if g["var"] is None or g in g_before]
        return LV()

    def spawn(self, lam, cx, site):
        params, body = self.lambda_parts(lam)
        if body is None:
            return self.unknown(site, "thread lambda without a body")
        # the new thread holds none of the creator's locks and does not run "inside" the creator's constructors
        saved = (self.guards, self.conds, self.spawned, self.ctor_objs, self.cleanups)
        self.guards, self.conds, self.spawned, self.ctor_objs, self.cleanups = [], [], True, [], []
        self.stack.append("new-thread lambda@%s" % (lam.get("_at", ("?", "?"))[1]))
        key = ("spawn", id(lam))
        self.active.append(key)
        try:
            ncx = Ctx(cx.this, dict(cx.env), cx.fn, None)
            self.exec_stmt(body, ncx)
        except Terminated:
            pass
        finally:
            self.active.pop()
            self.stack.pop()
            self.guards, self.conds, self.spawned, self.ctor_objs, self.cleanups = saved

    def spawn_method(self, d, this, env, site):
        """like spawn, the thread's entry being a member function"""
        saved = (self.guards, self.conds, self.spawned, self.ctor_objs, self.cleanups)
        self.guards, self.conds, self.spawned, self.ctor_objs, self.cleanups = [], [], True, [], []
        self.stack.append("new-thread " + short(self.ast.qual(d)))
        key = ("spawn", d.get("id"), this)
        if key in self.active:
            self.stack.pop()
            self.guards, self.conds, self.spawned, self.ctor_objs, self.cleanups = saved
            return
        self.active.append(key)
        saved_scope = self.scope_depth
        try:
            self.run_function(d, Ctx(this, env, d, None))
        except Terminated:
            pass
        finally:
            self.scope_depth = saved_scope
            self.active.pop()
            self.stack.pop()
            self.guards, self.conds, self.spawned, self.ctor_objs, self.cleanups = saved

    # ---- statements
    def meet(self, states):
        if not states:
            return []
        res = []
        for g in states[0]:
            if all(any(self.same_guard(g, h) for h in s) for s in states[1:]):
                res.append(g)
        return res

    @staticmethod
    def same_guard(a, b):
        return a["obj"] == b["obj"] and a["field"][:2] == b["field"][:2] and a["mode"] == b["mode"] and a["var"] == b["var"]

    def cond_ids(self, c):
        """contract conditions an if-condition implies for its THEN branch"""
        res = []
        c = self.strip(c)
        if c.get("kind") == "BinaryOperator" and c.get("opcode") == "&&":
            for x in c["inner"]:
                res += self.cond_ids(x)
            return res
        if c.get("kind") == "UnaryOperator" and c.get("opcode") == "!":
            x = self.strip(c["inner"][0])
            if x.get("kind") == "CXXMemberCallExpr":
                me = self.strip(x["inner"][0])
                if me.get("kind") == "MemberExpr" and me.get("name") == "isValid" and me.get("inner"):
                    b = me["inner"][0]
                    chain = []
                    while True:
                        chain.append(desugared(b) + " " + qt(b))
                        if b.get("kind") in self.TRANSPARENT and b.get("inner"):
                            b = b["inner"][0]
                        else:
                            break
                    if any(re.search(r"\bObserver(_t)?\b", t) for t in chain):
                        res.append(COND_OBSERVER_INVALID)
                if me.get("kind") == "MemberExpr" and me.get("name") == "empty" and me.get("inner"):
                    b = self.strip(me["inner"][0])
                    if b.get("kind") == "MemberExpr" and b.get("name") == "m_removedObservers":
                        res.append(COND_REMOVED_DURING_NOTIFY)
        return res

    def exec_block(self, stmts, cx):
        depth = self.scope_depth = self.scope_depth + 1
        try:
            for s in stmts:
                self.exec_stmt(s, cx)
        finally:
            # destructors of the automatic objects of this scope, in reverse order, before the guards of the scope go
            mine = [c for c in self.cleanups if c[0] == depth]
            self.cleanups = [c for c in self.cleanups if c[0] != depth]
            for (_, dd, obj, dcx, site) in reversed(mine):
                try:
                    self.scope_depth = depth
                    self.inline(dd, site, dcx, LV(obj), [])
                except Terminated:
                    pass
            self.guards = [g for g in self.guards if g["scope"] is None or g["scope"] < depth]
            self.scope_depth = depth - 1

    def exec_stmt(self, s, cx):
        k = s.get("kind")
        if k == "CompoundStmt":
            return self.exec_block(s.get("inner", []), cx)
        if k == "DeclStmt":
            for d in s.get("inner", []):
                self.exec_decl(d, cx)
            return
        if k == "ReturnStmt":
            for c in s.get("inner", []):
                self.ev(c, cx, "r")
            raise Terminated()
        if k == "IfStmt":
            parts = list(s.get("inner", []))
            depth = self.scope_depth = self.scope_depth + 1
            try:
                if s.get("hasInit"):
                    self.exec_stmt(parts.pop(0), cx)
                if s.get("hasVar"):
                    self.exec_stmt(parts.pop(0), cx)
                cond = parts.pop(0)
                self.ev(cond, cx, "r")
                ids = self.cond_ids(cond)
                g0 = list(self.guards)
                outs = []
                for bi, br in enumerate(parts[:2]):
                    self.guards = list(g0)
                    c0 = list(self.conds)
                    if bi == 0:
                        self.conds = self.conds + ids
                    try:
                        self.exec_block([br], cx)
                        outs.append(list(self.guards))
                    except Terminated:
                        pass
                    finally:
                        self.conds = c0
                if len(parts) < 2:
                    outs.append(g0)
                if not outs:
                    raise Terminated()
                self.guards = self.meet(outs)
            finally:
                self.guards = [g for g in self.guards if g["scope"] is None or g["scope"] < depth]
                self.scope_depth = depth - 1
            return
        if k in ("WhileStmt", "ForStmt", "DoStmt", "CXXForRangeStmt"):
            return self.exec_loop(s, cx)
        if k in ("NullStmt", "BreakStmt", "ContinueStmt"):
            # break/continue leave the loop body: the loop fixpoint already assumes any prefix of the body may have run
            if k != "NullStmt":
                self.loop_exits.append(list(self.guards)) if hasattr(self, "loop_exits") else None
                raise Terminated()
            return
        if k in ("CXXTryStmt",):
            for c in s.get("inner", []):
                if c.get("kind") == "CompoundStmt":
                    self.exec_stmt(c, cx)
                else:
                    self.unknown(c, "exception handler not analysed")
            return
        if k in ("SwitchStmt", "GotoStmt", "LabelStmt", "CaseStmt", "DefaultStmt", "CoroutineBodyStmt", "CoreturnStmt"):
            return self.unknown(s, "statement kind %s not understood" % k)
        if k is not None and (k.endswith("Expr") or k.endswith("Operator") or k == "ExprWithCleanups"):
            # an expression statement: a guard constructed here is a temporary and protects nothing
            e = self.strip(s)
            if e.get("kind") in ("CXXTemporaryObjectExpr", "CXXFunctionalCastExpr", "CXXConstructExpr"):
                t = (desugared(e) or qt(e)).replace("const ", "")
                if t.startswith(SCOPED_GUARDS) or t in RW_GUARDS:
                    self.notes.append("guard constructed as a TEMPORARY at %s: released at the end of the statement, holds nothing" % self.ast.at(s))
                    for c in e.get("inner", []):
                        self.ev(c, cx, "n")
                    return
            return self.ev(s, cx, "n")
        self.unknown(s, "statement kind %s not understood" % k)

    def exec_loop(self, s, cx):
        k = s["kind"]
        inner = s.get("inner", [])
        depth = self.scope_depth = self.scope_depth + 1
        saved_exits = getattr(self, "loop_exits", None)
        try:
            if k == "CXXForRangeStmt":
                # [init, range decl, begin decl, end decl, cond, inc, loop var decl, body]
                pre, cond, inc, var, body = inner[:4], inner[4], inner[5], inner[6], inner[7]
                for p in pre:
                    if p and p.get("kind"):
                        self.exec_stmt(p, cx)
                head = [cond]
                tail = [inc]
                bodyl = [var, body]
            elif k == "ForStmt":
                init, condvar, cond, inc, body = (inner + [{}] * 5)[:5]
                if init and init.get("kind"):
                    self.exec_stmt(init, cx)
                head, tail, bodyl = [cond], [inc], [body]
                if condvar and condvar.get("kind"):
                    head = [condvar, cond]
            elif k == "WhileStmt":
                cond, body = inner[-2], inner[-1]
                head, tail, bodyl = [cond], [], [body]
            else:
                body, cond = inner[0], inner[1]
                head, tail, bodyl = [], [cond], [body]
            entry = list(self.guards)
            for it in range(4):
                self.loop_exits = []
                self.guards = list(entry)
                ended = False
                try:
                    for h in head:
                        if h and h.get("kind"):
                            self.exec_stmt(h, cx) if h["kind"].endswith("Stmt") else self.ev(h, cx, "r")
                    after_cond = list(self.guards)
                    try:
                        for b in bodyl:
                            if b and b.get("kind"):
                                self.exec_block([b], cx) if b["kind"] != "DeclStmt" else self.exec_stmt(b, cx)
                        for t in tail:
                            if t and t.get("kind"):
                                self.ev(t, cx, "r") if not t["kind"].endswith("Stmt") else self.exec_stmt(t, cx)
                        back = list(self.guards)
                    except Terminated:
                        back = None
                except Terminated:
                    ended = True
                    after_cond = None
                    back = None
                states = [entry] + ([back] if back is not None else []) + [x for x in self.loop_exits]
                new_entry = self.meet(states)
                stable = len(new_entry) == len(entry)
                entry = new_entry
                if stable:
                    break
            # state after the loop: the condition failed at the head (or a break)
            exits = ([after_cond] if after_cond is not None else []) + list(self.loop_exits)
            infinite = False
            if k == "WhileStmt":
                c = self.strip(inner[-2])
                infinite = c.get("kind") == "CXXBoolLiteralExpr" and c.get("value") is True
            if infinite:
                exits = list(self.loop_exits)
            if not exits:
                raise Terminated()
            self.guards = self.meet(exits)
        finally:
            if saved_exits is None:
                if hasattr(self, "loop_exits"):
                    del self.loop_exits
            else:
                self.loop_exits = saved_exits
            self.guards = [g for g in self.guards if g["scope"] is None or g["scope"] < depth]
            self.scope_depth = depth - 1

    def exec_decl(self, d, cx):
        k = d.get("kind")
        if k in ("UsingDirectiveDecl", "TypeAliasDecl", "TypedefDecl", "CXXRecordDecl", "StaticAssertDecl", "UsingDecl", "EnumDecl"):
            return
        if k == "DecompositionDecl":
            init = next((c for c in d.get("inner", []) if c.get("kind") not in ("BindingDecl",)), None)
            l = LV()
            if init is not None:
                self.ev(init, cx, "n" if qt(d).strip().endswith("&") else "r")
                l = self.lv(init, cx)
                si = self.strip(init)
                if si.get("kind") == "CXXConstructExpr" and len(si.get("inner", [])) == 1:
                    # a by-value copy of the decomposed object: its pointer members still point into the source's world
                    l = self.lv(si["inner"][0], cx)
            for b in d.get("inner", []):
                if b.get("kind") == "BindingDecl":
                    cx.env[b["id"]] = LV(within(l.obj), l.via if qt(d).strip().endswith("&") else None)
            cx.env[d["id"]] = l
            return
        if k != "VarDecl":
            return self.unknown(d, "declaration kind %s not understood" % k)
        t = (desugared(d) or qt(d))
        tq = qt(d)
        init = next((c for c in d.get("inner", []) if c.get("kind") and not c["kind"].endswith("Attr") and not c["kind"].endswith("Comment")), None)
        tn = t.replace("const ", "").strip()
        tqn = tq.replace("const ", "").strip()
        # ---- scoped guards
        if tn.startswith(SCOPED_GUARDS) or tqn.startswith(SCOPED_GUARDS):
            return self.decl_guard(d, cx, init, "excl", std=True)
        if tn in RW_GUARDS or tqn in RW_GUARDS:
            return self.decl_guard(d, cx, init, RW_GUARDS.get(tn, RW_GUARDS.get(tqn)), std=False)
        if init is None:
            cx.env[d["id"]] = LV(LOCAL if "*" not in tq else UNKNOWN)
            return
        if tq.strip().endswith("&") or tq.strip().endswith("&&"):
            self.ev(init, cx, "n")
            cx.env[d["id"]] = self.lv(init, cx)      # call results are known only after evaluation
            return
        si = self.strip(init)
        if si.get("kind") == "LambdaExpr":
            cx.env[d["id"]] = LV(UNKNOWN, None, (si, cx))
            return
        if init.get("kind") in ("CXXConstructExpr", "CXXTemporaryObjectExpr") and not init.get("elidable"):
            init.pop("_res", None)
            init_res = None
            self.local_n += 1
            me = ("local", self.local_n)
            self.construct(init, cx, me)
            rec = self.find_record(desugared(init) or qt(init), cx)
            if rec is not None:
                for m in rec.get("inner", []):
                    if m.get("kind") == "CXXDestructorDecl" and not m.get("isImplicit"):
                        dd = self.fn_def(m.get("id"))
                        if dd is not None and any(x.get("kind") == "CompoundStmt" for x in dd.get("inner", [])):
                            self.cleanups.append((self.scope_depth, dd, me, cx, d))
            init_res = self.call_result_lv(init, cx, None)
            if init_res is not None and is_local(init_res.obj):
                cx.env[d["id"]] = LV(me, None)
            elif init_res is None and init.get("inner"):
                # copy / conversion from another object: what the copy refers to stays reachable from the source
                src = self.lv(init["inner"][0], cx)
                hold = src.holds if is_local(src.obj) else (within(src.obj) if src.obj != UNKNOWN else UNKNOWN)
                cx.env[d["id"]] = LV(LOCAL, None, None, hold)
            else:
                cx.env[d["id"]] = LV(LOCAL, None)
            return
        self.ev(init, cx, "r")
        l = self.lv(init, cx)
        if "*" in tq or "iterator" in tq or "auto" in tq or True:
            cx.env[d["id"]] = LV(l.obj, None, l.lam)

    def decl_guard(self, d, cx, init, mode, std):
        if init is None or init.get("kind") not in ("CXXConstructExpr", "CXXTemporaryObjectExpr", "InitListExpr", "ExprWithCleanups"):
            return self.unknown(d, "guard variable with an initialiser that is not understood")
        e = init
        while e.get("kind") == "ExprWithCleanups":
            e = e["inner"][0]
        args = e.get("inner", [])
        if not args:
            return self.unknown(d, "guard variable constructed without a lock")
        ok = True
        for a in args:
            l = self.lv(a, cx)
            at = (desugared(self.strip(a)) or qt(self.strip(a))).replace("const ", "").strip()
            if re.match(r"(std::)?(defer_lock_t|try_to_lock_t|adopt_lock_t)", at):
                ok = False
                self.unknown(d, "guard constructed with %s" % at)
                continue
            if l.obj == UNKNOWN and l.via is None:
                ok = False
                self.unknown(d, "guard on a lock object that cannot be resolved")
                continue
            sa = self.strip(a)
            if sa.get("kind") != "MemberExpr":
                ok = False
                self.unknown(d, "guard on a lock that is not named as a member")
                continue
            fi = self.field_info(sa.get("referencedMemberDecl"))
            if fi is None:
                ok = False
                self.unknown(d, "guard on a non-member lock")
                continue
            self.ev(a, cx, "n")
            bobj = self.lv(sa["inner"][0], cx).obj if sa.get("inner") else UNKNOWN
            if std:
                self.record((bobj, fi), "w", d)
            elif not self.is_ref_field(fi):
                self.record((bobj, fi), "w", d)
            self.member_types[(fi[0], fi[1])] = qt(self.ast.by_id[fi[2]])
            self.guards.append(dict(obj=norm(bobj), field=fi, mode=mode, var=d["id"], scope=self.scope_depth))
        cx.env[d["id"]] = LV()
        return ok


def short(q):
    return q[6:] if q.startswith("tulz::") else q


# ------------------------------------------------------------------------------------------------ entry points

def class_access_map(rec):
    """member id -> access specifier"""
    acc = "public" if rec.get("tagUsed") == "struct" else "private"
    res = {}
    for m in rec.get("inner", []):
        if m.get("kind") == "AccessSpecDecl":
            acc = m.get("access", acc)
        elif "id" in m:
            res[m["id"]] = acc
            if m.get("kind") == "FunctionTemplateDecl":
                for x in m.get("inner", []):
                    if "id" in x:
                        res[x["id"]] = acc
    return res


def entry_points(ast, it):
    """(qualified name, defining node, why) for every entry point; plus problems"""
    roots, problems, skipped = [], [], []
    analysed = set(ANALYSED)
    for rec in it.records():
        f = ast.rel(rec.get("_at", (None, None))[0])
        q = ast.qual(rec)
        if f not in analysed or not q.startswith("tulz::"):
            continue
        if rec.get("isImplicit") or rec.get("name") is None:
            continue
        if rec.get("kind") == "CXXRecordDecl" and ast.parent.get(rec["id"], {}).get("kind") == "ClassTemplateDecl":
            # the pattern of a class template: entry points come from its specialisations
            specs = [r for r in it.records() if r.get("kind") == "ClassTemplateSpecializationDecl" and
                     re.sub(r"<.*>$", "", ast.qual(r)) == q]
            if not specs:
                problems.append((rec, "class template %s is not instantiated by the probe" % q))
            continue
        amap = class_access_map(rec)
        for m in rec.get("inner", []):
            cands = []
            if m.get("kind") in FUNC_KINDS:
                cands = [m]
            elif m.get("kind") == "FunctionTemplateDecl":
                cands = [x for x in m.get("inner", []) if x.get("kind") in FUNC_KINDS and any(y.get("kind") == "TemplateArgument" for y in x.get("inner", []))]
                if not cands:
                    problems.append((m, "function template %s::%s is not instantiated by the probe" % (q, m.get("name"))))
            for c in cands:
                if c.get("isImplicit") or c.get("kind") == "CXXDestructorDecl" and not has_body(c):
                    continue
                if c.get("explicitlyDeleted"):
                    continue
                d = it.fn_def(c.get("id"))
                if d is None and m.get("kind") == "FunctionTemplateDecl" and not c.get("isUsed"):
                    continue                          # a specialisation that was only named (overload resolution), never used
                acc = amap.get(c.get("id"), amap.get(m.get("id"), "private"))
                override = any(x.get("kind") == "OverrideAttr" for x in c.get("inner", [])) or c.get("virtual")
                name = ast.qual(c)
                if d is None:
                    if c.get("pure"):
                        continue
                    problems.append((c, "no body found for %s" % name))
                    continue
                if acc == "private" and not override and c.get("kind") != "CXXConstructorDecl":
                    skipped.append((name, d))
                    continue
                roots.append((name, d, c))
    return roots, problems, skipped


def calls_in(n, acc):
    if n.get("kind") == "CXXMemberCallExpr":
        me = n["inner"][0]
        while me.get("kind") in Interp.TRANSPARENT and me.get("inner"):
            me = me["inner"][0]
        base = me["inner"][0] if me.get("inner") else {}
        while base.get("kind") in Interp.TRANSPARENT and base.get("inner"):
            base = base["inner"][0]
        acc.append((me.get("name"), base.get("name") if base.get("kind") == "MemberExpr" else None))
    for c in n.get("inner", []):
        calls_in(c, acc)
    return acc


def check_guard_classes(ast, it):
    """rwp::ReadLock / rwp::WriteLock are treated as primitives: check that they still are what the translator assumes
    (constructor = exactly one call lockRead()/lockWrite() on the reference member, destructor = the matching unlock)"""
    want = {"tulz::rwp::ReadLock": ("lockRead", "unlockRead", "shared"), "tulz::rwp::WriteLock": ("lockWrite", "unlockWrite", "excl")}
    res, problems = {}, []
    for q, (lk, ul, mode) in want.items():
        rec = next((r for r in it.records() if ast.qual(r) == q), None)
        if rec is None:
            problems.append(({}, "guard class %s not found" % q))
            continue
        ctor = [it.fn_def(m["id"]) for m in rec.get("inner", []) if m.get("kind") == "CXXConstructorDecl" and not m.get("isImplicit")]
        dtor = [it.fn_def(m["id"]) for m in rec.get("inner", []) if m.get("kind") == "CXXDestructorDecl" and not m.get("isImplicit")]
        cc = [calls_in(b, []) for d in ctor if d for b in d.get("inner", []) if b.get("kind") == "CompoundStmt"]
        dc = [calls_in(b, []) for d in dtor if d for b in d.get("inner", []) if b.get("kind") == "CompoundStmt"]
        ok = len(ctor) == 1 and len(dtor) == 1 and cc == [[(lk, "m_resource")]] and dc == [[(ul, "m_resource")]]
        res[short(q)] = {"mode": mode, "constructor_calls": cc, "destructor_calls": dc, "as_assumed": ok}
        if not ok:
            problems.append((rec, "guard class %s is not `ctor: m_resource.%s(); dtor: m_resource.%s();` any more" % (q, lk, ul)))
    return res, problems


def check_invoker_binding(ast, it):
    """ConcurrentSubjectRouter::subscribe must hand `this->m_resource` and the result of `this->m_router.subscribe` to the
    same Subscription constructor (that is how a handle's invoker gets the resource that guards the state it points into)"""
    found = []

    def walk(n, infn):
        k = n.get("kind")
        if k in FUNC_KINDS:
            infn = ast.qual(n) if n.get("name") == "subscribe" else None
        if infn and infn.startswith("tulz::ConcurrentSubjectRouter::subscribe") and k in ("CXXTemporaryObjectExpr", "CXXConstructExpr", "CXXFunctionalCastExpr") \
                and "Subscription" in qt(n) and "USubscription" not in qt(n):
            args = n.get("inner", [])
            if k == "CXXFunctionalCastExpr" and args:
                args = args[0].get("inner", []) if args[0].get("kind") in ("CXXConstructExpr", "CXXTemporaryObjectExpr") else args
            if len(args) == 2:
                a0 = it.strip(args[0])
                calls = calls_in(args[1], [])
                found.append((a0.get("kind") == "MemberExpr" and a0.get("name") == "m_resource" and
                              it.strip(a0["inner"][0]).get("kind") == "CXXThisExpr",
                              any(c == ("subscribe", "m_router") for c in calls), ast.at(n)))
        for c in n.get("inner", []):
            walk(c, infn)
    for t in ast.tops:
        walk(t, None)
    good = [f for f in found if f[0] and f[1]]
    info = {"sites": [f[2] for f in found], "as_assumed": bool(good) and len(good) == len(found)}
    if not info["as_assumed"]:
        return info, ({}, "ConcurrentSubjectRouter::subscribe no longer builds its Subscription from this->m_resource and this->m_router.subscribe(...)")
    return info, None


def fn_label(ast, c, taken):
    """Lean constructor name for an entry point"""
    q = short(ast.qual(c))
    q = re.sub(r"<[^<>]*(<[^<>]*>)?[^<>]*>", "", q)
    parts = [p for p in q.split("::") if p not in ("rwp", "Subscription")] if "ConcurrentInvoker" in q else [p for p in q.split("::") if p != "rwp"]
    if len(parts) > 2:
        parts = parts[-2:]
    base = "_".join(re.sub(r"\W", "", p.replace("operator()", "call").replace("~", "dtor_")) for p in parts)
    is_t = any(y.get("kind") == "TemplateArgument" for y in c.get("inner", []))
    if is_t:
        base += "_T"
    return base


# ------------------------------------------------------------------------------------------------ Lean output

def lean_str(s):
    return '"' + s.replace("\\", "\\\\").replace('"', '\\"').replace("\n", " ") + '"'


def field_label(cls, name):
    c = short(cls)
    c = re.sub(r"<.*>", "", c.split("::")[-1]) if "<" not in c.split("::")[-1] or True else c
    c = re.sub(r"<.*$", "", short(cls).split("::")[-1]) if "<" in short(cls).split("::")[-1] else short(cls).split("::")[-1]
    # template arguments are dropped: Subject<int>::m_observers -> Subject_m_observers
    segs = re.sub(r"<[^<>]*(<[^<>]*(<[^<>]*>)?[^<>]*>)?[^<>]*>", "", short(cls)).split("::")
    return "%s_%s" % (segs[-1], name)


def obj_lean(o, known_fields):
    if o[0] == "self":
        return ".self"
    if o[0] == "field":
        lab = field_label(*o[2])
        return "(.field %s .%s)" % (obj_lean(o[1], known_fields), lab if lab in known_fields else "undeclared")
    if o[0] == "within":
        return "(.within %s)" % obj_lean(o[1], known_fields)
    if o[0] == "fresh":
        return "(.fresh %d)" % o[1]
    return ".unknown"


def read_enum(name):
    """constructor names of `inductive <name>` in Model/Discipline.lean"""
    src = open(DISCIPLINE).read()
    m = re.search(r"inductive\s+%s\b(.*?)\bderiving\b" % re.escape(name), src, re.S)
    if not m:
        raise TranslateError("inductive %s not found in %s" % (name, DISCIPLINE))
    body = re.sub(r"/-.*?-/", " ", m.group(1), flags=re.S)
    body = re.sub(r"--[^\n]*", " ", body)
    return re.findall(r"\|\s*([A-Za-z_][A-Za-z_0-9']*)", body)


def translate(repo, out_path):
    tops, clang_version, cmd = dump_ast(repo)
    ast = Ast(tops, repo)
    it = Interp(ast)
    roots, problems, skipped = entry_points(ast, it)
    if not roots:
        raise TranslateError("no entry point found: the probe or the file list is out of date")
    known_fields = set(read_enum("Field"))
    known_fns = set(read_enum("Fn"))
    labels = {}
    for name, d, c in roots:
        lab = fn_label(ast, c, labels)
        labels[id(d)] = lab
    reached = set()
    root_rows = []
    for name, d, c in sorted(roots, key=lambda r: (ast.at(r[1]), r[0])):
        lab = labels[id(d)]
        it.root = (lab, short(name) + " : " + qt(c))
        it.stack = [short(name)]
        it.guards, it.conds, it.spawned, it.scope_depth, it.active = [], [], False, 0, [("root", d.get("id"))]
        it.fresh_n = 0
        n0 = len(it.entries)
        cx = Ctx(SELF, {}, d, init_obj=SELF if d.get("kind") == "CXXConstructorDecl" else None)
        for p in d.get("inner", []):
            if p.get("kind") == "ParmVarDecl":
                # arguments of an entry point are the calling thread's own objects (assumption, recorded in the evidence)
                cx.env[p["id"]] = LV(LOCAL if "*" not in qt(p) else UNKNOWN)
        try:
            it.run_function(d, cx)
        except Terminated:
            pass
        root_rows.append(dict(fn=lab, name=short(name), type=qt(c), at=ast.at(d), entries=len(it.entries) - n0,
                              known=lab in known_fns))
    guard_shapes, shape_problems = check_guard_classes(ast, it)
    binding, binding_problem = check_invoker_binding(ast, it)
    problems = list(problems) + shape_problems + ([binding_problem] if binding_problem else [])
    for c, why in problems:
        it.root = ("other", why)
        it.stack = ["<translator>"]
        it.unknown(c, why)
    # constructor-initialiser flag: an init access is only meaningful for the object under construction
    rows = []
    for e in it.entries:
        rows.append(e)
    # ---- emit
    def obj_fields(o):
        res = []
        while o[0] in ("field", "within"):
            if o[0] == "field":
                res.append(field_label(*o[2]))
            o = o[1]
        return res
    used = set()
    for e in rows:
        if e["unknown"]:
            continue
        labs = [field_label(e["cls"], e["field"])] + obj_fields(e["obj"])
        for g in e["guards"]:
            labs += [field_label(*g[1])] + obj_fields(g[0])
        used.update(labs)
        missing = [l for l in labs if l not in known_fields]
        if missing:
            e["unknown"] = True
            e["site"] = "%s %s::%s of %s — %s :: member(s) %s not declared in Model/Discipline.lean" % (
                "W" if e["write"] else "R", short(e["cls"]), e["field"], obj_text(e["obj"]), e["site"], ", ".join(sorted(set(missing))))
    undeclared = sorted(l for l in used if l not in known_fields)
    unknown_fns = sorted({r["fn"] for r in root_rows if not r["known"]})
    lines = []
    lines.append("import Tulz.Model.Discipline")
    lines.append("/-! GENERATED by tools/translators/locksets.py on every check from the C++ sources — do not edit.")
    lines.append("One `Entry` per distinct (entry point, member, object, read/write, locks held, …).  `site` = call chain @ file:line. -/")
    lines.append("namespace Tulz.Generated.AccessTable")
    lines.append("open Tulz.Drf Tulz.Model")
    lines.append("")
    lines.append("abbrev E := Entry Field Fn")
    lines.append("")
    names = []
    for i, e in enumerate(rows):
        lab = field_label(e["cls"], e["field"]) if not e["unknown"] else "undeclared"
        loc = "." + (lab if lab in known_fields else "undeclared")
        fn = e["root"][0]
        fnl = "." + (fn if fn in known_fns else "other")
        guards = ", ".join("⟨%s, .%s, .%s⟩" % (obj_lean(g[0], known_fields),
                                                (field_label(*g[1]) if field_label(*g[1]) in known_fields else "undeclared"), g[2])
                           for g in e["guards"])
        site = e["site"]
        if not e["unknown"]:
            site = "%s %s::%s of %s — %s" % ("W" if e["write"] else "R", short(e["cls"]), e["field"], obj_text(e["obj"]), site)
        if fn not in known_fns:
            site += " :: entry point %s not declared in Model/Discipline.lean" % fn
        lines.append("def e%d : E := {\n  root := %s, spawned := %s, loc := %s, obj := %s, write := %s, decl := .%s,"
                     % (i, fnl, str(e["spawned"]).lower(), loc, obj_lean(e["obj"], known_fields), str(e["write"]).lower(), e["decl"]))
        lines.append("  guards := [%s], init := %s, conds := [%s], unknown := %s,"
                     % (guards, str(e["init"]).lower(), ", ".join(str(c) for c in e["conds"]), str(e["unknown"]).lower()))
        lines.append("  site := %s }" % lean_str(site))
        names.append("e%d" % i)
    lines.append("")
    lines.append("/-- the access table -/")
    lines.append("def entries : List E := [")
    for j in range(0, len(names), 12):
        lines.append("  " + ", ".join(names[j:j + 12]) + ("," if j + 12 < len(names) else ""))
    lines.append("]")
    lines.append("")
    lines.append("end Tulz.Generated.AccessTable")
    text = "\n".join(lines) + "\n"
    os.makedirs(os.path.dirname(out_path), exist_ok=True)
    old = open(out_path).read() if os.path.exists(out_path) else None
    if old != text:
        with open(out_path + ".tmp", "w") as f:
            f.write(text)
        os.replace(out_path + ".tmp", out_path)
    table = []
    for i, e in enumerate(rows):
        table.append({"id": "e%d" % i, "entry_point": e["root"][0], "spawned": e["spawned"],
                      "member": "%s::%s" % (short(e["cls"]), e["field"]) if not e["unknown"] else None,
                      "object": obj_text(e["obj"]), "access": "W" if e["write"] else "R", "decl": e["decl"],
                      "locks": ["%s.%s:%s" % (obj_text(g[0]), g[1][1], g[2]) for g in e["guards"]],
                      "init": e["init"], "conds": [COND_TEXT.get(c, str(c)) for c in e["conds"]], "unknown": e["unknown"], "site": e["site"]})
    info = {
        "translator": "tools/translators/locksets.py (AST-based, clang json dump of harness/drf/ast_probe.cpp)",
        "clang": clang_version, "clang_cmd": cmd, "repo": repo,
        "analysed_files": ANALYSED,
        "entry_points": root_rows,
        "private_functions_reached_only_by_inlining": sorted({short(n) for n, d in skipped}),
        "member_types": {"%s::%s" % (short(k[0]), k[1]): v for k, v in sorted(it.member_types.items())},
        "boundaries_not_followed": sorted(it.boundaries),
        "guard_classes": guard_shapes, "invoker_resource_binding": binding,
        "notes": sorted(set(it.notes)),
        "undeclared_members": undeclared, "undeclared_entry_points": unknown_fns,
        "contract_conditions": {str(k): v for k, v in COND_TEXT.items()},
        "entries": len(rows), "unknown_entries": sum(1 for e in rows if e["unknown"]),
        "table": table,
        "generated_sha256": hashlib.sha256(text.encode()).hexdigest(),
    }
    return info


if __name__ == "__main__":
    repo = sys.argv[1] if len(sys.argv) > 1 else os.environ.get("TULZ_REPO", "/repo")
    out = sys.argv[2] if len(sys.argv) > 2 else os.path.join(VERIF, "lean", "Tulz", "Generated", "AccessTable.lean")
    info = translate(repo, out)
    for r in info["table"]:
        print("%-4s %-28s %s %-7s %-38s %-22s locks=%s%s%s%s  -- %s" % (
            r["id"], r["entry_point"] + ("*" if r["spawned"] else ""), r["access"], r["decl"][:6], r["member"], r["object"],
            ",".join(r["locks"]) or "-", " INIT" if r["init"] else "", " COND" if r["conds"] else "", " UNKNOWN" if r["unknown"] else "", r["site"]))
    for k in ("boundaries_not_followed", "notes", "undeclared_members", "undeclared_entry_points", "private_functions_reached_only_by_inlining"):
        print(k, "=", json.dumps(info[k], indent=1))
    print(len(info["table"]), "entries,", info["unknown_entries"], "unknown")
