"""ConcurrentSubjectRouter.h -> lean/Tulz/Generated/RouterLocks.lean.

For each operation of ConcurrentSubjectRouter (notify, subscribe, shrink, exists, depth and
ConcurrentInvoker::unsubscribe) finds the member function body (brace matching after comment / string
stripping) and classifies what protects the call into the wrapped router:
  read / write   a named `rwp::ReadLock` / `rwp::WriteLock` object on m_resource declared BEFORE the first use
                 of `m_router` / the base-class call, in the outermost block of the function
  temporary      a guard expression without a variable name (destroyed at the end of its statement)
  none           no guard before the router is touched
  unknown        anything else (several guards, guard on another object, guard in a nested block, …)
An operation whose whole body is a call `helper([&]{ … })` of a member `helper(F &&fn) { rwp::XLock g {m_resource}; return fn(); }`
is read as that guard followed by the lambda's body.
Fails closed: a function that cannot be found raises.
"""
import os
import re


def strip(src):
    out = []
    i, n = 0, len(src)
    while i < n:
        if src.startswith("//", i):
            while i < n and src[i] != "\n":
                i += 1
        elif src.startswith("/*", i):
            j = src.find("*/", i + 2)
            i = n if j < 0 else j + 2
        elif src[i] == '"':
            j = i + 1
            while j < n and src[j] != '"':
                j += 2 if src[j] == "\\" else 1
            out.append('""')
            i = j + 1
        else:
            out.append(src[i])
            i += 1
    return "".join(out)


def body_after(src, pos):
    """the brace-matched block starting at the first `{` at or after pos that opens a function body"""
    depth = 0
    start = None
    i = pos
    # skip the parameter list
    par = 0
    while i < len(src):
        c = src[i]
        if c == "(":
            par += 1
        elif c == ")":
            par -= 1
        elif c == "{" and par == 0:
            start = i
            break
        elif c == ";" and par == 0:
            return None
        i += 1
    if start is None:
        return None
    for j in range(start, len(src)):
        if src[j] == "{":
            depth += 1
        elif src[j] == "}":
            depth -= 1
            if depth == 0:
                return src[start + 1:j]
    return None


OPS = [
    ("notify", r"\bsize_t\s+notify\s*\(", r"m_router\s*\.\s*notify"),
    ("subscribe", r"\bUSubscription\s+subscribe\s*\(", r"m_router\s*\.\s*(template\s+)?subscribe"),
    ("shrink", r"\bvoid\s+shrink\s*\(", r"m_router\s*\.\s*shrink"),
    ("exists_", r"\bbool\s+exists\s*\(", r"m_router\s*\.\s*exists"),
    ("depth", r"\bsize_t\s+depth\s*\(", r"m_router\s*\.\s*depth"),
    ("unsubscribe", r"\bvoid\s+unsubscribe\s*\(\s*\)\s*override", r"DefaultInvoker\s*<[^;]*>\s*::\s*unsubscribe\s*\("),
]

GUARD = re.compile(r"rwp\s*::\s*(ReadLock|WriteLock)\b([^;]*);")


def classify(body, use_re):
    m = re.search(use_re, body)
    if not m:
        return "unknown", "the wrapped call was not found"
    before = body[:m.start()]
    # only the outermost block of the function counts; a brace pair without `;` inside is an initialiser, not a block
    def match(text, i):
        d = 0
        for j in range(i, len(text)):
            if text[j] == "{":
                d += 1
            elif text[j] == "}":
                d -= 1
                if d == 0:
                    return j
        return None
    top = []
    i = 0
    open_blocks = 0
    while i < len(before):
        ch = before[i]
        if ch == "{":
            j = match(before, i)
            if j is not None and ";" not in before[i:j]:
                top.append(before[i:j + 1] if open_blocks == 0 else " " * (j + 1 - i))
                i = j + 1
                continue
            if j is None:
                # block still open where the router is used: what is declared inside it so far stays visible
                i += 1
                continue
            # a closed nested block: guards declared inside it are gone
            top.append(" " * (j + 1 - i))
            i = j + 1
            continue
        top.append(ch)
        i += 1
    top = "".join(top)
    guards = list(GUARD.finditer(top))
    if not guards:
        if GUARD.search(before):
            return "none", "the only guard lives in a block that is closed before the router is used"
        return "none", "no guard before the router is used"
    if len(guards) > 1:
        return "unknown", "several guards"
    g = guards[0]
    # the guard has to be the first statement of the function: anything executed before it (for instance a validity test
    # that reads the subject's containers) runs without the lock
    lead = top[:g.start()].strip()
    if lead:
        return "unknown", "statements before the guard run without the lock: `%s`" % " ".join(lead.split())[:80]
    rest = g.group(2).strip()
    # named object: `lock {m_resource}` / `lock(m_resource)` ; temporary: `{m_resource}` / `(m_resource)`
    nm = re.match(r"^([A-Za-z_]\w*)\s*[\{\(]\s*m_resource\s*[\}\)]$", rest)
    tm = re.match(r"^[\{\(]\s*m_resource\s*[\}\)]$", rest)
    kind = "read" if g.group(1) == "ReadLock" else "write"
    if nm:
        return kind, "named guard `%s`" % nm.group(1)
    if tm:
        return "temporary", "unnamed guard object"
    return "unknown", "guard expression `%s`" % rest


def match_brace(text, i):
    d = 0
    for j in range(i, len(text)):
        if text[j] == "{":
            d += 1
        elif text[j] == "}":
            d -= 1
            if d == 0:
                return j
    return None


HELPER_HEAD = re.compile(r"\b([A-Za-z_]\w*)\s*\(([^()]*)\)\s*(?:const\s*)?(?:noexcept\s*)?\{")


def lock_helpers(src):
    """member functions of the shape   R name(F &&fn) [const] { rwp::XLock g {m_resource}; [return] fn(); }
    (the guard is the first statement and lives until the callable has returned and its result has been constructed)
    -> {name: guard statement text}"""
    res = {}
    for m in HELPER_HEAD.finditer(src):
        params = m.group(2).strip()
        pm = re.search(r"([A-Za-z_]\w*)\s*$", params)
        if not pm or "," in params:
            continue
        fn = pm.group(1)
        ob = m.end() - 1
        cb = match_brace(src, ob)
        if cb is None:
            continue
        body = src[ob + 1:cb].strip()
        call = r"(?:std\s*::\s*forward\s*<[^<>;]*>\s*\(\s*%s\s*\)|%s)\s*\(\s*\)" % (fn, fn)
        hm = re.match(r"^(rwp\s*::\s*(?:ReadLock|WriteLock)\s+[A-Za-z_]\w*\s*[\{\(]\s*m_resource\s*[\}\)]\s*;)\s*(?:return\s+)?%s\s*;$" % call, body, re.S)
        if hm:
            res[m.group(1)] = hm.group(1)
    return res


def inline_helper(body, helpers):
    """an operation whose whole body is `[return] helper([captures](params) [-> T] { BODY });` is read as `<helper's guard>; BODY`"""
    b = body.strip()
    m = re.match(r"^(?:return\s+)?([A-Za-z_]\w*)\s*\(\s*\[[^\]]*\]\s*(?:\([^()]*\)\s*)?(?:mutable\s*)?(?:->\s*[^{};]+?)?\{", b, re.S)
    if not m or m.group(1) not in helpers:
        return body
    ob = m.end() - 1
    cb = match_brace(b, ob)
    if cb is None or not re.match(r"^\s*\)\s*;$", b[cb + 1:]):
        return body
    return helpers[m.group(1)] + "\n" + b[ob + 1:cb]


def translate(repo, out_path):
    p = os.path.join(repo, "include/tulz/observer/routing/ConcurrentSubjectRouter.h")
    src = strip(open(p).read())
    table = []
    helpers = lock_helpers(src)
    for name, sig, use in OPS:
        ms = list(re.finditer(sig, src))
        bodies = [b for b in (body_after(src, m.start()) for m in ms) if b is not None]
        if len(bodies) != 1:
            raise RuntimeError("ConcurrentSubjectRouter.h: expected exactly one definition of %s, found %d" % (name, len(bodies)))
        inl = inline_helper(bodies[0], helpers)
        kind, why = classify(inl, use)
        if inl is not bodies[0]:
            why += " (through a locking helper)"
        table.append((name, kind, why))
    with open(out_path, "w") as f:
        f.write("import Tulz.Model.Crouter\n")
        f.write("/- GENERATED on every check by tools/translators/router_locks.py from\n   include/tulz/observer/routing/ConcurrentSubjectRouter.h — do not edit. -/\n")
        f.write("namespace Tulz.Generated\nopen Rwp\n\n")
        f.write("def routerLocks : List (ROp × Guard) :=\n  [")
        f.write(",\n   ".join("(.%s, .%s)" % (n, k) for n, k, _ in table))
        f.write("]\n\nend Tulz.Generated\n")
    return table
