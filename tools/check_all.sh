#!/bin/bash
# Runs every registered check (quick by default: check_all.sh [quick|thorough]) and prints one summary line per property.
T=${1:-quick}; cd "$(dirname "$0")/.." || exit 2; rc=0
for p in $(python3 -c "import json;print(' '.join(c['property_id'] for c in json.load(open('MANIFEST.json'))['checks']))"); do
  python3 tools/check.py "$p" --tier "$T" | grep -E "^VIOLATION|^KNOWN-FINDING|$T:" || true
  [ "${PIPESTATUS[0]}" = "0" ] || rc=1
done
exit $rc
