"""Oracle and generator for iterator scripts (`<comp> it <id> <start> <cmd>+`, see lean/Tulz/Drv/IterDrv.lean).

The oracle states what a client means: an iterator is an integer position relative to begin(); `++ -- += -= + -` move it like
an integer; `*it` is element p (only for 0 <= p < size and a determinate element); `it - begin()` is p; the six comparisons order
positions (asked only while both iterators are inside [0, size], the range in which iterators are comparable).  Positions may
leave [0, size] between observations (the class's index arithmetic is modular, Lean: C04_iter_script_positions)."""


class BadScript(Exception):
    pass


def oracle(items, start, cmds):
    """items: list of values (None = indeterminate).  Returns the answer line body `it=…`."""
    n = len(items)
    p = start
    if not (0 <= start <= n) or not cmds:
        raise BadScript()
    obs = []
    for c in cmds:
        k, arg = c[0], c[1:]
        if k in "IDid*=":
            if arg:
                raise BadScript()
        else:
            try:
                v = int(arg)
            except ValueError:
                raise BadScript()
        if k == "I":
            p += 1
        elif k == "D":
            p -= 1
        elif k == "i":
            obs.append("s1")
            p += 1
        elif k == "d":
            obs.append("s1")
            p -= 1
        elif k in "aP":
            p += v
        elif k in "sM":
            p -= v
        elif k == "*":
            if not (0 <= p < n) or items[p] is None:
                raise BadScript()
            obs.append("v%d" % items[p])
        elif k == "=":
            obs.append("n%d" % p)
        elif k == "c":
            if not (0 <= p <= n) or not (0 <= v <= n):
                raise BadScript()
            obs.append("b" + "".join("1" if x else "0" for x in (p == v, p != v, p < v, p > v, p <= v, p >= v)))
        else:
            raise BadScript()
        if abs(p) > (1 << 40):
            raise BadScript()
    return "it=" + ",".join(obs)


def gen(rng, items):
    """a random script over a container with these items: (start, [cmd…]); excursions of a few positions beyond both ends"""
    n = len(items)
    start = rng.below(n + 1)
    p = start
    cmds = []
    for _ in range(3 + rng.below(9)):
        r = rng.below(100)
        if r < 30:
            # a move; keep the position within [-4, n+4]
            lo, hi = -4 - p, n + 4 - p
            d = lo + rng.below(hi - lo + 1)
            if d == 1 and rng.chance(2, 3):
                cmds.append(rng.pick(["I", "i"]))
            elif d == -1 and rng.chance(2, 3):
                cmds.append(rng.pick(["D", "d"]))
            elif rng.chance(1, 2):
                cmds.append(rng.pick(["a", "P"]) + str(d))
            else:
                cmds.append(rng.pick(["s", "M"]) + str(-d))
            p += d
        elif r < 45:
            c = rng.pick(["I", "i", "D", "d"])
            cmds.append(c)
            p += 1 if c in "Ii" else -1
        elif r < 65:
            if 0 <= p < n and items[p] is not None:
                cmds.append("*")
            else:
                cmds.append("=")
        elif r < 80:
            cmds.append("=")
        else:
            if 0 <= p <= n:
                cmds.append("c%d" % rng.below(n + 1))
            else:
                cmds.append("=")
    if not any(c[0] in "*=c" or c in "id" for c in cmds):
        cmds.append("=")
    return start, cmds
