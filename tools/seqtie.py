"""Generic three-way correspondence for sequential components.

A *case* is a list of op lines (first token = component tag).  For every case:
  ref   = expected output lines from a direct Python statement of the property (the oracle)
  impl  = output of the C++ harness running the real code
  model = output of the Lean driver (tulzdrv)
impl != ref  -> concrete violation of the property (shrunk, replayable)
model != ref -> the Lean model left the specification (drift; no failing input on the real code)
Cases are concatenated into one stream separated by a `reset` line; a sanitizer abort of the
harness is attributed to the case in which the output stops and the stream is resumed after it.
"""
import lib
from lib import Failure


def run_stream(binary, cases, reset_line, is_driver=False, timeout=1200, max_aborts=6):
    """returns list (per case) of output line lists; an aborted case gets its partial output + ['!ABORT <stderr tail>'].
    After `max_aborts` crashes the remaining cases are not run (their result is ['!SKIPPED'])."""
    results = [None] * len(cases)
    start = 0
    aborts = 0
    while start < len(cases):
        if aborts >= max_aborts:
            for k in range(start, len(cases)):
                results[k] = ["!SKIPPED"]
            break
        lines = []
        bounds = []
        for c in cases[start:]:
            lines.append(reset_line)
            bounds.append((len(lines), len(lines) + len(c)))
            lines.extend(c)
        if is_driver:
            out, rc, err = lib.run_driver(lines, timeout)
        else:
            out, rc, err = lib.run_lines(binary, lines, timeout)
        done = 0
        for k, (a, b) in enumerate(bounds):
            if b <= len(out):
                results[start + k] = out[a:b]
                done += 1
            else:
                part = out[a:] if a <= len(out) else []
                results[start + k] = part + ["!ABORT rc=%d %s" % (rc, summarize_err(err))]
                done += 1
                aborts += 1
                break
        else:
            break
        if rc == 0 and done < len(bounds):
            # short output without a crash: protocol error
            for k in range(done, len(bounds)):
                results[start + k] = ["!SHORT-OUTPUT"]
            break
        start += done
    return results


def summarize_err(err):
    for line in err.split("\n"):
        if "ERROR: AddressSanitizer" in line or "runtime error" in line or "Assertion" in line or "LeakSanitizer" in line:
            return line.strip()[:300]
    return err.strip().split("\n")[-1][:300] if err.strip() else ""


def first_diff(a, b):
    for i in range(max(len(a), len(b))):
        x = a[i] if i < len(a) else "<missing>"
        y = b[i] if i < len(b) else "<missing>"
        if x != y:
            return i, x, y
    return None


def ddmin(ops, fails):
    """greedy delta debugging: remove chunks while `fails(ops)` stays true (fails returns False for invalid histories)"""
    n = 2
    cur = list(ops)
    while len(cur) >= 2:
        chunk = max(1, len(cur) // n)
        reduced = False
        i = 0
        while i < len(cur):
            cand = cur[:i] + cur[i + chunk:]
            if cand and fails(cand):
                cur = cand
                reduced = True
            else:
                i += chunk
        if not reduced:
            if chunk == 1:
                break
            n = min(len(cur), n * 2)
    return cur
