#!/usr/bin/env python3
"""Self-test of the machinery: applies every kept seeded change (seeded/<id>/patch.diff) to a scratch worktree of
/repo (never to /repo itself), runs the quick check of the property it breaks with TULZ_REPO pointing there, and
reports whether a VIOLATION with a concrete replay was raised.  Evidence of these runs goes to a scratch directory.

usage: run_seeds.py [seed-dir-name ...]      (default: all)"""
import json
import os
import shutil
import subprocess
import sys
import tempfile

VERIF = os.path.dirname(os.path.dirname(os.path.abspath(__file__)))


def main():
    names = sys.argv[1:] or sorted(os.listdir(os.path.join(VERIF, "seeded")))
    wt = tempfile.mkdtemp(prefix="tulz-seedwt.", dir="/var/tmp")
    ev = tempfile.mkdtemp(prefix="tulz-seedev.", dir="/var/tmp")
    os.rmdir(wt)
    # a private copy of the Lake project: the translators of the checks below write their tables there, never into /verif/lean
    lean_copy = tempfile.mkdtemp(prefix="tulz-lean-selftest.", dir="/var/tmp")
    subprocess.run(["rsync", "-a", os.path.join(VERIF, "lean") + "/", lean_copy + "/"], check=True)
    subprocess.run(["git", "-C", "/repo", "worktree", "add", "-q", wt, "HEAD"], check=True)
    rows = []
    try:
        for n in names:
            d = os.path.join(VERIF, "seeded", n)
            meta = json.load(open(os.path.join(d, "meta.json")))
            prop = meta["property"]
            subprocess.run(["git", "-C", wt, "checkout", "-q", "--", "."], check=True)
            r = subprocess.run(["git", "-C", wt, "apply", os.path.join(d, "patch.diff")], capture_output=True, text=True)
            if r.returncode != 0:
                rows.append((n, prop, "PATCH DOES NOT APPLY to HEAD: " + r.stderr.strip()[:120]))
                print(rows[-1], flush=True)
                continue
            env = dict(os.environ, TULZ_REPO=wt, VERIF_EVIDENCE_DIR=ev, VERIF_LEAN_DIR=lean_copy)
            p = subprocess.run([sys.executable, os.path.join(VERIF, "tools", "check.py"), prop], cwd=VERIF, env=env, capture_output=True, text=True)
            viol = [l for l in p.stdout.split("\n") if l.startswith("VIOLATION")]
            concrete = [l for l in viol if "no-failing-input-found" not in l]
            detail = ""
            lines = p.stdout.split("\n")
            for i, l in enumerate(lines):
                if l.startswith("VIOLATION") and i + 1 < len(lines):
                    detail = lines[i + 1].strip()[:160]
                    break
            rows.append((n, prop, ("CAUGHT (concrete replay)" if concrete else "caught without failing input" if viol else "MISSED") + " | " + detail))
            print(rows[-1], flush=True)
    finally:
        subprocess.run(["git", "-C", "/repo", "worktree", "remove", "--force", wt])
        shutil.rmtree(ev, ignore_errors=True)
        shutil.rmtree(lean_copy, ignore_errors=True)
    missed = [r for r in rows if not r[2].startswith("CAUGHT")]
    print("%d seeds, %d caught with a concrete replay" % (len(rows), len(rows) - len(missed)))
    return 1 if missed else 0


if __name__ == "__main__":
    sys.exit(main())
