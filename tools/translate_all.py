#!/usr/bin/env python3
"""Runs every source->Lean translator against the repository under test ($TULZ_REPO, default /repo), so that
lean/Tulz/Generated/* says what the code says NOW.  The committed copies of those files are only a build cache.
Each property's check runs its own translator again; this script exists for MANIFEST.setup_cmd and for restoring the
cache after self-tests that pointed the translators at scratch worktrees."""
import importlib
import os
import sys

sys.path.insert(0, os.path.join(os.path.dirname(os.path.abspath(__file__))))


def main():
    rc = 0
    for comp, prop in (("locale", "C19"), ("crouter", "C11"), ("thread", "C20"), ("drf", "C15")):
        try:
            mod = importlib.import_module("components." + comp)
            mod.translate(prop, mod.PROPS[prop])
            print("translate_all: %s ok" % comp)
        except Exception as e:      # fails closed: the property's own check reports it
            print("translate_all: %s FAILED: %r" % (comp, e))
            rc = 1
    return rc


if __name__ == "__main__":
    sys.exit(main())
