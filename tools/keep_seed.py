#!/usr/bin/env python3
"""keep_seed.py <property> <dir-name> <out-dir> <confirm-json-line-file>: copies a confirmed seeded change into seeded/<dir-name>/
(patch.diff, demo.cpp, build_demo.sh, README.txt) and writes meta.json (summary/needs are taken from README.txt)."""
import json, os, shutil, sys
VERIF = os.path.dirname(os.path.dirname(os.path.abspath(__file__)))
prop, name, out, conf = sys.argv[1:5]
d = os.path.join(VERIF, "seeded", name)
os.makedirs(d, exist_ok=True)
for f in ("patch.diff", "demo.cpp", "build_demo.sh", "README.txt"):
    shutil.copy(os.path.join(out, f), os.path.join(d, f))
c = json.loads(open(conf).read().strip().split("\n")[-1])
readme = open(os.path.join(out, "README.txt")).read()
meta = {"property": prop, "summary": " ".join(readme.split())[:900], "needs": "see README.txt",
        "tests_pass": c.get("tests_rc") == 0, "demo_fails_with_patch": all(x != 0 for x in c.get("patched_codes", [0])),
        "demo_passes_without_patch": all(x == 0 for x in c.get("clean_codes", [1])),
        "verification_run": {"caught_by": [], "missed_by": [], "confirmed": "tools/confirm_seed.py: %s" % json.dumps({k: c[k] for k in c if k != "out"})},
        "what_i_ran": "tools/confirm_seed.py, then tools/run_seeds.py (patch applied to a scratch worktree, TULZ_REPO)"}
json.dump(meta, open(os.path.join(d, "meta.json"), "w"), indent=1)
print("kept", d)
