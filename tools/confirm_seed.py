#!/usr/bin/env python3
"""Confirms an independently written seeded change before it is kept under seeded/.

usage: confirm_seed.py <out-dir with patch.diff, demo.cpp, build_demo.sh> [--runs N] [--skip-tests]

In a fresh scratch worktree of /repo (never /repo itself):
  1. the demonstration is built on the UNMODIFIED tree and must exit 0 (N runs),
  2. the patch is applied (it must touch include/ or src/ only),
  3. the repository's own test suite is rebuilt out of tree and must pass with the patch (tools/baseline.sh),
  4. the demonstration is rebuilt on the modified tree and must fail (non-zero exit / signal / timeout) in >= 90% of N runs.
Prints one JSON line with the outcome; exit 0 iff all four hold.  The worktree and all build output are removed."""
import json
import os
import shutil
import subprocess
import sys
import tempfile

VERIF = os.path.dirname(os.path.dirname(os.path.abspath(__file__)))


def run_demo(binary, runs, timeout=180):
    codes = []
    for _ in range(runs):
        try:
            p = subprocess.run([binary], capture_output=True, timeout=timeout)
            codes.append(p.returncode)
        except subprocess.TimeoutExpired:
            codes.append("timeout")
    return codes


def main():
    out = os.path.abspath(sys.argv[1])
    runs = int(sys.argv[sys.argv.index("--runs") + 1]) if "--runs" in sys.argv else 5
    skip_tests = "--skip-tests" in sys.argv
    wt = tempfile.mkdtemp(prefix="tulz-confirm.", dir="/var/tmp")
    os.rmdir(wt)
    bins = tempfile.mkdtemp(prefix="tulz-confirm-bin.", dir="/var/tmp")
    res = {"out": out}
    ok = False
    try:
        subprocess.run(["git", "-C", "/repo", "worktree", "add", "-q", "--detach", wt, "HEAD"], check=True)
        b0 = os.path.join(bins, "demo_clean")
        p = subprocess.run(["bash", os.path.join(out, "build_demo.sh"), wt, b0], capture_output=True, text=True, cwd=out)
        if p.returncode != 0 or not os.path.exists(b0):
            res["error"] = "demo does not build on the unmodified tree: " + (p.stderr or p.stdout)[-400:]
            return 1
        res["clean_codes"] = run_demo(b0, runs)
        p = subprocess.run(["git", "-C", wt, "apply", "--index", os.path.join(out, "patch.diff")], capture_output=True, text=True)
        if p.returncode != 0:
            res["error"] = "patch does not apply: " + p.stderr[-300:]
            return 1
        touched = subprocess.run(["git", "-C", wt, "diff", "--cached", "--name-only"], capture_output=True, text=True).stdout.split()
        res["touched"] = touched
        if any(not (t.startswith("include/") or t.startswith("src/")) for t in touched):
            res["error"] = "patch touches files outside include/ and src/"
            return 1
        if not skip_tests:
            p = subprocess.run(["bash", os.path.join(VERIF, "tools", "baseline.sh")], env=dict(os.environ, TULZ_REPO=wt),
                               capture_output=True, text=True)
            tail = p.stdout.strip().split("\n")[-6:]
            res["tests"] = [l for l in tail if "tests passed" in l or "tests failed" in l or "FAILED" in l or "Failed" in l][:4]
            res["tests_rc"] = p.returncode
        b1 = os.path.join(bins, "demo_patched")
        p = subprocess.run(["bash", os.path.join(out, "build_demo.sh"), wt, b1], capture_output=True, text=True, cwd=out)
        if p.returncode != 0 or not os.path.exists(b1):
            res["error"] = "demo does not build on the modified tree: " + (p.stderr or p.stdout)[-400:]
            return 1
        res["patched_codes"] = run_demo(b1, runs)
        clean_ok = all(c == 0 for c in res["clean_codes"])
        fails = sum(1 for c in res["patched_codes"] if c != 0)
        tests_ok = skip_tests or res["tests_rc"] == 0
        ok = clean_ok and fails * 10 >= 9 * runs and tests_ok
        res["confirmed"] = ok
        return 0 if ok else 1
    finally:
        print(json.dumps(res))
        subprocess.run(["git", "-C", "/repo", "worktree", "remove", "--force", wt], capture_output=True)
        shutil.rmtree(bins, ignore_errors=True)


if __name__ == "__main__":
    sys.exit(main())
