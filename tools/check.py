#!/usr/bin/env python3
"""Entry point of every check:  check.py <Cxx> [--tier quick|thorough] [--replay file]

Pipeline (DESIGN.md section 2): translate -> prove (lake build + axiom audit + forbidden-token
grep, leanchecker in the thorough tier) -> build the harness from the working tree -> correspond
-> on any failure search for a concrete failing input -> known findings -> evidence -> exit code.
"""
import argparse
import importlib
import json
import os
import pkgutil
import sys
import time
import traceback

sys.path.insert(0, os.path.dirname(os.path.abspath(__file__)))
import lib  # noqa: E402
from lib import Failure, log  # noqa: E402


def load_components():
    import components
    props = {}
    for m in pkgutil.iter_modules(components.__path__):
        mod = importlib.import_module("components." + m.name)
        for pid, spec in getattr(mod, "PROPS", {}).items():
            props[pid] = (mod, spec)
    return props


def main():
    ap = argparse.ArgumentParser()
    ap.add_argument("prop")
    ap.add_argument("--tier", default="quick", choices=["quick", "thorough"])
    ap.add_argument("--replay")
    ap.add_argument("--accept-statements", action="store_true", help="rewrite tools/statements/<prop>.txt from the current theorems")
    args = ap.parse_args()
    tier = os.environ.get("VERIF_TIER", args.tier)
    if tier not in ("quick", "thorough"):
        tier = args.tier
    prop = args.prop
    t0 = time.time()
    props = load_components()
    if prop not in props:
        log("unknown property " + prop)
        return 2
    mod, spec = props[prop]
    failures = []
    notes = []

    if args.replay:
        return mod.replay(prop, spec, args.replay)

    # 1. translators
    gen_info = {}
    if hasattr(mod, "translate"):
        try:
            gen_info = mod.translate(prop, spec) or {}
        except Exception as e:  # a construct the translator cannot analyse fails closed
            failures.append(Failure("proof", "translator failed: %r" % (e,), replay={"translator_error": traceback.format_exc()}))

    # 2. proofs
    theorems = spec["theorems"]
    modules = spec["lean_modules"]
    ok, out = lib.lake_build(modules + ["tulzdrv"])
    discharged = 0
    thm_status = {}
    if not ok:
        failures.append(Failure("proof", "lake build failed for %s" % (modules,), replay={"lake_output": out[-4000:]}))
        # which theorems survive cannot be told without the environment: none is counted
        thm_status = {t: "build failed" for t in theorems}
        # the driver may be stale: rebuild at least the driver on its own
        ok_drv, _ = lib.lake_build(["tulzdrv"])
        if not ok_drv:
            notes.append("driver does not build")
    else:
        res = lib.audit(prop, modules, theorems, accept=args.accept_statements)
        for t, (tok, info) in res.items():
            if tok:
                discharged += 1
                thm_status[t] = "ok axioms=%s" % (info,)
            else:
                thm_status[t] = "FAILED %s" % (info,)
                failures.append(Failure("proof", "theorem %s: %s" % (t, info), replay={"theorem": t, "detail": str(info)}))
    hits = lib.grep_forbidden()
    if hits:
        failures.append(Failure("proof", "forbidden tokens in Lean sources", replay={"hits": hits}))
        discharged = 0
    checker = "lake build %s && lake env lean <#print axioms of %d theorems> (cwd=lean)" % (" ".join(modules), len(theorems))
    if tier == "thorough" and ok:
        for m in modules:
            cok, cout = lib.leanchecker(m)
            if not cok:
                failures.append(Failure("proof", "leanchecker rejected " + m, replay={"output": cout}))
                discharged = 0
        checker += " && lake env leanchecker " + " ".join(modules)

    # 3-5. tie (correspondence / failing-input search).  Always runs: it is also leg S.
    tie = lib.TieResult()
    try:
        tie = mod.run_tie(prop, spec, tier, lib.seed())
        failures.extend(tie.failures)
    except Exception as e:
        failures.append(Failure("infra", "tie crashed: %r" % (e,), replay={"trace": traceback.format_exc()}))

    # 6. classify, known findings, report
    known = lib.known_findings()
    violations = 0
    concrete = [f for f in failures if f.kind == "violation"]
    others = [f for f in failures if f.kind != "violation"]
    idx = 0
    reported = set()
    for f in concrete:
        match = [k for k in known["finding"] if k["property"] == prop and k["signature"] == f.signature]
        if match:
            key = ("known", f.signature)
            if key not in reported:
                log("KNOWN-FINDING: property=%s %s" % (prop, match[0]["text"]))
                reported.add(key)
            continue
        key = ("viol", f.signature)
        if key in reported:
            continue
        reported.add(key)
        idx += 1
        path = lib.write_replay(prop, idx, {"property": prop, "kind": "violation", "what": f.what,
                                            "signature": f.signature, "replay": f.replay, "seed": lib.seed(), "tier": tier})
        log("VIOLATION property=%s replay=%s" % (prop, path))
        log("  " + f.what)
        violations += 1
    if others and not concrete:
        # a proof obligation or the correspondence no longer checks and no failing input was found
        idx += 1
        path = lib.write_replay(prop, idx, {"property": prop, "kind": "unproved",
                                            "no_longer_checks": [{"kind": f.kind, "what": f.what, "detail": f.replay} for f in others],
                                            "seed": lib.seed(), "tier": tier})
        log("VIOLATION property=%s replay=%s no-failing-input-found" % (prop, path))
        for f in others:
            log("  [%s] %s" % (f.kind, f.what))
        violations += 1
    elif others:
        for f in others:
            log("  also: [%s] %s" % (f.kind, f.what))

    coverage = {
        "obligations": len(theorems),
        "discharged": discharged,
        "checker_cmd": checker,
        "trusted_base": lib.BASE_TRUSTED + spec.get("trusted_base", []),
        "theorems": thm_status,
        "evaluations": tie.evaluations,
        "distinct_nontrivial": tie.distinct,
        "rule": tie.rule,
        "samples": tie.samples[:6],
        "traces_validated_against_impl": tie.traces or tie.evaluations,
        "input_distribution": tie.dist,
        "generated": gen_info,
        "exhaustive": False,
    }
    coverage.update(tie.extra)
    lib.write_evidence(prop, tier, "proof", coverage, spec.get("assumptions", []), time.time() - t0, violations)
    log("%s %s: %d/%d obligations discharged, %d cases (%d distinct non-trivial), %d violation(s), %.1fs" %
        (prop, tier, discharged, len(theorems), tie.evaluations, tie.distinct, violations, time.time() - t0))
    return 1 if violations else 0


if __name__ == "__main__":
    sys.exit(main())
