#!/usr/bin/env python3
"""Mutation run for C07 / C08.  Usage:  TULZ_REPO=/tmp/rw_<x> python3 harness/pool/mutants.py [M3 M7 …]
TULZ_REPO must be a scratch worktree of the repo WITH repairs/F6.patch applied (never /repo itself); the file is restored
after every mutant.  For every mutant both checks run (quick tier); `concrete` = exit 1 with a VIOLATION that carries a
failing schedule; `drift-only` = exit 1 because the lock-step replay on the model disagrees (no property-level failure
found: expected for the property-equivalent mutants M6 and M19); B1 must pass.  The first replay of every failing check is
copied to $POOL_MUTANT_REPLAYS/<mutant>-<prop>.json when that variable is set."""
import os, subprocess, sys, time
REPO = os.environ.get("TULZ_REPO", "")
if not REPO or os.path.realpath(REPO) == "/repo":
    sys.exit("set TULZ_REPO to a scratch worktree")
VERIF = os.path.dirname(os.path.dirname(os.path.dirname(os.path.abspath(__file__))))
SRC = os.path.join(REPO, "src", "threading", "ThreadPool.cpp")
base = open(SRC).read()
assert "std::scoped_lock locker(m_queueMutex);\n        m_isRunning = false;" in base, "apply repairs/F6.patch first"

def sub(old, new, count=1):
    def f(s):
        assert old in s, old
        return s.replace(old, new, count)
    return f

STOP_JOIN = """    {
        std::scoped_lock locker(m_poolMutex);

        for (auto thread : m_pool) {
            thread->join();
            delete thread;
        }

        m_pool.clear();
    }

    clear();
}"""

MUTS = [
 ("M1 dequeue without erase (double run)", sub("            queue.erase(qFront);\n", "")),
 ("M2 clear() without the queue mutex", sub("void ThreadPool::clear() {\n    std::scoped_lock locker(m_queueMutex);\n", "void ThreadPool::clear() {\n")),
 ("M3 clear() without delete", sub("    for (auto runnable : m_queue) {\n        delete runnable;\n    }\n", "")),
 ("M4 delete before run", sub("        runnable->run();\n\n        m_pooledThread->setLastActiveTime(time());\n\n        delete runnable;",
                              "        delete runnable;\n\n        runnable->run();\n\n        m_pooledThread->setLastActiveTime(time());")),
 ("M5 LIFO dequeue", sub("auto qFront = queue.begin();", "auto qFront = std::prev(queue.end());")),
 ("M6 stop() clears the queue before joining (property-equivalent: the flag is already false)", sub(STOP_JOIN, "    clear();\n\n" + STOP_JOIN.replace("\n    clear();\n}", "\n}"))),
 ("M7 notify_one in stop()", sub("    }\n\n    m_condition.notify_all();\n\n    {\n        std::scoped_lock locker(m_poolMutex);\n\n        for (auto thread : m_pool) {\n            thread->join();",
                                 "    }\n\n    m_condition.notify_one();\n\n    {\n        std::scoped_lock locker(m_poolMutex);\n\n        for (auto thread : m_pool) {\n            thread->join();")),
 ("M8 spawn on every start (max ignored)", sub("if ((m_maxThreadCount > m_pool.size() || m_maxThreadCount < 0) && getActiveThreadCount() == getThreadCount())", "if (true)")),
 ("M9 join while holding the queue mutex", sub("        std::scoped_lock locker(m_poolMutex);\n\n        for (auto thread : m_pool) {\n            thread->join();",
                                               "        std::scoped_lock locker(m_poolMutex, m_queueMutex);\n\n        for (auto thread : m_pool) {\n            thread->join();")),
 ("M10 start() without notify_one", sub("    m_condition.notify_one();\n", "")),
 ("M11 stop() does not clear the queue", sub("        m_pool.clear();\n    }\n\n    clear();\n}", "        m_pool.clear();\n    }\n}")),
 ("M12 start() does not reset m_isRunning (no restart)", sub("    if (!m_isRunning) {\n        m_isRunning = true;\n    }\n", "")),
 ("M13 stop() does not clear m_pool", sub("            delete thread;\n        }\n\n        m_pool.clear();\n    }\n\n    clear();", "            delete thread;\n        }\n    }\n\n    clear();")),
 ("M14 F6 reverted (flag written without the queue mutex)", sub("    {\n        // workers evaluate the flag under this mutex; without it\n        // the notification below could be missed\n        std::scoped_lock locker(m_queueMutex);\n        m_isRunning = false;\n    }\n", "    m_isRunning = false;\n")),
 ("M15 worker never deletes the task", sub("        m_pooledThread->setLastActiveTime(time());\n\n        delete runnable;", "        m_pooledThread->setLastActiveTime(time());")),
 ("M16 wait predicate ignores the stop flag", sub("return !queue.empty() || !m_threadPool->isRunning() || isExpired;", "return !queue.empty() || isExpired;")),
 ("M17 stop() joins only the first pool thread", sub("            thread->join();\n            delete thread;\n        }\n\n        m_pool.clear();", "            thread->join();\n            delete thread;\n            break;\n        }\n\n        m_pool.clear();")),
 ("M18 spawn bound off by one (max + 1 threads)", sub("(m_maxThreadCount > m_pool.size() ||", "(m_maxThreadCount >= m_pool.size() ||")),
 ("M19 worker drains the queue before it honours the stop flag (property-equivalent: tasks run before stop() returns)",
  sub("            if (!m_threadPool->isRunning())\n                return;\n\n            if (queue.empty() && isExpired)\n                return;\n",
      "            if (queue.empty())\n                return;\n")),
 ("B1 benign: comment and local rename (must PASS)", sub("auto qFront = queue.begin();\n            runnable = *qFront;\n            queue.erase(qFront);", "auto head = queue.begin(); // oldest task\n            runnable = *head;\n            queue.erase(head);")),
]
only = sys.argv[1:]
results = []
try:
  for name, f in MUTS:
    if only and not any(name.startswith(o + " ") for o in only):
        continue
    open(SRC, "w").write(f(base))
    print("=" * 100)
    verdict = {}
    for prop in ("C07", "C08"):
        t = time.time()
        p = subprocess.run(["python3", "tools/check.py", prop, "--tier", "quick"], cwd=VERIF, env=dict(os.environ),
                           stdout=subprocess.PIPE, stderr=subprocess.STDOUT, text=True)
        out = p.stdout
        viol = [l for l in out.split("\n") if l.startswith("VIOLATION") or l.startswith("  ")]
        concrete = any(l.startswith("VIOLATION") and "no-failing-input-found" not in l for l in out.split("\n"))
        print("%s / %s -> exit %d (%.0fs)" % (name, prop, p.returncode, time.time() - t))
        for l in viol[:6]:
            print("   " + l[:300])
        print("   " + out.strip().split("\n")[-1])
        keep = os.environ.get("POOL_MUTANT_REPLAYS")
        rp = os.path.join(VERIF, "evidence", "replays", prop + "-1.json")
        if keep and p.returncode and os.path.exists(rp):
            os.makedirs(keep, exist_ok=True)
            open(os.path.join(keep, "%s-%s.json" % (name.split()[0], prop)), "w").write(open(rp).read())
        verdict[prop] = "concrete" if (p.returncode and concrete) else "drift-only" if p.returncode else "passed"
        sys.stdout.flush()
    results.append((name, verdict))
finally:
    open(SRC, "w").write(base)
print("\nSUMMARY")
for n, v in results:
    print("  %-95s C07:%-10s C08:%-10s" % (n[:95], v["C07"], v["C08"]))
