// Drives the real tulz::ThreadPool WITH EXPIRING WORKERS and update() (+ tulz::Thread; ThreadPool.cpp, Thread.cpp, Runnable.cpp
// compiled from the working tree through harness/pool/remapx.h) under the controlled scheduler with a VIRTUAL CLOCK.
// One execution per input line:
//
//   run <max>/<timeout>:<ops> seed <n> [pts]          random schedule from seed n
//   run <max>/<timeout>:<ops> sched <t0 t1 …> [pts]   explicit schedule
//
// <max> = setMaxThreadCount(max) (0..3), <timeout> = setExpiryTimeout(timeout) in virtual milliseconds (negative: workers never
// expire and update() is a no-op).  <ops> = comma separated owner script, executed by thread 0:
//   s f g l   pool.start(...) of a tracked Runnable / callable / callable + argument / named callable (as in pool_harness.cpp)
//   c         pool.clear()
//   x         pool.stop()
//   u         pool.update()
//   t<ms>     the virtual clock advances by <ms> (done while holding m_queueMutex: a worker reads the clock once per evaluation
//             of its wait predicate, inside its critical section; advancing outside those sections makes the observed order
//             of clock reads and clock advances the order of the critical sections)
//   w         wait (scheduler-level, no library call) until every task submitted so far has been destroyed — or until no worker
//             thread can move any more (each one finished or blocked in the condition variable): `awaitDone stuck`
//   z         wait (scheduler-level) until every worker thread has finished — or none can move: `awaitDone stuck`
// Task ids are 1, 2, 3 … in submission order.  A script must end so that no managed thread is left: with `x`, or after a `z`
// that found every worker finished.
//
// Output: one line per event, then `end ok|deadlock|hang|leftover`.
//   op <name> [arg] | submit t | opdone | threadCount n | activeCount n | stopReturned | tick d | awaitDone all|stuck | fin   (owner)
//   runBegin t w | runEnd t w | destroy t w | BADARG t
//   lock t mX | unlock t mX | park t cX | notify t cX all|one w… | spawn p c | exit t | joined p c   (scheduler)
// with m0 = m_queueMutex, m1 = m_poolMutex, c2 = m_condition.
#include <tulz/threading/ThreadPool.h>
#include <tulz/threading/Thread.h>

#include "../painted.h"

using verif::ev;

// see pool_harness.cpp: ThreadPool deletes PooledThread objects through `Thread*` (no virtual destructor)
extern "C" const char *__asan_default_options() { return "new_delete_type_mismatch=0"; }

static std::set<int> g_submitted, g_destroyed;

static void body(int id) {
    std::string s = std::to_string(id) + " " + std::to_string(verif::self());
    ev("runBegin " + s);
    verif::yield();
    ev("runEnd " + s);
}

static void destroyed(int id) {
    ev("destroy " + std::to_string(id) + " " + std::to_string(verif::self()));
    g_destroyed.insert(id);
    if (verif::self() == 0) verif::yield();
}

struct TrackedTask : public tulz::Runnable {
    int id;
    explicit TrackedTask(int i) : id(i) {}
    ~TrackedTask() override { destroyed(id); }
    void run() override { body(id); }
};

static std::map<int, int> g_gen;
struct Functor {
    int id, gen;
    explicit Functor(int i) : id(i), gen(++g_gen[i]) {}
    Functor(const Functor &o) : id(o.id), gen(++g_gen[o.id]) {}
    ~Functor() { if (gen == g_gen[id]) destroyed(id); }
    // boolean-testable with a meaning of its own ("has a result"): the pool has to run it regardless
    explicit operator bool() const { return false; }
    void operator()() { body(id); }
};
struct FunctorArg {
    int id, gen;
    explicit FunctorArg(int i) : id(i), gen(++g_gen[i]) {}
    FunctorArg(const FunctorArg &o) : id(o.id), gen(++g_gen[o.id]) {}
    ~FunctorArg() { if (gen == g_gen[id]) destroyed(id); }
    // a task may return something (a status, a count): the pool runs it once and ignores the result, whatever it converts to
    long operator()(int k) { if (k != id * 7) ev("BADARG " + std::to_string(id)); body(id); return id; }
};

// evaluated by the scheduler (it holds its own lock): no worker thread can move
static bool workersQuiescent() {
    auto &S = verif::Sched::I();
    for (size_t i = 1; i < S.ts.size(); i++)
        if (S.ts[i].st != verif::Sched::FIN && S.ts[i].st != verif::Sched::PARKED) return false;
    return true;
}
static bool workersFinished() {
    auto &S = verif::Sched::I();
    for (size_t i = 1; i < S.ts.size(); i++) if (S.ts[i].st != verif::Sched::FIN) return false;
    return true;
}

static unsigned char g_paint = 0;

static void runOne(int maxThreads, int timeout, const std::vector<std::string> &ops) {
    g_submitted.clear(); g_destroyed.clear(); g_gen.clear();
    verif::g_vnow_ms = 1000000;
    // the pool lives in painted storage (harness/painted.h): a member a constructor forgets has a known value
    verif::Painted<tulz::ThreadPool> poolBox(g_paint);
    auto *pool = poolBox.get();
    {
        auto &S = verif::Sched::I();
        std::unique_lock<decltype(S.G)> lk(S.G);
        S.objId(&pool->m_queueMutex); S.objId(&pool->m_poolMutex); S.objId(&pool->m_condition);
    }
    pool->setExpiryTimeout(timeout);
    pool->setMaxThreadCount(maxThreads);
    int next = 1;
    for (auto &op : ops) {
        if (op == "s" || op == "f" || op == "g" || op == "l") {
            int id = next++;
            ev("op start " + std::to_string(id));
            g_submitted.insert(id);
            ev("submit " + std::to_string(id));
            if (op == "s") pool->start(new TrackedTask(id));
            else if (op == "f") pool->start(Functor(id));
            else if (op == "l") { Functor fn(id); pool->start(fn); fn.id = -777; }
            else pool->start(FunctorArg(id), id * 7);
        } else if (op == "c") {
            ev("op clear");
            pool->clear();
        } else if (op == "x") {
            ev("op stop");
            pool->stop();
            ev("stopReturned");
        } else if (op == "u") {
            ev("op update");
            pool->update();
        } else if (op.size() > 1 && op[0] == 't') {
            long d = std::atol(op.c_str() + 1);
            ev("op tick " + std::to_string(d));
            {
                std::scoped_lock locker(pool->m_queueMutex);
                verif::g_vnow_ms += d;
                ev("tick " + std::to_string(d));
            }
        } else if (op == "w") {
            ev("op await");
            verif::await([] { return g_destroyed.size() >= g_submitted.size() || workersQuiescent(); });
            ev(std::string("awaitDone ") + (g_destroyed.size() >= g_submitted.size() ? "all" : "stuck"));
        } else if (op == "z") {
            ev("op awaitexit");
            verif::await([] { return workersFinished() || workersQuiescent(); });
            {
                auto &S = verif::Sched::I();
                bool fin;
                { std::unique_lock<decltype(S.G)> lk(S.G); fin = workersFinished(); }
                ev(std::string("awaitDone ") + (fin ? "all" : "stuck"));
            }
        } else {
            ev("bad-script " + op);
        }
        ev("opdone");
        ev("threadCount " + std::to_string(pool->getThreadCount()));
        ev("activeCount " + std::to_string(pool->getActiveThreadCount()));
    }
    ev("fin");
    {
        // a leftover managed thread can never be scheduled again (and would block process exit): close the execution here
        auto &S = verif::Sched::I();
        std::unique_lock<decltype(S.G)> lk(S.G);
        std::string left;
        for (size_t i = 1; i < S.ts.size(); i++) if (S.ts[i].st != verif::Sched::FIN) left += " " + std::to_string(i);
        if (!left.empty()) { S.log("leftover" + left); S.log("end leftover"); std::fflush(stdout); _exit(4); }
    }
    // finished threads that are still listed (retired, never reaped) and tasks that are still queued belong to the pool object;
    // ThreadPool has no destructor, so the harness releases them to keep LeakSanitizer quiet about the library's design
    for (auto *t : pool->m_pool) { t->join(); delete t; }
    pool->m_pool.clear();
    for (auto *r : pool->m_queue) delete r;
    pool->m_queue.clear();
}

int main() {
    setvbuf(stdout, nullptr, _IOLBF, 0);
    verif::start_watchdog(20);
    std::string line;
    while (std::getline(std::cin, line)) {
        std::istringstream is(line);
        std::string cmd, cfg, mode;
        is >> cmd >> cfg >> mode;
        auto colon = cfg.find(':');
        auto slash = cfg.find('/');
        if (cmd != "run" || colon == std::string::npos || slash == std::string::npos || slash > colon) { std::puts("bad-op"); std::puts("end ok"); continue; }
        int maxThreads = std::atoi(cfg.substr(0, slash).c_str());
        int timeout = std::atoi(cfg.substr(slash + 1, colon - slash - 1).c_str());
        std::vector<std::string> ops;
        { std::string cur; for (char c : cfg.substr(colon + 1)) { if (c == ',') { ops.push_back(cur); cur.clear(); } else cur += c; } ops.push_back(cur); }
        if (ops.empty() || maxThreads < -1) { std::puts("bad-op"); std::puts("end ok"); continue; }
        std::vector<int> script; uint64_t seed = 1; bool pts = false;
        std::string tok;
        std::vector<std::string> rest; while (is >> tok) rest.push_back(tok);
        if (!rest.empty() && rest.back() == "pts") { pts = true; rest.pop_back(); }
        if (mode == "seed") seed = std::stoull(rest.at(0));
        else for (auto &x : rest) script.push_back(std::stoi(x));
        verif::Sched::I().begin(mode == "seed", seed, script, pts);
        g_paint = verif::paintFor(cfg);
        runOne(maxThreads, timeout, ops);
        verif::Sched::I().end();
        std::puts("end ok");
    }
    return 0;
}
