// Token remap for the expiring-worker ThreadPool harness (poolx_harness.cpp): everything harness/sched/remap.h does, plus
//   * a VIRTUAL CLOCK: ThreadPool.cpp reads time only through `std::chrono::system_clock::now()` (in its file-local `time()`);
//     the spelling `system_clock` is redirected to std::chrono::verif_clock, whose now() returns a harness-controlled instant.
//     Time therefore advances only when the owner script says so (`t<ms>`), and every execution is deterministic.
//   * `std::atomic<T>` members of the tulz classes become verif::Atomic<T>: same semantics, but a store executed by a WORKER
//     thread is preceded by a scheduling point.  The only such store is `m_isFinished = true` at the end of tulz::Thread's thread
//     function, so the window "left PooledRunnable::run, completion flag not yet set" is explored by the scheduler
//     (owner-side stores — m_isRunning in start()/stop() — are not scheduling points: the owner's points are its mutex acquisitions).
// Used as `-include harness/pool/remapx.h` INSTEAD of `-include harness/sched/remap.h` (which it includes).
#pragma once
#include <bits/stdc++.h>
#include "../sched/sched.h"
namespace verif {
inline int64_t g_vnow_ms = 1000000;          // the virtual clock, milliseconds since its epoch
struct VClock {
    using duration = std::chrono::milliseconds;
    using rep = duration::rep;
    using period = duration::period;
    using time_point = std::chrono::time_point<VClock, duration>;
    static constexpr bool is_steady = true;
    static time_point now() noexcept { return time_point(duration(g_vnow_ms)); }
};
template<class T> struct Atomic : std::atomic<T> {
    using std::atomic<T>::atomic;
    T operator=(T v) noexcept {
        if (Sched::me != 0) Sched::I().point();
        std::atomic<T>::store(v);
        return v;
    }
};
}
namespace std {
namespace chrono { using verif_clock = ::verif::VClock; }
template<class T> using vatomic = ::verif::Atomic<T>;
}
#include "../sched/remap.h"
#define system_clock verif_clock
#define atomic vatomic
