// Drives the real tulz::ThreadPool (+ tulz::Thread; ThreadPool.cpp, Thread.cpp, Runnable.cpp compiled from the working
// tree through the token remap) under the controlled scheduler.  One execution per input line:
//
//   run <max>:<ops> seed <n> [pts]          random schedule from seed n
//   run <max>:<ops> sched <t0 t1 …> [pts]   explicit schedule (thread ids chosen at successive scheduling points and
//                                           notify_one picks; then: keep running the current thread, else the lowest enabled)
//
// <max> = setMaxThreadCount(max) (0..3; with 0 no worker is ever created: tasks stay queued until clear()/stop() destroys them,
//         so such a script must not contain `w`); setExpiryTimeout(-1) always (non-expiring workers).
// <ops> = comma separated owner script, executed by thread 0:
//   s   pool.start(new TrackedTask(id))                 tracked Runnable subclass
//   f   pool.start(Functor(id))                         plain callable   -> template start -> TRunnable<Functor>
//   g   pool.start(FunctorArg(id), id * 7)              callable + argument -> TRunnable<FunctorArg, int>
//   l   { Functor fn(id); pool.start(fn); }              a NAMED callable (lvalue) whose scope ends right after start(): the pool
//                                                        must own its copy; the caller's object is clobbered before it dies
//   c   pool.clear()
//   x   pool.stop()
//   w   wait (scheduler-level, no library call) until every task submitted so far has been destroyed
// Task ids are 1, 2, 3 … in submission order.  The script must end with `x` (non-expiring workers never finish otherwise).
// A task body logs runBegin, yields once (a scheduling point), logs runEnd.
//
// Output: one line per event, then `end ok|deadlock|hang|leftover` (leftover: worker threads alive after the final stop()).
//   op <name> [t] | submit t | opdone | threadCount n | stopReturned | fin            (owner, thread 0)
//   runBegin t w | runEnd t w | destroy t w | BADARG t                              (w = executing / destroying thread)
//   lock t mX | unlock t mX | park t cX | notify t cX all|one w… | spawn p c | exit t | joined p c   (scheduler)
// with m0 = m_queueMutex, m1 = m_poolMutex, c2 = m_condition (ids registered up front).
#include <tulz/threading/ThreadPool.h>
#include <tulz/threading/Thread.h>
#include <sanitizer/lsan_interface.h>

#include "../painted.h"

using verif::ev;

// ThreadPool deletes its PooledThread objects through `Thread*` although Thread has no virtual destructor
// (ThreadPool.cpp `delete thread` in stop()/update()).  That is formally undefined behaviour (recorded as an observation
// outside C07/C08: the extra member is trivially destructible and glibc ignores the size passed to sized delete); ASan's
// new-delete-type-mismatch check would abort every execution that stops a non-empty pool, so that one check is off.
extern "C" const char *__asan_default_options() { return "new_delete_type_mismatch=0"; }

static std::set<int> g_submitted, g_destroyed;

static void body(int id) {
    std::string s = std::to_string(id) + " " + std::to_string(verif::self());
    ev("runBegin " + s);
    verif::yield();
    ev("runEnd " + s);
}

static void destroyed(int id) {
    ev("destroy " + std::to_string(id) + " " + std::to_string(verif::self()));
    g_destroyed.insert(id);
    // a destructor takes time: a scheduling point inside clear()'s loop (harmless when clear() holds m_queueMutex)
    if (verif::self() == 0) verif::yield();
}

struct TrackedTask : public tulz::Runnable {
    int id;
    explicit TrackedTask(int i) : id(i) {}
    ~TrackedTask() override { destroyed(id); }
    void run() override { body(id); }
};

// A callable is copied on its way into ThreadPool::TRunnable (by-value parameters of start() and of the TRunnable
// constructor); the copy made last is the member TRunnable::m_ptr, every earlier copy lives in a stack frame of the
// owner's start() call.  No copy is made afterwards (run() invokes m_ptr in place).  So "the task object is destroyed"
// = the destructor of the latest copy runs; the destructors of the earlier copies are not task events.
static std::map<int, int> g_gen;
struct Functor {
    int id, gen;
    explicit Functor(int i) : id(i), gen(++g_gen[i]) {}
    Functor(const Functor &o) : id(o.id), gen(++g_gen[o.id]) {}
    ~Functor() { if (gen == g_gen[id]) destroyed(id); }
    // boolean-testable with a meaning of its own ("has a result"): the pool has to run it regardless
    explicit operator bool() const { return false; }
    void operator()() { body(id); }
};
struct FunctorArg {
    int id, gen;
    explicit FunctorArg(int i) : id(i), gen(++g_gen[i]) {}
    FunctorArg(const FunctorArg &o) : id(o.id), gen(++g_gen[o.id]) {}
    ~FunctorArg() { if (gen == g_gen[id]) destroyed(id); }
    // a task may return something (a status, a count): the pool runs it once and ignores the result, whatever it converts to
    long operator()(int k) { if (k != id * 7) ev("BADARG " + std::to_string(id)); body(id); return id; }
};

static unsigned char g_paint = 0;

static void runOne(int maxThreads, const std::vector<std::string> &ops) {
    g_submitted.clear(); g_destroyed.clear(); g_gen.clear();
    // the pool lives in painted storage (harness/painted.h): a member a constructor forgets has a known value
    verif::Painted<tulz::ThreadPool> poolBox(g_paint);
    auto *pool = poolBox.get();
    {
        auto &S = verif::Sched::I();
        std::unique_lock<decltype(S.G)> lk(S.G);   // (the token `mutex` is remapped in this translation unit)
        S.objId(&pool->m_queueMutex); S.objId(&pool->m_poolMutex); S.objId(&pool->m_condition);
    }
    pool->setExpiryTimeout(-1);
    pool->setMaxThreadCount(maxThreads);
    int next = 1;
    for (auto &op : ops) {
        if (op == "s" || op == "f" || op == "g" || op == "l") {
            int id = next++;
            ev("op start " + std::to_string(id));
            g_submitted.insert(id);
            ev("submit " + std::to_string(id));
            if (op == "s") pool->start(new TrackedTask(id));
            else if (op == "f") pool->start(Functor(id));
            else if (op == "l") { Functor fn(id); pool->start(fn); fn.id = -777; }
            else pool->start(FunctorArg(id), id * 7);
        } else if (op == "S") {
            // start() during which the system refuses to create the worker thread (std::thread's constructor throws): the owner
            // catches the exception and carries on.  What the library leaks in that situation (the unstarted PooledThread) is not
            // the subject of any property: leak detection is off for the duration of the call.
            int id = next++;
            ev("op start " + std::to_string(id));
            g_submitted.insert(id);
            ev("submit " + std::to_string(id));
            { auto &S = verif::Sched::I(); std::unique_lock<decltype(S.G)> lk(S.G); S.failSpawns = 1; }
            try {
                __lsan_disable();
                pool->start(new TrackedTask(id));
                __lsan_enable();
            } catch (const std::system_error &) {
                __lsan_enable();
                ev("startThrew");
            }
            { auto &S = verif::Sched::I(); std::unique_lock<decltype(S.G)> lk(S.G); S.failSpawns = 0; }
        } else if (op == "c") {
            ev("op clear");
            pool->clear();
        } else if (op == "x") {
            ev("op stop");
            pool->stop();
            ev("stopReturned");
        } else if (op == "w") {
            ev("op await");
            verif::await([] { return g_destroyed.size() >= g_submitted.size(); });
        } else {
            ev("bad-script " + op);
        }
        ev("opdone");
        ev("threadCount " + std::to_string(pool->getThreadCount()));
    }
    ev("fin");
    {
        // the script ended with stop(): every worker thread must have exited.  A leftover managed thread can never be
        // scheduled again (and would block process exit), so the execution is closed here like a deadlock.
        auto &S = verif::Sched::I();
        std::unique_lock<decltype(S.G)> lk(S.G);
        std::string left;
        for (size_t i = 1; i < S.ts.size(); i++) if (S.ts[i].st != verif::Sched::FIN) left += " " + std::to_string(i);
        if (!left.empty()) { S.log("leftover" + left); S.log("end leftover"); std::fflush(stdout); _exit(4); }
    }
}

int main() {
    setvbuf(stdout, nullptr, _IOLBF, 0);
    verif::start_watchdog(20);
    std::string line;
    while (std::getline(std::cin, line)) {
        std::istringstream is(line);
        std::string cmd, cfg, mode;
        is >> cmd >> cfg >> mode;
        auto colon = cfg.find(':');
        if (cmd != "run" || colon == std::string::npos) { std::puts("bad-op"); std::puts("end ok"); continue; }
        int maxThreads = std::atoi(cfg.substr(0, colon).c_str());
        std::vector<std::string> ops;
        { std::string cur; for (char c : cfg.substr(colon + 1)) { if (c == ',') { ops.push_back(cur); cur.clear(); } else cur += c; } ops.push_back(cur); }
        if (ops.empty() || ops.back() != "x" || maxThreads < 0) { std::puts("bad-op"); std::puts("end ok"); continue; }
        std::vector<int> script; uint64_t seed = 1; bool pts = false;
        std::string tok;
        std::vector<std::string> rest; while (is >> tok) rest.push_back(tok);
        if (!rest.empty() && rest.back() == "pts") { pts = true; rest.pop_back(); }
        if (mode == "seed") seed = std::stoull(rest.at(0));
        else for (auto &x : rest) script.push_back(std::stoi(x));
        verif::Sched::I().begin(mode == "seed", seed, script, pts);
        g_paint = verif::paintFor(cfg);
        runOne(maxThreads, ops);
        verif::Sched::I().end();
        std::puts("end ok");
    }
    return 0;
}
