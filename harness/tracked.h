// Element type with observable lifetime for the container harnesses.
// Bitwise relocatable (no self pointers); every object carries a magic word so that a
// destructor / assignment / read on storage that holds no object is detected softly
// (reported on the operation's output line) while ASan watches the allocation itself.
// `live` counts, per value, how many objects currently hold it; the harness prints the
// net change per operation in the same canonical form as the Lean driver.
#pragma once
#include <cstdint>
#include <cstdio>
#include <initializer_list>
#include <map>
#include <string>
#include <vector>
#include <type_traits>
#include <algorithm>

namespace verif {
struct Registry {
    std::map<long, long> live;            // value -> number of objects holding it
    std::vector<std::pair<long, int>> journal;
    std::string error;                    // first lifetime error of the current operation
    void add(long v, int d) { live[v] += d; journal.emplace_back(v, d); }
    void fail(const char *what) { if (error.empty()) error = what; }
    // canonical net change since the last call: "-v" for every lost copy, "+v" for every gained one
    std::string delta() {
        std::map<long, long> net;
        for (auto &[v, d] : journal) net[v] += d;
        journal.clear();
        std::string lost, gained;
        for (auto &[v, d] : net) {
            for (long i = 0; i < -d; ++i) lost += (lost.empty() ? "" : " ") + ("-" + std::to_string(v));
            for (long i = 0; i < d; ++i) gained += (gained.empty() ? "" : " ") + ("+" + std::to_string(v));
        }
        std::string r = "d:";
        if (!lost.empty()) r += lost;
        if (!gained.empty()) r += (lost.empty() ? "" : " ") + gained;
        return r;
    }
    std::string liveList() {
        std::string r = "live=";
        bool first = true;
        for (auto &[v, c] : live) for (long i = 0; i < c; ++i) { r += (first ? "" : " ") + std::to_string(v); first = false; }
        return r;
    }
    void reset() { live.clear(); journal.clear(); error.clear(); }
};
inline Registry &reg() { static Registry r; return r; }

struct Tracked {
    static constexpr uint32_t LIVE = 0x11fe11feu, SHELL = 0x5be115beu, DEAD = 0xdeaddeadu;
    uint32_t magic;
    long val;

    Tracked() : magic(LIVE), val(0) { reg().add(0, +1); }
    Tracked(long v) : magic(LIVE), val(v) { reg().add(v, +1); }           // NOLINT: implicit on purpose
    // two constructor arguments of different types (what emplace_*(args...) has to forward one by one): the value is their sum
    Tracked(long hi, int lo) : magic(LIVE), val(hi + lo) { reg().add(val, +1); }
    // A container builds its elements as T(args...): with braces, T{args...} would pick THIS constructor whenever the arguments
    // form a list of longs (what happens to std::vector<int>{3, 7}), and the element would not be T(args...) any more.
    Tracked(std::initializer_list<long> l) : magic(LIVE), val(l.size() ? *l.begin() : 0) { reg().fail("BRACE_INITIALISED"); reg().add(val, +1); }
    // the source is inspected BEFORE any member of the new object is written: the source may be the very storage the new
    // object is constructed in (placement-new from an element that was just destroyed there)
    Tracked(const Tracked &o) { long v = o.checkedVal(); magic = LIVE; val = v; reg().add(val, +1); }
    Tracked(Tracked &&o) noexcept {
        long v = o.checkedVal();
        bool self = &o == this;
        magic = LIVE; val = v;
        reg().add(val, +1);
        if (!self) o.becomeShell();
    }
    Tracked &operator=(const Tracked &o) {
        if (this == &o) return *this;
        long v = o.checkedVal();
        dropValue("assign-to-non-object");
        magic = LIVE; val = v; reg().add(v, +1);
        return *this;
    }
    Tracked &operator=(Tracked &&o) noexcept {
        if (this == &o) return *this;
        long v = o.checkedVal();
        dropValue("assign-to-non-object");
        magic = LIVE; val = v; reg().add(v, +1);
        o.becomeShell();
        return *this;
    }
    ~Tracked() {
        if (magic == LIVE) reg().add(val, -1);
        else if (magic != SHELL) reg().fail("NOT_OBJECT");                 // destructor on raw / dead storage
        magic = DEAD;
    }
    long value() const { return checkedVal(); }
    bool operator==(const Tracked &o) const { return checkedVal() == o.checkedVal(); }

private:
    long checkedVal() const {
        if (magic != LIVE) { reg().fail("NOT_LIVE"); return -1; }
        return val;
    }
    void becomeShell() {
        if (magic == LIVE) { reg().add(val, -1); magic = SHELL; }
    }
    void dropValue(const char *) {
        if (magic == LIVE) reg().add(val, -1);
        else if (magic != SHELL) reg().fail("NOT_OBJECT");
    }
};

// The same element type, but its move constructor and move assignment are NOT noexcept (like a hand-written `T(T&&)` or
// libstdc++'s std::deque): code that asks std::move_if_noexcept / is_nothrow_move_constructible takes its other branch.
struct TrackedM : Tracked {
    using Tracked::Tracked;
    TrackedM() = default;
    TrackedM(const TrackedM &o) : Tracked(static_cast<const Tracked &>(o)) {}
    TrackedM(TrackedM &&o) : Tracked(static_cast<Tracked &&>(o)) {}
    TrackedM &operator=(const TrackedM &o) { Tracked::operator=(static_cast<const Tracked &>(o)); return *this; }
    TrackedM &operator=(TrackedM &&o) { Tracked::operator=(static_cast<Tracked &&>(o)); return *this; }
};
static_assert(!std::is_nothrow_move_constructible_v<TrackedM> && std::is_copy_constructible_v<TrackedM>, "TrackedM: throwing move, copyable");
} // namespace verif
