// Objects under test are constructed (default-initialised, like `T x;`) in storage that was filled with a byte pattern first:
// a data member that a constructor forgets to initialise then has a KNOWN value instead of whatever the stack or the allocator
// happens to hold (ASan paints fresh heap memory 0xbe and keeps stack slots mostly zero, so 0x01 / 0xFF never show up by chance).
// The pattern is a function of the input line (`paintFor`), so that a replay of the same line paints the same bytes.
#pragma once
#include <cstddef>
#include <cstdint>
#include <cstring>
#include <new>
#include <string>
#include <utility>

namespace verif {
inline unsigned char paintFor(const std::string &line) {
    static const unsigned char pats[] = {0x00, 0x01, 0xFF, 0xA5, 0x01, 0x7F};
    uint64_t h = 1469598103934665603ull;
    for (unsigned char c : line) { h ^= c; h *= 1099511628211ull; }
    return pats[(h >> 17) % (sizeof pats)];
}

template<typename T> class Painted {
public:
    template<typename... A> explicit Painted(unsigned char pattern, A &&...a) {
        std::memset(m_buf, pattern, sizeof m_buf);
        // the stores above must survive: without this barrier GCC's lifetime dead-store elimination may drop them
        __asm__ __volatile__("" : : "r"(m_buf) : "memory");
        if constexpr (sizeof...(A) == 0) m_p = ::new (static_cast<void *>(m_buf)) T;
        else m_p = ::new (static_cast<void *>(m_buf)) T(std::forward<A>(a)...);
    }
    ~Painted() { m_p->~T(); }
    Painted(const Painted &) = delete;
    Painted &operator=(const Painted &) = delete;
    T &operator*() { return *m_p; }
    T *operator->() { return m_p; }
    T *get() { return m_p; }
private:
    alignas(T) unsigned char m_buf[sizeof(T)];
    T *m_p;
};
}

// ---- painted `new` (sequential harnesses define VERIF_PAINT_NEW before including this header) ------------------------------
// Every object the harness creates with new / make_unique / make_shared (and every node a standard container allocates) starts
// out filled with `g_newFill` instead of ASan's constant 0xbe.  The byte is chosen from the text of the first line of the current
// case (`paintLine`), so a case always runs with the same paint: shrinking and replaying stay deterministic.
#ifdef VERIF_PAINT_NEW
#include <cstdlib>
namespace verif {
inline unsigned char g_newFill = 0xbe;
inline bool g_paintArmed = true;
inline void paintLine(const std::string &line) {
    if (line.find(" reset") != std::string::npos && line.size() < 16) { g_paintArmed = true; return; }
    if (g_paintArmed) { g_newFill = paintFor(line); g_paintArmed = false; }
}
inline void *paintedAlloc(std::size_t n, std::size_t align) {
    if (n == 0) n = 1;
    void *p = nullptr;
    if (align <= alignof(std::max_align_t)) p = std::malloc(n);
    else if (posix_memalign(&p, align, n) != 0) p = nullptr;
    if (!p) throw std::bad_alloc();
    std::memset(p, g_newFill, n);
    return p;
}
}
void *operator new(std::size_t n) { return verif::paintedAlloc(n, 1); }
void *operator new[](std::size_t n) { return verif::paintedAlloc(n, 1); }
void *operator new(std::size_t n, std::align_val_t a) { return verif::paintedAlloc(n, (std::size_t) a); }
void *operator new[](std::size_t n, std::align_val_t a) { return verif::paintedAlloc(n, (std::size_t) a); }
void operator delete(void *p) noexcept { std::free(p); }
void operator delete[](void *p) noexcept { std::free(p); }
void operator delete(void *p, std::size_t) noexcept { std::free(p); }
void operator delete[](void *p, std::size_t) noexcept { std::free(p); }
void operator delete(void *p, std::align_val_t) noexcept { std::free(p); }
void operator delete[](void *p, std::align_val_t) noexcept { std::free(p); }
void operator delete(void *p, std::size_t, std::align_val_t) noexcept { std::free(p); }
void operator delete[](void *p, std::size_t, std::align_val_t) noexcept { std::free(p); }
#endif

