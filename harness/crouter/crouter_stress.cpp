// Free-running stress of the real ConcurrentSubjectRouter with real threads (no controlled scheduler, no sanitizer):
// the third clause of C11 at full speed — once unsubscribe() has returned, that observer is never invoked again —
// and the lock's own sanity (a delivery never overlaps a subscribe/unsubscribe body).
//   usage: crouter_stress <seed> <milliseconds>       exit 1 + a line `VIOLATION …` on failure, 0 otherwise
#include <tulz/observer/routing/ConcurrentSubjectRouter.h>
#include <tulz/observer/routing/RoutingKeyBuilder.h>

#include <atomic>
#include <chrono>
#include <cstdio>
#include <cstdlib>
#include <deque>
#include <memory>
#include <string>
#include <thread>
#include <vector>

using namespace tulz;

struct Obs {
    std::atomic<bool> dead{false};
    std::atomic<long> callsAfterDeath{0};
    std::atomic<long> calls{0};
};

int main(int argc, char **argv) {
    unsigned seed = argc > 1 ? std::atoi(argv[1]) : 1;
    int ms = argc > 2 ? std::atoi(argv[2]) : 2000;
    ConcurrentSubjectRouter router;
    auto key = RoutingKeyBuilder{"a", "b"}.build();
    auto other = RoutingKeyBuilder{"a", "c"}.build();
    std::atomic<bool> stop{false};
    std::atomic<long> violations{0}, ops{0}, missed{0};
    std::atomic<int> delivering{0}, mutating{0};

    auto worker = [&](unsigned s) {
        std::deque<std::pair<USubscription, std::shared_ptr<Obs>>> mine;
        unsigned x = s * 2654435761u + 1;
        while (!stop.load()) {
            x = x * 1664525u + 1013904223u;
            if (mine.size() < 8 && (x >> 16) % 2 == 0) {
                auto o = std::make_shared<Obs>();
                const bool onKey = (x >> 20) % 4 != 0;
                mine.emplace_back(router.subscribe(onKey ? key : other, [o, &violations, &delivering, &mutating] {
                    o->calls++;
                    delivering++;
                    if (o->dead.load()) { o->callsAfterDeath++; violations++; }
                    if (mutating.load() != 0) violations++;
                    delivering--;
                }), o);
                // subscribe() has returned: a notify issued now (by this very thread) reaches the new observer, whatever the
                // other notifiers are doing at the same time
                long before = o->calls.load();
                router.notify(onKey ? key : other);
                if (o->calls.load() == before) missed++;
            } else if (!mine.empty()) {
                auto &front = mine.front();
                front.first->unsubscribe();
                front.second->dead.store(true);        // from here on the observer must never be invoked
                mine.pop_front();
            }
            ops++;
        }
        for (auto &m : mine) { m.first->unsubscribe(); m.second->dead.store(true); }
    };
    auto notifier = [&] {
        while (!stop.load()) { router.notify(key); router.notify(other); ops++; }
    };
    // exists()/depth() are operations of the same router: once subscribe(k) has returned and until that subscription is removed
    // and shrunk away, every exists(k) is true and every depth() is at least levels(k)+1; once the shrink that removes the only
    // deep branch has returned, depth() is back at 3 (root/a/b).  A wide level (`w/0` … `w/1999`, eternal observers) makes a
    // depth() walk long enough to overlap other operations; a poller keeps calling depth() and exists().
    std::atomic<long> staleDepth{0}, staleExists{0};
    std::vector<USubscription> wide;
    for (int i = 0; i < 2000; ++i) wide.emplace_back(router.subscribe(RoutingKeyBuilder{"w", std::to_string(i)}.build(), [] {}));
    auto deepener = [&] {
        unsigned x = seed * 7919u + 13;
        while (!stop.load()) {
            x = x * 1664525u + 1013904223u;
            int levels = 3 + (x >> 20) % 4;                    // d/x1/…: 3 … 6 levels
            RoutingKeyBuilder b;
            b.level("d");
            for (int i = 1; i < levels; ++i) b.level("x" + std::to_string(i));
            auto deep = b.build();
            auto sub = router.subscribe(deep, [] {});
            if (!router.exists(deep)) staleExists++;
            if (router.depth() < static_cast<size_t>(levels) + 1) staleDepth++;
            sub->unsubscribe();
            RoutingKeyBuilder p;
            p.level("d");
            for (int i = 1; i < levels; ++i) p.all();
            router.shrink(p.build());
            if (router.exists(deep)) staleExists++;
            if (router.depth() > 3) staleDepth++;
            ops++;
        }
    };
    auto poller = [&] {
        auto probe = RoutingKeyBuilder{"d", "x1", "x2"}.build();
        while (!stop.load()) { (void) router.depth(); (void) router.exists(probe); ops++; }
    };
    std::vector<std::thread> ts;
    ts.emplace_back(deepener);
    ts.emplace_back(poller);
    for (unsigned i = 0; i < 5; ++i) ts.emplace_back(worker, seed * 31 + i);
    ts.emplace_back(notifier);
    ts.emplace_back(notifier);
    std::this_thread::sleep_for(std::chrono::milliseconds(ms));
    stop.store(true);
    for (auto &t : ts) t.join();
    router.notify(key); router.notify(other);
    if (violations.load() != 0) {
        std::printf("VIOLATION an observer was invoked after its unsubscribe() had returned (or during a mutation): %ld times in %ld operations\n",
                    violations.load(), ops.load());
        return 1;
    }
    if (missed.load() != 0) {
        std::printf("VIOLATION a notify issued after subscribe() had returned did not reach the new observer: %ld times in %ld operations\n", missed.load(), ops.load());
        return 1;
    }
    if (staleDepth.load() != 0 || staleExists.load() != 0) {
        std::printf("VIOLATION depth()/exists() contradicted a subscribe()/shrink() that had already returned: depth %ld times, exists %ld times in %ld operations\n",
                    staleDepth.load(), staleExists.load(), ops.load());
        return 1;
    }
    std::printf("ok %ld operations\n", ops.load());
    return 0;
}
