// Free-running stress of the real ConcurrentSubjectRouter with real threads (no controlled scheduler, no sanitizer):
// the third clause of C11 at full speed — once unsubscribe() has returned, that observer is never invoked again —
// and the lock's own sanity (a delivery never overlaps a subscribe/unsubscribe body).
//   usage: crouter_stress <seed> <milliseconds>       exit 1 + a line `VIOLATION …` on failure, 0 otherwise
#include <tulz/observer/routing/ConcurrentSubjectRouter.h>
#include <tulz/observer/routing/RoutingKeyBuilder.h>

#include <atomic>
#include <chrono>
#include <cstdio>
#include <cstdlib>
#include <deque>
#include <memory>
#include <thread>
#include <vector>

using namespace tulz;

struct Obs {
    std::atomic<bool> dead{false};
    std::atomic<long> callsAfterDeath{0};
};

int main(int argc, char **argv) {
    unsigned seed = argc > 1 ? std::atoi(argv[1]) : 1;
    int ms = argc > 2 ? std::atoi(argv[2]) : 2000;
    ConcurrentSubjectRouter router;
    auto key = RoutingKeyBuilder{"a", "b"}.build();
    auto other = RoutingKeyBuilder{"a", "c"}.build();
    std::atomic<bool> stop{false};
    std::atomic<long> violations{0}, ops{0};
    std::atomic<int> delivering{0}, mutating{0};

    auto worker = [&](unsigned s) {
        std::deque<std::pair<USubscription, std::shared_ptr<Obs>>> mine;
        unsigned x = s * 2654435761u + 1;
        while (!stop.load()) {
            x = x * 1664525u + 1013904223u;
            if (mine.size() < 8 && (x >> 16) % 2 == 0) {
                auto o = std::make_shared<Obs>();
                mine.emplace_back(router.subscribe((x >> 20) % 4 ? key : other, [o, &violations, &delivering, &mutating] {
                    delivering++;
                    if (o->dead.load()) { o->callsAfterDeath++; violations++; }
                    if (mutating.load() != 0) violations++;
                    delivering--;
                }), o);
            } else if (!mine.empty()) {
                auto &front = mine.front();
                front.first->unsubscribe();
                front.second->dead.store(true);        // from here on the observer must never be invoked
                mine.pop_front();
            }
            ops++;
        }
        for (auto &m : mine) { m.first->unsubscribe(); m.second->dead.store(true); }
    };
    auto notifier = [&] {
        while (!stop.load()) { router.notify(key); router.notify(other); ops++; }
    };
    std::vector<std::thread> ts;
    for (unsigned i = 0; i < 5; ++i) ts.emplace_back(worker, seed * 31 + i);
    ts.emplace_back(notifier);
    ts.emplace_back(notifier);
    std::this_thread::sleep_for(std::chrono::milliseconds(ms));
    stop.store(true);
    for (auto &t : ts) t.join();
    router.notify(key); router.notify(other);
    if (violations.load() != 0) {
        std::printf("VIOLATION an observer was invoked after its unsubscribe() had returned (or during a mutation): %ld times in %ld operations\n",
                    violations.load(), ops.load());
        return 1;
    }
    std::printf("ok %ld operations\n", ops.load());
    return 0;
}
