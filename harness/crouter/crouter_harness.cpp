// Real ConcurrentSubjectRouter (+ real rwp::Resource) under the controlled scheduler.
//
//   run <init>|<t1>,<t2>,… seed <n> [pts]      /     run <init>|<t1>,… sched <ids…> [pts]
//
// <init>  = `;`-separated keys subscribed by thread 0 before the other threads start (observer ids 1,2,…; `-` = none)
// <ti>    = `:`-separated operations of thread i:
//   N<pattern>  notify        S<key>  subscribe (observer id = 100*i + position)      U<k>  unsubscribe this thread's k-th subscription
//   K<pattern>  shrink        E<key>  exists                                            D     depth
//   X<pattern>  the same notify, issued from inside a callback of ANOTHER router (`aux`, its own Resource = m2/c3): the calling
//               thread is in the middle of aux.notify() — holding aux's read lock — when it calls router.notify(pattern).
//               The callback does not call back into the router it was delivered by, so the program is one of the property's;
//               the trace shows an ordinary `op … N<pattern>` (the router under test cannot tell the difference).
// keys / patterns: levels separated by `/`; a level `*` is RoutingKeyBuilder::all().
// Every callback logs `cb t o`, yields (a scheduling point inside the delivery), logs `cbx t o`.
// Events: op t idx <text> | opret t idx <result> | cb t o | cbx t o | scheduler events (lock/unlock/park/notify …)
#include <tulz/observer/routing/ConcurrentSubjectRouter.h>
#include <tulz/observer/routing/RoutingKeyBuilder.h>

#include "../painted.h"

using verif::ev;

static tulz::RoutingKey mkKey(const std::string &s) {
    tulz::RoutingKeyBuilder b;
    std::string cur;
    auto flush = [&] { if (cur == "*") b.all(); else b.level(cur); cur.clear(); };
    for (char c : s) { if (c == '/') flush(); else cur += c; }
    flush();
    return b.build();
}

static std::vector<std::string> split(const std::string &s, char sep) {
    std::vector<std::string> r; std::string cur;
    for (char c : s) { if (c == sep) { r.push_back(cur); cur.clear(); } else cur += c; }
    r.push_back(cur);
    return r;
}

static tulz::ConcurrentSubjectRouter *g_aux = nullptr;

// crowd configurations (`!` in front of <init>): the first callback delivered by thread 1's notify keeps the delivery open until every
// other thread is parked inside the router's Resource (each of them starts with a mutating operation and issues it only once the
// delivery is in progress) — 30-40 requests queued behind one slow delivery
static bool g_crowd = false, g_holding = false;
static int g_holdTarget = 0;
static int parkedCount() { int n = 0; for (auto &t : verif::Sched::I().ts) if (t.st == verif::Sched::PARKED) n++; return n; }
static void insideCallback() {
    if (g_crowd && !g_holding) { g_holding = true; verif::await([] { return parkedCount() >= g_holdTarget; }); }
    else verif::yield();
}
static thread_local std::function<void()> t_bridge;

static void runThread(tulz::ConcurrentSubjectRouter &router, int t, const std::vector<std::string> &ops) {
    std::vector<tulz::USubscription> subs;
    if (g_crowd && t != 1) verif::await([] { return g_holding; });
    for (size_t i = 0; i < ops.size(); i++) {
        const std::string &op = ops[i];
        if (op.empty()) continue;
        std::string arg = op.substr(1);
        std::string tag = std::to_string(t) + " " + std::to_string(i);
        if (op[0] == 'X') {
            t_bridge = [&router, tag, arg] {
                ev("op " + tag + " N" + arg);
                size_t n = router.notify(mkKey(arg));
                ev("opret " + tag + " " + std::to_string(n));
            };
            g_aux->notify(mkKey("bridge"));
            t_bridge = nullptr;
            continue;
        }
        ev("op " + tag + " " + op);
        switch (op[0]) {
            case 'N': {
                size_t n = router.notify(mkKey(arg));
                ev("opret " + tag + " " + std::to_string(n));
                break;
            }
            case 'S': {
                int obs = 100 * t + (int) i;
                subs.emplace_back(router.subscribe(mkKey(arg), [obs] {
                    int me = verif::self();
                    ev("cb " + std::to_string(me) + " " + std::to_string(obs));
                    verif::yield();
                    ev("cbx " + std::to_string(me) + " " + std::to_string(obs));
                }));
                ev("opret " + tag + " " + std::to_string(obs));
                break;
            }
            case 'U': {
                size_t k = std::stoul(arg);
                if (k < subs.size() && subs[k]->isValid()) { subs[k]->unsubscribe(); ev("opret " + tag + " ok"); }
                else ev("opret " + tag + " skipped");
                break;
            }
            case 'K': router.shrink(mkKey(arg)); ev("opret " + tag + " ok"); break;
            case 'E': { bool r = router.exists(mkKey(arg)); ev("opret " + tag + " " + (r ? "1" : "0")); break; }
            case 'D': { size_t d = router.depth(); ev("opret " + tag + " " + std::to_string(d)); break; }
            default: ev("opret " + tag + " bad-op");
        }
    }
    ev("done " + std::to_string(t));
}

static void runOne(const std::string &cfgIn) {
    std::string cfg = cfgIn;
    g_crowd = !cfg.empty() && cfg[0] == '!';
    g_holding = false;
    if (g_crowd) cfg.erase(0, 1);
    auto parts = split(cfg, '|');
    g_holdTarget = (int) split(parts.at(1), ',').size() - 1;
    // both routers live in painted storage (harness/painted.h)
    verif::Painted<tulz::ConcurrentSubjectRouter> routerBox(verif::paintFor(cfg)), auxBox(verif::paintFor(cfg));
    tulz::ConcurrentSubjectRouter &router = *routerBox, &aux = *auxBox;
    {
        // stable ids: the Resource of the router under test is m0 / c1, the auxiliary router's m2 / c3 (the replay looks at m0 / c1 only)
        auto &S = verif::Sched::I();
        std::unique_lock<decltype(S.G)> lk(S.G);
        verif::registerResourceIds(S, router.m_resource); verif::registerResourceIds(S, aux.m_resource);
    }
    g_aux = &aux;
    auto auxSub = aux.subscribe(mkKey("bridge"), [] { if (t_bridge) t_bridge(); });
    std::vector<tulz::USubscription> initial;
    if (parts.at(0) != "-") {
        int obs = 0;
        for (auto &k : split(parts[0], ';')) {
            ++obs;
            ev("op 0 " + std::to_string(obs - 1) + " S" + k);
            initial.emplace_back(router.subscribe(mkKey(k), [obs] {
                int me = verif::self();
                ev("cb " + std::to_string(me) + " " + std::to_string(obs));
                insideCallback();
                ev("cbx " + std::to_string(me) + " " + std::to_string(obs));
            }));
            ev("opret 0 " + std::to_string(obs - 1) + " " + std::to_string(obs));
        }
    }
    std::vector<std::unique_ptr<std::thread>> ths;
    for (auto &p : split(parts.at(1), ',')) {
        auto ops = split(p, ':');
        ths.emplace_back(new std::thread([&router, ops] { runThread(router, verif::self(), ops); }));
    }
    for (auto &t : ths) t->join();
}

int main() {
    setvbuf(stdout, nullptr, _IOLBF, 0);
    verif::start_watchdog(20);
    std::string line;
    while (std::getline(std::cin, line)) {
        std::istringstream is(line);
        std::string cmd, cfg, mode;
        is >> cmd >> cfg >> mode;
        if (cmd != "run") { std::puts("bad-op"); continue; }
        std::vector<int> script; uint64_t seed = 1; bool pts = false;
        std::string tok; std::vector<std::string> rest;
        while (is >> tok) rest.push_back(tok);
        if (!rest.empty() && rest.back() == "pts") { pts = true; rest.pop_back(); }
        if (mode == "seed") seed = std::stoull(rest.at(0)); else for (auto &x : rest) script.push_back(std::stoi(x));
        verif::Sched::I().begin(mode == "seed", seed, script, pts);
        runOne(cfg);
        verif::Sched::I().end();
        std::puts("end ok");
    }
    return 0;
}
