// Line-protocol interpreter for the real tulz::Path / tulz::DirectoryVisitor (compiled from the working tree).
// Reads `ps <op> <args…>` lines on stdin and prints one canonical line per operation, in the same format
// as the Lean driver (lean/Tulz/Drv/PathS.lean).  Strings travel hex-encoded (`-` = empty).
// The tree lives under the directory given by `ps root <hex>` (a fresh temporary directory created and
// removed by tools/components/pathfile.py); `mkdir`/`mkfile` build it, the queries go through tulz::Path
// (`exists`, `isfile`, `isdir`, `size`, `list`) or through std::filesystem (`sfs_size`, `sfs_list`).
#include <tulz/Path.h>
#include <tulz/DirectoryVisitor.h>
#include <tulz/Exception.h>

#include <dirent.h>
#include <fcntl.h>
#include <sys/stat.h>
#include <unistd.h>

#include <algorithm>
#include <climits>
#include <filesystem>
#include <iostream>
#include <memory>
#include <sstream>
#include <stdexcept>
#include <string>
#include <vector>
#define VERIF_PAINT_NEW 1
#include "../painted.h"

using tulz::Path;
using tulz::DirectoryVisitor;
namespace fs = std::filesystem;

static long fdBaseline = 0;
static long openFds() {
    long n = 0;
    if (DIR *d = ::opendir("/proc/self/fd")) {
        while (::readdir(d) != nullptr) ++n;
        ::closedir(d);
    }
    return n;
}

static std::string root;
static std::vector<std::unique_ptr<DirectoryVisitor>> visitors;

static int hexval(char c) { return c <= '9' ? c - '0' : (c | 32) - 'a' + 10; }

static std::string unhex(const std::string &h) {
    std::string r;
    if (h == "-") return r;
    for (size_t i = 0; i + 1 < h.size(); i += 2) r.push_back(static_cast<char>(hexval(h[i]) * 16 + hexval(h[i + 1])));
    return r;
}

static std::string hex(const std::string &s) {
    static const char *d = "0123456789abcdef";
    if (s.empty()) return "-";
    std::string r;
    for (unsigned char c : s) { r.push_back(d[c >> 4]); r.push_back(d[c & 15]); }
    return r;
}

// absolute path of a tree-relative path ("" = the root itself)
static std::string under(const std::string &rel) { return rel.empty() ? root : root + "/" + rel; }

static std::string showList(std::vector<std::string> names) {
    for (auto &n : names) n = hex(n);
    std::sort(names.begin(), names.end());
    std::string r = "l=";
    for (size_t i = 0; i < names.size(); ++i) { if (i) r += ","; r += names[i]; }
    return r;
}

static std::string excName(const tulz::Exception &e) {
    switch (e.type) {
        case Path::NotFound: return "!NotFound";
        case Path::NotDirectory: return "!NotDirectory";
        case Path::NotFile: return "!NotFile";
        default: return "!Exception";
    }
}

static std::string cwdLine() {
    char buf[PATH_MAX];
    if (!getcwd(buf, sizeof buf)) return "!getcwd";
    std::string c = buf;
    if (c == root) return "cwd=" + hex("/");
    if (c.compare(0, root.size() + 1, root + "/") == 0) return "cwd=" + hex(c.substr(root.size()));
    return "cwd=!outside:" + hex(c);
}

static std::string step(const std::vector<std::string> &t) {
    const std::string &op = t[1];
    std::ostringstream o;
    try {
        if (op == "reset") {
            visitors.clear();
            return "ok";
        }
        if (op == "root") {
            while (!visitors.empty()) visitors.pop_back();
            root = unhex(t[2]);
            if (chdir(root.c_str()) != 0) return "!harness-chdir";
            fdBaseline = openFds();
            return "ok";
        }
        // descriptors opened since `root` and still open (Path opens streams and directories only for the duration of a call)
        if (op == "fds") { o << "n=" << (openFds() - fdBaseline); return o.str(); }
        // ---- strings
        if (op == "name") return hex(Path(unhex(t[2])).getPathName());
        if (op == "parent") return hex(Path(unhex(t[2])).getParentDirectory().toString());
        if (op == "join") return hex(Path::join(unhex(t[2]), unhex(t[3])));
        if (op == "abs") return Path(unhex(t[2])).isAbsolute() ? "b=1" : "b=0";
        if (op == "nj") return hex(Path::join(Path(unhex(t[2])), Path(unhex(t[3]))).getPathName());
        if (op == "pj") return hex(Path::join(Path(unhex(t[2])), Path(unhex(t[3]))).getParentDirectory().toString());
        // ---- tree construction (not through tulz)
        if (op == "mkdir") return ::mkdir(under(unhex(t[2])).c_str(), 0755) == 0 ? "ok" : "!harness-cannot-create";
        if (op == "mkfile") {
            int fd = ::open(under(unhex(t[2])).c_str(), O_WRONLY | O_CREAT | O_TRUNC, 0644);
            if (fd < 0) return "!harness-cannot-create";
            size_t n = std::stoul(t[3]);
            // large files (the property's `empty and large files`) are created sparse: same size for ftell/stat, no disk blocks
            if (n >= (size_t(1) << 24)) { bool ok = ::ftruncate(fd, static_cast<off_t>(n)) == 0; ::close(fd); return ok ? "ok" : "!harness-cannot-create"; }
            std::vector<char> block(65536, 'x');
            while (n > 0) {
                size_t k = std::min(n, block.size());
                if (::write(fd, block.data(), k) != static_cast<ssize_t>(k)) { ::close(fd); return "!harness-cannot-create"; }
                n -= k;
            }
            ::close(fd);
            return "ok";
        }
        // ---- queries through tulz::Path
        if (op == "exists") return Path(under(unhex(t[2]))).exists() ? "b=1" : "b=0";
        if (op == "isfile") return Path(under(unhex(t[2]))).isFile() ? "b=1" : "b=0";
        if (op == "isdir") return Path(under(unhex(t[2]))).isDirectory() ? "b=1" : "b=0";
        if (op == "size") { o << "n=" << Path(under(unhex(t[2]))).size(); return o.str(); }
        if (op == "list") {
            std::vector<std::string> names;
            for (const auto &c : Path(under(unhex(t[2]))).listChildren()) names.push_back(c.toString());
            return showList(names);
        }
        // ---- the same questions put to std::filesystem
        if (op == "sfs_size") {
            fs::path p(under(unhex(t[2])));
            std::error_code ec;
            auto st = fs::symlink_status(p, ec);
            if (ec || !fs::exists(st)) return "!NotFound";
            uintmax_t total = 0;
            if (fs::is_regular_file(st)) total = fs::file_size(p);
            else for (const auto &e : fs::recursive_directory_iterator(p)) if (e.is_regular_file()) total += e.file_size();
            o << "n=" << total;
            return o.str();
        }
        if (op == "sfs_list") {
            fs::path p(under(unhex(t[2])));
            std::error_code ec;
            auto st = fs::symlink_status(p, ec);
            if (ec || !fs::exists(st)) return "!NotFound";
            if (!fs::is_directory(st)) return "!NotDirectory";
            std::vector<std::string> names;
            for (const auto &e : fs::directory_iterator(p)) names.push_back(e.path().filename().string());
            return showList(names);
        }
        // ---- DirectoryVisitor: a stack of live visitors (scopes); `/x/y` is taken below the root, anything
        //      else is passed as written (relative to the working directory), `-` is the default constructor
        if (op == "dv_push") {
            std::string d = unhex(t[2]);
            if (d.empty()) visitors.push_back(std::make_unique<DirectoryVisitor>());
            else visitors.push_back(std::make_unique<DirectoryVisitor>(Path(d[0] == '/' ? (d == "/" ? root : root + d) : d)));
            return cwdLine();
        }
        // the top visitor is used again / the working directory changes by other means
        if (op == "dv_restore") {
            if (visitors.empty()) return "!no-visitor";
            visitors.back()->restore();
            return cwdLine();
        }
        if (op == "dv_visit") {
            if (visitors.empty()) return "!no-visitor";
            std::string d = unhex(t[2]);
            visitors.back()->set(Path(d[0] == '/' ? (d == "/" ? root : root + d) : d));
            visitors.back()->visit();
            return cwdLine();
        }
        if (op == "chdir") {
            std::string d = unhex(t[2]);
            Path::setWorkingDirectory(Path(d[0] == '/' ? (d == "/" ? root : root + d) : d));
            return cwdLine();
        }
        if (op == "dv_pop") {
            if (visitors.empty()) return "!no-visitor";
            visitors.pop_back();
            return cwdLine();
        }
        if (op == "cwd") return cwdLine();
    } catch (const tulz::Exception &e) {
        return excName(e);
    } catch (const std::out_of_range &) {
        return "!OOR";
    } catch (const std::length_error &) {
        return "!OOR";
    }
    return "bad-op";
}

int main() {
    std::ios::sync_with_stdio(false);
    std::string line;
    while (std::getline(std::cin, line)) {
        verif::paintLine(line);   // painted `new` (harness/painted.h)
        std::istringstream is(line);
        std::vector<std::string> t;
        std::string w;
        while (is >> w) t.push_back(w);
        if (t.size() < 2 || t[0] != "ps") { std::cout << "bad-component\n"; continue; }
        while (t.size() < 5) t.push_back("");
        std::cout << step(t) << "\n" << std::flush;
    }
    visitors.clear();
    return 0;
}
