// Drives the real tulz::Thread (Thread.h / Thread.cpp compiled from the working tree through the token remap, so that
// `std::thread` inside tulz is the scheduler-aware replacement) under the controlled scheduler.  One execution per line:
//
//   run <kind>:<via>:<nargs> seed <n> [pts]          random schedule from seed n
//   run <kind>:<via>:<nargs> sched <t0 t1 …> [pts]   explicit schedule; afterwards: keep running the current thread, else
//                                                    the lowest enabled one.  The EMPTY schedule therefore holds the new
//                                                    thread back until start() has returned, the starter has overwritten
//                                                    its stack and blocks in join().
//   kind  = fnptr | small (16-byte closure) | big (64-byte closure) | functor (canary poisoned in the destructor,
//           non-const operator()) | runnable (tracked Runnable subclass)
//   via   = start (default-constructed Thread, then start(...)) | ctor (the forwarding constructor)
//   nargs = 0 | 1 | 2 lvalue arguments (int&) owned by the starter's scope
//
// Events (one line each; `fin` = Thread::isFinished() read at that moment; t = scheduler id of the executing thread):
//   startCall | startRet | clobber | poll 0 | finishedSeen | joinRet fin=… | args a=… b=… | scopeExit          (starter)
//   invokeBegin t=… fin=… args=caller|copy|none | selfTouch | argsTouch | invokeEnd fin=…                       (callable)
//   runnableRun t=… fin=… | selfTouch | runnableRunEnd fin=… | runnableDestroyed fin=…                          (Runnable)
//   DEAD-CALLABLE <why> | DEAD-RUNNABLE <why>      canary tripped: the process stops without an `end` line
//   UNJOINED <why>                                 join() returned while the new thread still exists: the process stops likewise
//   spawn p c | exit t | joined p c                (scheduler)
// then `end ok`.  A sanitizer report / crash ends the process without an `end` line (status `abort`).
#include <tulz/threading/Thread.h>

#include "../painted.h"

using verif::ev;

#define NOINLINE __attribute__((noinline))

static constexpr uint64_t MAGIC = 0xC0FFEE5EED5A11CEull;
static constexpr uint64_t POISON = 0xDEADDEADDEADDEADull;

static tulz::Thread *g_thread = nullptr;    // the Thread under test
static int *g_arg0 = nullptr;               // address of the caller's first lvalue argument
static int g_functorCopies = 0;

static std::string fin() { return std::string("fin=") + (g_thread && g_thread->isFinished() ? "1" : "0"); }

[[noreturn]] static void dead(const std::string &what) {
    ev(what);
    std::fflush(stdout);
    _exit(4);
}

// what every callable does once it has validated its own state
static void invocation(const std::vector<int *> &args, const std::function<void()> &selfCheck) {
    ev("invokeBegin t=" + std::to_string(verif::self()) + " " + fin() + " args=" +
       (args.empty() ? "none" : (args[0] == g_arg0 ? "caller" : "copy")));
    verif::yield();
    if (selfCheck) { selfCheck(); ev("selfTouch"); }
    if (!args.empty()) { for (int *p : args) *p += 1; ev("argsTouch"); }
    verif::yield();
    if (selfCheck) { selfCheck(); ev("selfTouch"); }
    ev("invokeEnd " + fin());
}

// ---- function pointers
static void fn0() { invocation({}, nullptr); }
static void fn1(int &a) { invocation({&a}, nullptr); }
static void fn2(int &a, int &b) { invocation({&a, &b}, nullptr); }

// the clobber pattern of the non-sanitized build: a stale function pointer read from the dead frame lands here
static void deadTrap() { dead("DEAD-CALLABLE stale function pointer read from the overwritten frame of start()"); }
static void deadTrap1(int &) { deadTrap(); }

// ---- closures: trivially copyable, 16 and 64 bytes
static int g_out = 0;
static auto makeSmall() {
    return [magic = MAGIC, out = &g_out](auto &... xs) {
        if (magic != MAGIC) dead("DEAD-CALLABLE small closure: captured state overwritten");
        const uint64_t *m = &magic; int *const *o = &out;
        invocation({&xs...}, [m, o] { if (*m != MAGIC || *o != &g_out) dead("DEAD-CALLABLE small closure: captured state overwritten"); });
        *out += 1;
    };
}
static auto makeBig() {
    std::array<uint64_t, 6> pad{MAGIC + 1, MAGIC + 2, MAGIC + 3, MAGIC + 4, MAGIC + 5, MAGIC + 6};
    return [magic = MAGIC, pad, out = &g_out](auto &... xs) {
        auto ok = [](const uint64_t *m, const std::array<uint64_t, 6> *p) {
            if (*m != MAGIC) return false;
            for (int i = 0; i < 6; i++) if ((*p)[i] != MAGIC + 1 + i) return false;
            return true;
        };
        const uint64_t *m = &magic; const std::array<uint64_t, 6> *p = &pad;
        if (!ok(m, p)) dead("DEAD-CALLABLE 64-byte closure: captured state overwritten");
        invocation({&xs...}, [=] { if (!ok(m, p)) dead("DEAD-CALLABLE 64-byte closure: captured state overwritten"); });
        *out += 1;
    };
}
static_assert(sizeof(decltype(makeSmall())) == 16, "small closure is 16 bytes");
static_assert(sizeof(decltype(makeBig())) == 64, "big closure is 64 bytes");

// ---- functor with a liveness canary, poisoned by the destructor; operator() is not const
struct Functor {
    uint64_t magic = MAGIC;
    int calls = 0;
    Functor() = default;
    Functor(const Functor &o) : magic(o.magic), calls(o.calls) { g_functorCopies++; }
    Functor &operator=(const Functor &) = delete;
    ~Functor() { magic = POISON; }
    // a callable may be boolean-testable with a meaning of its own (a job whose `bool` says "result ready"): this one is "false"
    // until it has run — the Thread has to invoke it regardless
    explicit operator bool() const { return calls > 0; }
    template<class... A> void operator()(A &... xs) {
        if (magic != MAGIC) dead(magic == POISON ? "DEAD-CALLABLE functor: invoked after its destructor ran" : "DEAD-CALLABLE functor: storage overwritten");
        calls++;
        invocation({&xs...}, [this] { if (magic != MAGIC) dead(magic == POISON ? "DEAD-CALLABLE functor: used after its destructor ran" : "DEAD-CALLABLE functor: storage overwritten"); });
    }
};

// ---- Runnable with tracked run / destructor
// Runnable is NOT the first base: a `TrackedRunnable*` and the `Runnable*` of the same object differ, so a pointer that travels
// as `void*` without the derived-to-base adjustment dispatches through the wrong vtable
struct Describable {
    long pad = 7;
    virtual void describe() { dead("DEAD-RUNNABLE a virtual function of another base was called instead of Runnable::run()"); }
    virtual ~Describable() = default;
};

struct TrackedRunnable : Describable, tulz::Runnable {
    uint64_t magic = MAGIC;
    static int live, destroyed;
    TrackedRunnable() { live++; }
    void run() override {
        if (magic != MAGIC) dead("DEAD-RUNNABLE run() on a destroyed Runnable");
        ev("runnableRun t=" + std::to_string(verif::self()) + " " + fin());
        verif::yield();
        if (magic != MAGIC) dead("DEAD-RUNNABLE Runnable destroyed while run() is executing");
        ev("selfTouch");
        verif::yield();
        ev("runnableRunEnd " + fin());
    }
    ~TrackedRunnable() override {
        if (magic != MAGIC) { ev("DEAD-RUNNABLE destroyed twice"); std::fflush(stdout); _exit(4); }
        magic = POISON; live--; destroyed++;
        ev("runnableDestroyed " + fin());
        verif::yield();
    }
};
int TrackedRunnable::live = 0;
int TrackedRunnable::destroyed = 0;

// ---- the starter
template<class F> static void launch(bool ctor, void *storage, F f, int nargs, int &a, int &b) {
    // `f` is passed on by value exactly as the library takes it (T ptr)
    if (ctor) {
        switch (nargs) {
            case 0: new (storage) tulz::Thread(f); break;
            case 1: new (storage) tulz::Thread(f, a); break;
            default: new (storage) tulz::Thread(f, a, b); break;
        }
    } else {
        tulz::Thread *t = new (storage) tulz::Thread();
        switch (nargs) {
            case 0: t->start(f); break;
            case 1: t->start(f, a); break;
            default: t->start(f, a, b); break;
        }
    }
}

// everything that lives only as long as the call of start(): the caller's callable object, the by-value parameter copies
NOINLINE static void doStart(const std::string &kind, bool ctor, void *storage, int nargs, int &a, int &b) {
    ev("startCall");
    if (kind == "fnptr") {
        if (ctor) {
            switch (nargs) {
                case 0: new (storage) tulz::Thread(&fn0); break;
                case 1: new (storage) tulz::Thread(&fn1, a); break;
                default: new (storage) tulz::Thread(&fn2, a, b); break;
            }
        } else {
            tulz::Thread *t = new (storage) tulz::Thread();
            switch (nargs) {
                case 0: t->start(&fn0); break;
                case 1: t->start(&fn1, a); break;
                default: t->start(&fn2, a, b); break;
            }
        }
    } else if (kind == "small") {
        launch(ctor, storage, makeSmall(), nargs, a, b);
    } else if (kind == "big") {
        launch(ctor, storage, makeBig(), nargs, a, b);
    } else if (kind == "functor") {
        Functor f;
        launch<Functor &>(ctor, storage, f, nargs, a, b);
    } else {    // runnable
        TrackedRunnable *r = new TrackedRunnable();
        if (ctor) new (storage) tulz::Thread(r);
        else { tulz::Thread *t = new (storage) tulz::Thread(); t->start(r); }
    }
    ev("startRet");
}

// the starter keeps using its stack: overwrite the region in which the frames of doStart() / start() lived.
// The pattern is the address of a trap function, so that a stale function pointer read from there is caught as well.
NOINLINE static void clobber(int nargs) {
    void *volatile buf[1536];
    void *pat = nargs == 1 ? (void *) &deadTrap1 : (void *) &deadTrap;
    for (size_t i = 0; i < sizeof(buf) / sizeof(buf[0]); i++) buf[i] = pat;
    ev("clobber");
}

static void pollOnce(tulz::Thread &t) { ev(t.isFinished() ? "finishedSeen" : "poll 0"); }

static void runOne(const std::string &kind, bool ctor, int nargs) {
    int a = 10, b = 20;                                     // the caller's lvalue arguments
    alignas(tulz::Thread) unsigned char storage[sizeof(tulz::Thread)];
    // painted storage (harness/painted.h): a member the Thread constructors forget has a known value
    std::memset(storage, verif::paintFor(kind + (ctor ? "c" : "s") + std::to_string(nargs)), sizeof storage);
    __asm__ __volatile__("" : : "r"(storage) : "memory");
    tulz::Thread *t = reinterpret_cast<tulz::Thread *>(storage);
    g_thread = nullptr; g_arg0 = &a; g_out = 0; g_functorCopies = 0;
    TrackedRunnable::live = 0; TrackedRunnable::destroyed = 0;
    // m_isFinished is read through g_thread only after the Thread object exists (the first event of a callable comes after spawn)
    g_thread = t;
    doStart(kind, ctor, storage, nargs, a, b);
    clobber(nargs);
    verif::yield();
    pollOnce(*t);
    verif::yield();
    pollOnce(*t);
    t->join();
    ev("joinRet " + fin());
    ev("args a=" + std::to_string(a) + " b=" + std::to_string(b) + " out=" + std::to_string(g_out) +
       " live=" + std::to_string(TrackedRunnable::live) + " destroyed=" + std::to_string(TrackedRunnable::destroyed));
    ev("scopeExit");
    {   // join() has returned: every thread the Thread object started must have finished.  A thread that is still around
        // (join() did not join) cannot be unwound: stop the process, without an `end` line.
        auto &S = verif::Sched::I();
        bool unjoined = false;
        { std::unique_lock lk(S.G); for (size_t i = 1; i < S.ts.size(); i++) if (S.ts[i].st != verif::Sched::FIN) unjoined = true; }
        if (unjoined) { ev("UNJOINED the new thread has not finished although join() returned"); std::fflush(stdout); _exit(6); }
    }
    g_thread = nullptr;
    t->~Thread();
}

int main() {
    setvbuf(stdout, nullptr, _IOLBF, 0);
    verif::start_watchdog(6);
    std::string line;
    while (std::getline(std::cin, line)) {
        std::istringstream is(line);
        std::string cmd, cfg, mode;
        is >> cmd >> cfg >> mode;
        if (cmd != "run") { std::puts("bad-op"); continue; }
        std::vector<std::string> parts;
        { std::string cur; for (char c : cfg) { if (c == ':') { parts.push_back(cur); cur.clear(); } else cur += c; } parts.push_back(cur); }
        if (parts.size() != 3) { std::puts("bad-op"); continue; }
        std::vector<int> script; uint64_t seed = 1; bool pts = false;
        std::string tok;
        std::vector<std::string> rest; while (is >> tok) rest.push_back(tok);
        if (!rest.empty() && rest.back() == "pts") { pts = true; rest.pop_back(); }
        if (mode == "seed") seed = std::stoull(rest.at(0));
        else for (auto &x : rest) script.push_back(std::stoi(x));
        verif::Sched::I().begin(mode == "seed", seed, script, pts);
        runOne(parts[0], parts[1] == "ctor", std::stoi(parts[2]));
        verif::Sched::I().end();
        std::puts("end ok");
    }
    return 0;
}
