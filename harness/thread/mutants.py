#!/usr/bin/env python3
"""Mutation run for C20.  Usage:  TULZ_REPO=/tmp/rw_<x> python3 harness/thread/mutants.py [M3 M7 …]
TULZ_REPO must be a scratch worktree of the repo WITH repairs/F10.patch applied (never /repo itself); both files are
restored after every mutant.  Every M* must be reported (exit 1; `concrete` = a VIOLATION with a failing schedule on the
real code, `obligation` = the generated obligation / translator / compile failure only), every B* must pass."""
import os, subprocess, sys, time
REPO = os.environ.get("TULZ_REPO", "")
if not REPO or os.path.realpath(REPO) == "/repo":
    sys.exit("set TULZ_REPO to a scratch worktree")
VERIF = os.path.dirname(os.path.dirname(os.path.dirname(os.path.abspath(__file__))))
H = os.path.join(REPO, "include", "tulz", "threading", "Thread.h")
C = os.path.join(REPO, "src", "threading", "Thread.cpp")
base = {H: open(H).read(), C: open(C).read()}

INTRO = "m_thread = std::thread([this, ptr, &args...]() mutable {"
TBODY = """            ptr(std::forward<Args>(args)...);
            m_isFinished = true;
"""
RBODY = """        runnable->run();
        delete runnable;

        m_isFinished = true;
"""
assert INTRO in base[H] and TBODY in base[H], "apply repairs/F10.patch to the scratch tree first"
assert RBODY in base[C]

def sub(path, old, new):
    return (path, old, new)

MUTS = [
 ("M1 capture by reference again: [&, this]", [sub(H, INTRO, "m_thread = std::thread([&, this]() mutable {")]),
 ("M2 explicit reference: [this, &ptr, &args...]", [sub(H, INTRO, "m_thread = std::thread([this, &ptr, &args...]() mutable {")]),
 ("M3 the original [&]", [sub(H, INTRO, "m_thread = std::thread([&]() {")]),
 ("M4 [=] without mutable (does not compile for lvalue arguments)", [sub(H, INTRO, "m_thread = std::thread([=]() {")]),
 ("M5 by copy without mutable (does not compile for a non-const operator())", [sub(H, INTRO, "m_thread = std::thread([this, ptr, &args...]() {")]),
 ("M6 m_isFinished set before the callable is invoked", [sub(H, TBODY, """            m_isFinished = true;
            ptr(std::forward<Args>(args)...);
""")]),
 ("M7 callable invoked twice", [sub(H, TBODY, """            ptr(std::forward<Args>(args)...);
            ptr(std::forward<Args>(args)...);
            m_isFinished = true;
""")]),
 ("M8 m_isFinished never set", [sub(H, TBODY, """            ptr(std::forward<Args>(args)...);
""")]),
 ("M9 Runnable not deleted", [sub(C, RBODY, """        runnable->run();

        m_isFinished = true;
""")]),
 ("M10 Runnable deleted before run()", [sub(C, RBODY, """        delete runnable;
        runnable->run();

        m_isFinished = true;
""")]),
 ("M11 m_isFinished set before the Runnable is deleted", [sub(C, RBODY, """        runnable->run();
        m_isFinished = true;
        delete runnable;
""")]),
 ("M12 Runnable deleted twice", [sub(C, RBODY, """        runnable->run();
        delete runnable;
        delete runnable;

        m_isFinished = true;
""")]),
 ("M13 join() returns early when the thread is still running", [sub(C, "    m_thread.join();\n", "    if (!m_isFinished) return;\n    m_thread.join();\n")]),
 ("M14 join() detaches instead of joining", [sub(C, "    m_thread.join();\n", "    m_thread.detach();\n")]),
 ("M15 start(Runnable*) captures [&]", [sub(C, "m_thread = std::thread([this, runnable] {", "m_thread = std::thread([&] {")]),
 ("M16 run() called twice", [sub(C, RBODY, """        runnable->run();
        runnable->run();
        delete runnable;

        m_isFinished = true;
""")]),
 ("M17 callable run on the starting thread, empty thread spawned", [sub(H, INTRO + "\n" + TBODY + "        });", """ptr(std::forward<Args>(args)...);
        m_thread = std::thread([this]() {
            m_isFinished = true;
        });""")]),
 ("M18 isFinished() always true", [sub(C, "    return m_isFinished;\n", "    return true;\n")]),
 ("B1 [=]() mutable: callable AND arguments copied (not a violation of C20: must PASS)", [sub(H, INTRO, "m_thread = std::thread([=]() mutable {")]),
 ("B2 init-capture by move: [this, f = std::move(ptr), &args...] (must PASS)",
  [sub(H, INTRO, "m_thread = std::thread([this, f = std::move(ptr), &args...]() mutable {"),
   sub(H, "            ptr(std::forward<Args>(args)...);\n            m_isFinished", "            f(std::forward<Args>(args)...);\n            m_isFinished")]),
 ("B3 [&, ptr]: default reference, callable explicitly copied (must PASS)", [sub(H, INTRO, "m_thread = std::thread([&, ptr]() mutable {")]),
 ("B4 comments and whitespace only (must PASS)", [sub(H, INTRO, "m_thread = std::thread( [ this , ptr /* copy! */ , & args ... ] ( ) mutable {   // [&] was wrong")]),
 ("F1 fail closed: callable passed as a std::thread argument (safe code the translator does not analyse: reported, no failing input)",
  [sub(H, INTRO + "\n" + TBODY + "        });", """m_thread = std::thread([this](T p, std::decay_t<Args>... a) {
            p(a...);
            m_isFinished = true;
        }, ptr, args...);""")]),
]
only = sys.argv[1:]
results = []
try:
  for name, edits in MUTS:
    if only and not any(name.split()[0] == o for o in only):
        continue
    cur = dict(base)
    for path, old, new in edits:
        assert old in cur[path], (name, old)
        cur[path] = cur[path].replace(old, new, 1)
    for path in cur:
        open(path, "w").write(cur[path])
    t = time.time()
    p = subprocess.run(["python3", "tools/check.py", "C20", "--tier", "quick"], cwd=VERIF, env=dict(os.environ), stdout=subprocess.PIPE,
                       stderr=subprocess.STDOUT, text=True)
    out = p.stdout
    viol = [l for l in out.split("\n") if l.startswith("VIOLATION") or l.startswith("  ")]
    concrete = any(l.startswith("VIOLATION") and "no-failing-input-found" not in l for l in out.split("\n"))
    print("=" * 100)
    print("%s -> exit %d (%.0fs)" % (name, p.returncode, time.time() - t))
    for l in viol[:9]:
        print("   " + l[:300])
    print("   " + out.strip().split("\n")[-1])
    results.append((name, p.returncode, concrete))
    sys.stdout.flush()
finally:
    for path in base:
        open(path, "w").write(base[path])
print("\nSUMMARY")
for n, rc, concrete in results:
    print("  %-100s %s" % (n[:100], ("caught (concrete schedule)" if concrete else "caught (obligation / build only)") if rc else "PASSED"))
