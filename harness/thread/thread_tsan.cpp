// Free-running ThreadSanitizer probe for C20 (real std::thread, no controlled scheduler): the clause
// "isFinished() becomes true only after the callable has returned" at the level of the C++ memory model.
// A starter polls isFinished() and, once it is true, reads plain data the callable wrote — without join() in between.
// This is race-free exactly when the completion flag is published with release/acquire (or stronger) ordering.
//   usage: thread_tsan <rounds>      exit 66 + TSan report on a race, 0 otherwise
#include <tulz/threading/Thread.h>
#include <tulz/threading/Runnable.h>

#include <cstdio>
#include <cstdlib>
#include <vector>

static long sink[64];

static void fill(long &base, int &n) { for (int i = 0; i < n; ++i) sink[i] = base + i; }

struct Job : tulz::Runnable {
    long *out;
    explicit Job(long *o) : out(o) {}
    void run() override { for (int i = 0; i < 64; ++i) out[i] = 7 * i; }
};

static long readAll(const long *p) { long s = 0; for (int i = 0; i < 64; ++i) s += p[i]; return s; }

int main(int argc, char **argv) {
    int rounds = argc > 1 ? std::atoi(argv[1]) : 200;
    long total = 0;
    for (int r = 0; r < rounds; ++r) {
        {   // function pointer + lvalue arguments
            long base = r; int n = 64;
            tulz::Thread t;
            t.start(&fill, base, n);
            while (!t.isFinished()) {}
            total += readAll(sink);
            t.join();
        }
        {   // closure
            std::vector<long> data(64, 0);
            long *p = data.data();
            tulz::Thread t;
            t.start([p, r] { for (int i = 0; i < 64; ++i) p[i] = r + i; });
            while (t.isRunning()) {}
            total += readAll(p);
            t.join();
        }
        {   // Runnable
            std::vector<long> data(64, 0);
            tulz::Thread t;
            t.start(new Job(data.data()));
            while (!t.isFinished()) {}
            total += readAll(data.data());
            t.join();
        }
    }
    std::printf("total=%ld\n", total);
    return 0;
}
