// Line-protocol interpreter for the real tulz::File (compiled from the working tree).
// Reads `file <op> <args…>` lines on stdin and prints one canonical line per operation, in the same
// format as the Lean driver (lean/Tulz/Drv/FileM.lean).  All files live under the directory given by
// `file root <hex>` (a fresh temporary directory created and removed by tools/components/pathfile.py).
#include <tulz/File.h>
#include <tulz/Exception.h>

#include <dirent.h>
#include <fcntl.h>
#include <sys/stat.h>
#include <unistd.h>

#include <cstdint>
#include <cstdio>
#include <filesystem>
#include <iostream>
#include <map>
#include <memory>
#include <fstream>
#include <sstream>
#include <string>
#include <vector>
#define VERIF_PAINT_NEW 1
#include "../painted.h"

using tulz::File;
using tulz::Path;

static long fdBaseline = 0;
static long openFds() {
    long n = 0;
    if (DIR *d = ::opendir("/proc/self/fd")) {
        while (::readdir(d) != nullptr) ++n;
        ::closedir(d);
    }
    return n;
}

static std::string root;
static std::map<std::string, std::unique_ptr<File>> files;

static int hexval(char c) { return c <= '9' ? c - '0' : (c | 32) - 'a' + 10; }

static std::string unhex(const std::string &h) {
    std::string r;
    if (h == "-") return r;
    r.reserve(h.size() / 2);
    for (size_t i = 0; i + 1 < h.size(); i += 2) r.push_back(static_cast<char>(hexval(h[i]) * 16 + hexval(h[i + 1])));
    return r;
}

static std::string hex(const unsigned char *p, size_t n) {
    static const char *d = "0123456789abcdef";
    if (n == 0) return "-";
    std::string r;
    r.reserve(2 * n);
    for (size_t i = 0; i < n; ++i) { r.push_back(d[p[i] >> 4]); r.push_back(d[p[i] & 15]); }
    return r;
}

// data longer than 64 bytes is reported as #<length>:<FNV-1a 64> (same rule in the Lean driver and the oracle)
static std::string show(const unsigned char *p, size_t n) {
    if (n <= 64) return hex(p, n);
    uint64_t h = 14695981039346656037ull;
    for (size_t i = 0; i < n; ++i) { h ^= p[i]; h *= 1099511628211ull; }
    char buf[64];
    snprintf(buf, sizeof buf, "#%zu:%016llx", n, static_cast<unsigned long long>(h));
    return buf;
}

static std::string pathOf(const std::string &name) { return root + "/" + name; }

static File::Mode modeOf(const std::string &m) {
    if (m == "rt") return File::Mode::ReadText;
    if (m == "r") return File::Mode::Read;
    if (m == "wt") return File::Mode::WriteText;
    if (m == "w") return File::Mode::Write;
    if (m == "at") return File::Mode::AppendText;
    if (m == "a") return File::Mode::Append;
    return File::Mode::None;
}

static const char *modeName(File::Mode m) {
    switch (m) {
        case File::Mode::ReadText: return "rt";
        case File::Mode::Read: return "r";
        case File::Mode::WriteText: return "wt";
        case File::Mode::Write: return "w";
        case File::Mode::AppendText: return "at";
        case File::Mode::Append: return "a";
        default: return "none";
    }
}

static std::string step(const std::vector<std::string> &t) {
    const std::string &op = t[1];
    std::ostringstream o;
    if (op == "reset") { files.clear(); fdBaseline = openFds(); return "ok"; }
    // descriptors opened since the start of the case and still open: exactly one per open File object
    if (op == "fds") return "n=" + std::to_string(openFds() - fdBaseline);
    if (op == "procread") {
        // a file whose content is longer than the size it reports (procfs reports 0): a text-mode read() counts the characters it can
        // actually read, so it returns the whole content — and stays inside whatever it allocated (ASan)
        std::ifstream in("/proc/version", std::ios::binary);
        if (!in) return "b=1";
        std::string ref((std::istreambuf_iterator<char>(in)), std::istreambuf_iterator<char>());
        File f("/proc/version", File::Mode::ReadText);
        auto a = f.read();
        std::string got(reinterpret_cast<const char *>(a.array()), a.size());
        return got == ref ? "b=1" : "b=0";
    }
    if (op == "root") { root = unhex(t[2]); return "ok"; }
    if (op == "mkfile") {
        std::string data = unhex(t[3]);
        int fd = ::open(pathOf(t[2]).c_str(), O_WRONLY | O_CREAT | O_TRUNC, 0644);
        if (fd < 0) return "!harness-cannot-create";
        size_t off = 0;
        while (off < data.size()) { ssize_t w = ::write(fd, data.data() + off, data.size() - off); if (w <= 0) break; off += w; }
        ::close(fd);
        return "ok";
    }
    if (op == "mkdir") { return ::mkdir(pathOf(t[2]).c_str(), 0755) == 0 ? "ok" : "!harness-cannot-create"; }
    // symbolic link t[2] -> t[3] (relative target in the same directory; the target need not exist)
    if (op == "mklink") { return ::symlink(t[3].c_str(), pathOf(t[2]).c_str()) == 0 ? "ok" : "!harness-cannot-create"; }
    if (op == "fsize") {
        std::error_code ec;
        auto n = std::filesystem::file_size(pathOf(t[2]), ec);
        if (ec) return "!NotFound";
        o << "n=" << n;
        return o.str();
    }
    if (op == "cat") {
        int fd = ::open(pathOf(t[2]).c_str(), O_RDONLY);
        if (fd < 0) return "!NotFound";
        std::vector<unsigned char> all;
        unsigned char buf[65536];
        ssize_t r;
        while ((r = ::read(fd, buf, sizeof buf)) > 0) all.insert(all.end(), buf, buf + r);
        ::close(fd);
        return "data=" + show(all.data(), all.size());
    }
    if (op == "open") {
        try {
            auto it = files.find(t[2]);
            if (it == files.end()) {
                // first use of this name: the constructor form File(const std::string&, Mode); a throwing
                // constructor leaves no object behind
                auto obj = std::make_unique<File>(pathOf(t[3]), modeOf(t[4]));
                bool opened = obj->isOpen();
                files[t[2]] = std::move(obj);
                return opened ? "ok" : "null";
            }
            it->second->open(Path(pathOf(t[3])), modeOf(t[4]));
            return it->second->isOpen() ? "ok" : "null";
        } catch (const tulz::Exception &e) {
            if (e.type == Path::NotFound) return "!NotFound";
            if (e.type == Path::NotFile) return "!NotFile";
            return "!Exception";
        } catch (const std::invalid_argument &) {
            return "!InvalidMode";
        }
    }
    auto it = files.find(t[2]);
    if (it == files.end()) return "!no-object";
    File &f = *it->second;
    if (op == "drop") { files.erase(it); return "ok"; }
    if (op == "isopen") return f.isOpen() ? "b=1" : "b=0";
    if (op == "mode") return std::string("m=") + modeName(f.getMode());
    if (!f.isOpen()) return "!NotOpen";          // every other member dereferences the null FILE*
    if (op == "close") { f.close(); return "ok"; }
    if (op == "write" || op == "writea" || op == "writes") {
        std::string data = unhex(t[3]);
        size_t n;
        if (op == "write") {
            size_t esz = std::stoul(t[4]);
            n = f.write(data.data(), esz ? data.size() / esz : 0, esz);
        } else if (op == "writea") {
            tulz::Array<tulz::byte> arr(data.size());
            for (size_t i = 0; i < data.size(); ++i) arr[i] = static_cast<tulz::byte>(data[i]);
            n = f.write(arr);
        } else {
            n = f.write(data);
        }
        o << "n=" << n << " tell=" << f.tell();
        return o.str();
    }
    if (op == "read") {
        auto a = f.read();
        o << "data=" << show(a.array(), a.size()) << " tell=" << f.tell();
        return o.str();
    }
    if (op == "readstr") {
        std::string s = f.readStr();
        o << "data=" << show(reinterpret_cast<const unsigned char *>(s.data()), s.size()) << " tell=" << f.tell();
        return o.str();
    }
    if (op == "readbuf") {
        size_t sz = std::stoul(t[3]), cnt = std::stoul(t[4]);
        std::vector<unsigned char> buf(sz * cnt + 1, 0xEE);
        long before = f.tell();
        size_t n = f.read(buf.data(), sz, cnt);
        long after = f.tell();
        size_t moved = after >= before ? static_cast<size_t>(after - before) : 0;
        if (moved > sz * cnt) return "!read-moved-more-than-requested";
        if (buf[sz * cnt] != 0xEE) return "!buffer-overrun";
        o << "n=" << n << " data=" << show(buf.data(), moved) << " tell=" << after;
        return o.str();
    }
    if (op == "seek") {
        long off = std::stol(t[3]);
        int org = std::stoi(t[4]);
        int r = f.seek(off, org == 0 ? File::Origin::Start : org == 1 ? File::Origin::Current : File::Origin::End);
        o << "r=" << r << " tell=" << f.tell();
        return o.str();
    }
    if (op == "tell") { o << "n=" << f.tell(); return o.str(); }
    if (op == "size") { size_t s = f.size(); o << "n=" << s << " tell=" << f.tell(); return o.str(); }
    if (op == "flush") { o << "r=" << f.flush(); return o.str(); }
    return "bad-op";
}

int main() {
    std::ios::sync_with_stdio(false);
    std::string line;
    while (std::getline(std::cin, line)) {
        verif::paintLine(line);   // painted `new` (harness/painted.h)
        std::istringstream is(line);
        std::vector<std::string> t;
        std::string w;
        while (is >> w) t.push_back(w);
        if (t.size() < 2 || t[0] != "file") { std::cout << "bad-component\n"; continue; }
        while (t.size() < 6) t.push_back("");
        std::cout << step(t) << "\n" << std::flush;
    }
    files.clear();
    return 0;
}
