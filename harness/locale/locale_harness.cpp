// Line-protocol interpreter for the real tulz::LocaleInfo::get (src/LocaleInfo.cpp of the working tree, compiled
// together with this file under ASan/UBSan).  Same protocol as lean/Tulz/Drv/Loc.lean:
//
//   loc get <hex bytes | ->    ->  <code> | <name>,<name>… | <country> | <ccode> | err:0|1        (strings in hex)
//   loc table lang|country     ->  the tables as the COMPILER sees them, `code:name` pairs in hex
//   loc reset                  ->  ok
//   loc getbig <prefix hex> <fill byte hex> <count> <suffix hex>
//                              ->  like `loc get` for the string prefix + count x fill + suffix (count up to 2^32 + 100: the
//                                  property says `strings of any length`; part lengths that do not fit an int show here)
//   loc par <rounds>           ->  ok | MISMATCH …   four threads call get() at the same time, each with its own valid locale
//                                  (or an unknown one), <rounds> times, and compare every answer with the one computed before
//                                  the threads started: get() is a function of its argument, whoever else is calling it
//   loc static <k>             ->  <hex of the k-th fixed string> => <what get returned for it when it was called DURING STATIC
//                                  INITIALISATION of this translation unit>, `none` past the end.  This file precedes
//                                  LocaleInfo.cpp on the link line, so its initialisers run first — the situation of an
//                                  application with `static const auto g_locale = LocaleInfo::get(getenv("LANG"));`.
//                                  get() is a function of its argument and two constant tables; the property puts no
//                                  condition on WHEN it is called.
//
// What makes silent damage visible:
//  * the result object is constructed (guaranteed elision + NRVO) into storage pre-filled with 0xA5, and a large
//    stack array is filled with the same pattern before every call, so a field that `get` never writes
//    (Info::languageCode/country/countryCode have no default initialiser) shows up as a non-table pointer;
//  * no returned pointer is dereferenced before it has been classified by ADDRESS: it must be one of the pointers
//    stored in the two public tables, or lie inside this executable's image (string literals of the fallback);
//    anything else is printed as <wild>, a null pointer as <null>;
//  * out-of-bounds copies and over-reads are caught by AddressSanitizer (strict_string_checks=1 makes strcmp on an
//    unterminated buffer a report), the process exits with code 97 and the runner resumes after the failing line.
#include <tulz/LocaleInfo.h>

#include <cstdint>
#include <cstdio>
#include <cstdlib>
#include <atomic>
#include <cstring>
#include <thread>
#include <sys/wait.h>
#include <unistd.h>
#include <iostream>
#include <new>
#include <set>
#include <sstream>
#include <string>
#include <vector>

using tulz::LocaleInfo;

extern "C" char __executable_start;
extern "C" char _end;

static std::set<const char *> tablePointers;

static std::string hexOf(const char *s, size_t n) {
    static const char *d = "0123456789abcdef";
    if (n == 0) return "-";
    std::string r;
    for (size_t i = 0; i < n; ++i) {
        auto b = static_cast<unsigned char>(s[i]);
        r += d[b >> 4];
        r += d[b & 15];
    }
    return r;
}

static bool parseHex(const std::string &h, std::string &out) {
    out.clear();
    if (h == "-") return true;
    if (h.size() % 2) return false;
    auto val = [](char c) -> int {
        if (c >= '0' && c <= '9') return c - '0';
        if (c >= 'a' && c <= 'f') return c - 'a' + 10;
        if (c >= 'A' && c <= 'F') return c - 'A' + 10;
        return -1;
    };
    for (size_t i = 0; i < h.size(); i += 2) {
        int a = val(h[i]), b = val(h[i + 1]);
        if (a < 0 || b < 0) return false;
        out.push_back(static_cast<char>(a * 16 + b));
    }
    return true;
}

// classify by address first, read only then
static std::string showPtr(const char *p) {
    if (p == nullptr) return "<null>";
    bool known = tablePointers.count(p) != 0;
    bool inImage = p >= &__executable_start && p < &_end;
    if (!known && !inImage) return "<wild>";
    size_t n = 0;
    while (n < 256 && p[n] != 0) ++n;           // instrumented read: a bad in-image pointer is an ASan report
    if (n == 256) return "<unterminated>";
    return hexOf(p, n);
}

__attribute__((noinline)) static void poisonStack() {
    unsigned char pad[8192];
    memset(pad, 0xA5, sizeof(pad));
    asm volatile("" : : "r"(pad) : "memory");
}

static std::string runGetOwned(char *s);

static std::string runGet(const std::string &arg) {
    // exact-size heap copy of the argument: an over-read of the argument itself is an ASan heap-buffer-overflow
    char *s = new char[arg.size() + 1];
    memcpy(s, arg.data(), arg.size());
    s[arg.size()] = 0;
    return runGetOwned(s);
}

// get() echoes its argument on stderr when it falls back: for a multi-gigabyte argument only the tail of what is written to
// stderr is passed on (by a forked drainer, so that a sanitizer report survives the death of this process)
struct StderrTail {
    int saved = -1;
    pid_t child = -1;
    StderrTail() {
        int p[2];
        if (pipe(p) != 0) return;
        fflush(stderr);
        child = fork();
        if (child == 0) {
            close(p[1]);
            std::string tail;
            static char buf[1 << 16];
            size_t total = 0;
            ssize_t n;
            while ((n = read(p[0], buf, sizeof buf)) > 0) {
                total += static_cast<size_t>(n);
                tail.append(buf, static_cast<size_t>(n));
                if (tail.size() > 65536) tail.erase(0, tail.size() - 16384);
            }
            if (total > tail.size()) dprintf(2, "[%zu bytes of stderr dropped]\n", total - tail.size());
            if (write(2, tail.data(), tail.size()) < 0) {}
            _exit(0);
        }
        close(p[0]);
        saved = dup(2);
        dup2(p[1], 2);
        close(p[1]);
    }
    ~StderrTail() {
        if (saved < 0) return;
        fflush(stderr);
        dup2(saved, 2);
        close(saved);
        int st;
        if (child > 0) waitpid(child, &st, 0);
    }
};

static std::string runGetBig(const std::string &prefix, unsigned char fill, size_t count, const std::string &suffix) {
    StderrTail tailOnly;
    size_t n = prefix.size() + count + suffix.size();
    char *s = new char[n + 1];
    memcpy(s, prefix.data(), prefix.size());
    memset(s + prefix.size(), fill, count);
    memcpy(s + prefix.size() + count, suffix.data(), suffix.size());
    s[n] = 0;
    return runGetOwned(s);
}

static std::string runGetOwned(char *s) {

    alignas(LocaleInfo::Info) unsigned char storage[sizeof(LocaleInfo::Info)];
    memset(storage, 0xA5, sizeof(storage));
    poisonStack();
    auto *info = new (storage) LocaleInfo::Info(LocaleInfo::get(s));

    std::string out = showPtr(info->languageCode) + " | ";
    bool first = true;
    for (const char *l : info->languages) {
        if (!first) out += ",";
        out += showPtr(l);
        first = false;
    }
    out += " | " + showPtr(info->country) + " | " + showPtr(info->countryCode) + " | err:" + (info->error ? "1" : "0");
    info->~Info();
    delete[] s;
    return out;
}

// calls made before main, and before any dynamic initialiser of LocaleInfo.cpp
static const char *const staticInputs[] = {"en_GB", "hu_HU.UTF-8", "English_United States", "Polish_PL", "de_Germany.x", "zz_ZZ", "", "en",
                                           "Norwegian_NO", "pl_Poland", "fr_FR.ISO-8859-1", "en_Narnia", "zu_ZW", "Zulu_Zimbabwe.UTF-8"};
static std::vector<std::string> runStatic() {
    std::vector<std::string> r;
    for (const char *s : staticInputs) r.push_back(hexOf(s, strlen(s)) + " => " + runGet(s));
    return r;
}
static const std::vector<std::string> staticResults = runStatic();

static std::string runPar(long rounds) {
    static const char *const inputs[] = {"en_GB.UTF-8", "cu_RU", "de_DE.UTF-8", "nb_NO", "hu_HU", "li_NL.UTF-8", "zz_ZZ", "Polish_Poland"};
    constexpr int N = sizeof(inputs) / sizeof(inputs[0]);
    std::vector<std::string> expected;
    for (const char *s : inputs) expected.push_back(runGet(s));
    std::atomic<long> bad{0};
    std::atomic<int> firstBad{-1};
    std::atomic<bool> go{false};
    std::vector<std::thread> ts;
    for (int t = 0; t < 4; ++t) ts.emplace_back([&, t] {
        while (!go.load()) std::this_thread::yield();
        for (long i = 0; i < rounds; ++i) {
            int k = (t == 0) ? 0 : static_cast<int>((i + t) % N);         // one thread keeps asking for the same locale
            LocaleInfo::Info info = LocaleInfo::get(inputs[k]);
            std::string out = showPtr(info.languageCode) + " | ";
            bool first = true;
            for (const char *l : info.languages) { if (!first) out += ","; out += showPtr(l); first = false; }
            out += " | " + showPtr(info.country) + " | " + showPtr(info.countryCode) + " | err:" + (info.error ? "1" : "0");
            if (out != expected[static_cast<size_t>(k)]) { bad++; int e = -1; firstBad.compare_exchange_strong(e, k); }
        }
    });
    go.store(true);
    for (auto &t : ts) t.join();
    if (bad.load() == 0) return "ok";
    return "MISMATCH " + std::to_string(bad.load()) + " answers differ from the single-threaded answer, first for " + inputs[firstBad.load()];
}

static std::string showTable(const LocaleInfo::_info *t, int n) {
    std::string out;
    for (int i = 0; i < n; ++i) {
        if (i) out += " ";
        out += hexOf(t[i].code, strlen(t[i].code)) + ":" + hexOf(t[i].value, strlen(t[i].value));
    }
    return out;
}

int main() {
    std::ios::sync_with_stdio(false);
    for (int i = 0; i < LocaleInfo::languagesCount; ++i) {
        tablePointers.insert(LocaleInfo::languageInfo[i].code);
        tablePointers.insert(LocaleInfo::languageInfo[i].value);
    }
    for (int i = 0; i < LocaleInfo::countiesCount; ++i) {
        tablePointers.insert(LocaleInfo::countryInfo[i].code);
        tablePointers.insert(LocaleInfo::countryInfo[i].value);
    }
    std::string line;
    while (std::getline(std::cin, line)) {
        std::istringstream is(line);
        std::vector<std::string> t;
        std::string w;
        while (is >> w) t.push_back(w);
        std::string out = "bad-op";
        if (t.size() >= 2 && t[0] == "loc") {
            std::string arg;
            if (t[1] == "reset") {
                out = "ok";
            } else if (t[1] == "get" && t.size() == 3 && parseHex(t[2], arg)) {
                if (arg.find('\0') != std::string::npos) out = "bad-op";      // not a C string
                else out = runGet(arg);
            } else if (t[1] == "getbig" && t.size() == 6) {
                std::string pre, fillS, suf;
                if (parseHex(t[2], pre) && parseHex(t[3], fillS) && fillS.size() == 1 && fillS[0] != 0 && parseHex(t[5], suf)
                    && pre.find('\0') == std::string::npos && suf.find('\0') == std::string::npos)
                    out = runGetBig(pre, static_cast<unsigned char>(fillS[0]), std::strtoull(t[4].c_str(), nullptr, 10), suf);
            } else if (t[1] == "par" && t.size() == 3) {
                out = runPar(std::strtol(t[2].c_str(), nullptr, 10));
            } else if (t[1] == "static" && t.size() == 3) {
                size_t k = std::strtoul(t[2].c_str(), nullptr, 10);
                out = k < staticResults.size() ? staticResults[k] : "none";
            } else if (t[1] == "table" && t.size() == 3 && t[2] == "lang") {
                out = showTable(LocaleInfo::languageInfo, LocaleInfo::languagesCount);
            } else if (t[1] == "table" && t.size() == 3 && t[2] == "country") {
                out = showTable(LocaleInfo::countryInfo, LocaleInfo::countiesCount);
            }
        }
        std::cout << out << "\n" << std::flush;
    }
    return 0;
}
