#!/usr/bin/env python3
"""Mutation run for C19.  Usage:  TULZ_REPO=/tmp/rw_<x> python3 harness/locale/mutants.py [M3 M7 …]
TULZ_REPO must be a scratch worktree of the repo WITH repairs/F9.patch applied (never /repo itself); the file is restored
after every mutant.  Every M* must be reported (exit 1 with a concrete replay), B1 must pass.  M1 is an equivalent
mutant (the size_t cast of a negative length already fails the `<= maxPartLen` test) and is expected to pass."""
import os, subprocess, sys, time
REPO = os.environ.get("TULZ_REPO", "")
if not REPO or os.path.realpath(REPO) == "/repo":
    sys.exit("set TULZ_REPO to a scratch worktree")
VERIF = os.path.dirname(os.path.dirname(os.path.dirname(os.path.abspath(__file__))))
SRC = os.path.join(REPO, "src", "LocaleInfo.cpp")
base = open(SRC).read()

def sub(old, new, count=1):
    def f(s):
        assert old in s, old
        return s.replace(old, new, count)
    return f

MUTS = [
 ("M1 drop the `dotDelim > delim` guard", sub("if (delim && dotDelim > delim &&", "if (delim &&")),
 ("M2 bound off by one: maxPartLen = sizeof(buffer)", sub("constexpr size_t maxPartLen = sizeof(buffer) - 1;", "constexpr size_t maxPartLen = sizeof(buffer);")),
 ("M3 stop at the first code match", sub("""            if (strcmp(inf.code, buffer) == 0) {
                result.languageCode = inf.code;
                result.languages.emplace_back(inf.value);
            } else""", """            if (strcmp(inf.code, buffer) == 0) {
                result.languageCode = inf.code;
                result.languages.emplace_back(inf.value);
                break;
            } else""")),
 ("M4 table entry edited to contain '_'", sub('{"Afar", "aa"}', '{"Afar_x", "aa"}')),
 ("M5 table entry of 64 bytes", sub('{"Zulu", "zu"}', '{"' + "Z" * 64 + '", "zu"}')),
 ("M6 swap code/value in the country result", sub("""                    result.countryCode = inf.code;
                    result.country = inf.value;""", """                    result.countryCode = inf.value;
                    result.country = inf.code;""")),
 ("M7 forget the memset between the two parts", sub("        memset(buffer, 0, sizeof(buffer) / sizeof(buffer[0]));\n", "")),
 ("M8 drop the `languages.empty()` guard", sub("if (!result.languages.empty()) {", "if (true) {")),
 ("M9 drop the country length guard", sub("""        static_cast<size_t>(delim - locale) <= maxPartLen &&
        static_cast<size_t>(dotDelim - delim - 1) <= maxPartLen)""", """        static_cast<size_t>(delim - locale) <= maxPartLen)""")),
 ("M10 name match does not break", sub("""                result.languages.emplace_back(inf.value);
                break;""", """                result.languages.emplace_back(inf.value);""")),
 ("M11 prefix comparison of the language code", sub("if (strcmp(inf.code, buffer) == 0) {", "if (strncmp(inf.code, buffer, strlen(inf.code)) == 0) {")),
 ("M12 split at the LAST underscore", sub('auto delim = strstr(locale, "_");', "auto delim = strrchr(locale, '_');")),
 ("M13 language name with a '.'", sub('{"Akan", "ak"}', '{"Ak.an", "ak"}')),
 ("M14 a code that is also a name", sub('{"Akan", "ak"}', '{"aa", "ak"}')),
 ("M15 fallback language removed from the table", sub('{"English", "en"}', '{"Englisch", "en"}')),
 ("M16 duplicated country code", sub('{"Albania", "AL"}', '{"Albania", "AF"}')),
 ("M17 table uses a macro the translator cannot read", sub('{"Afar", "aa"}', '{STR("Afar"), "aa"}')),
 ("M18 country compared by code only", sub("if (strcmp(inf.code, buffer) == 0 || strcmp(inf.value, buffer) == 0) {", "if (strcmp(inf.code, buffer) == 0) {")),
 ("B1 benign table edit (must PASS)", sub('{"Afar", "aa"}', '{"Afarish", "aa"}')),
]
only = sys.argv[1:]
results = []
try:
  for name, f in MUTS:
    if only and not any(name.startswith(o) for o in only):
        continue
    open(SRC, "w").write(f(base))
    t = time.time()
    env = dict(os.environ)
    p = subprocess.run(["python3", "tools/check.py", "C19", "--tier", "quick"], cwd=VERIF, env=env, stdout=subprocess.PIPE, stderr=subprocess.STDOUT, text=True)
    out = p.stdout
    viol = [l for l in out.split("\n") if l.startswith("VIOLATION") or l.startswith("  ")]
    print("=" * 100)
    print("%s -> exit %d (%.0fs)" % (name, p.returncode, time.time() - t))
    for l in viol[:12]:
        print("   " + l[:260])
    print("   " + out.strip().split("\n")[-1])
    results.append((name, p.returncode))
    sys.stdout.flush()
finally:
    open(SRC, "w").write(base)
print("\nSUMMARY")
for n, rc in results:
    print("  %-60s %s" % (n, "caught" if rc else "PASSED"))
