// Line-protocol interpreter for the real tulz::SubjectRouter / tulz::ConcurrentSubjectRouter (single thread),
// compiled from the working tree.  Same protocol and output format as lean/Tulz/Drv/Router.lean:
//
//   rt reset                      -> ok
//   rt init <S|C> <sig>           -> ok      S = SubjectRouter, C = ConcurrentSubjectRouter;
//                                            sig = v (), i (int), s (std::string), r (const std::string&),
//                                                  is (int, std::string), t (Payload by value)
//   rt sub <h> <key> <f|p>        -> ok      f: a lambda is subscribed; p: a raw pointer to a derived observer
//   rt unsub <h>                  -> ok | !inv            (handle->unsubscribe(); std::invalid_argument -> !inv)
//   rt inval <h>                  -> ok | !gone           (observer->invalidate() through the retained pointer)
//   rt notify <pattern> <arg>     -> n=<count> {<key>:<h>=<received>}
//   rt shrink <pattern>           -> ok
//   rt exists <pattern>           -> b=0|1
//   rt depth                      -> n=<depth>
//   rt snap <n1,n2,..> <d>        -> d=<depth> e=<exists bit of every concrete key over the names, length 1..d>
//
// keys / patterns: `/=name/~regex/...`, `/` is the root key.  The harness never decides whether a handle may
// be used: the generator (tools/components/router.py) only emits `unsub`/`inval` for handles whose node still
// exists; `inval` on a destroyed observer is additionally refused here (`!gone`) through a destructor registry.
#include "rt_common.h"
#define VERIF_PAINT_NEW 1
#include "../painted.h"

// ---------------------------------------------------------------- keys
// a level name may contain the character '/' itself (level names are arbitrary strings); on the wire, where '/' separates the
// levels, it is written '!'.  The oracle and the model keep '!' (just another character), the real router gets '/'.
// wire form of a level name: `!` stands for `/`, `^` for a line feed (a name no `.` of a regex matches)
std::string decodeName(std::string n) { for (auto &c : n) { if (c == '!') c = '/'; else if (c == '^') c = '\n'; } return n; }

static RoutingKey buildKeyNow(const std::string &pat) {
    RoutingKeyBuilder b;
    std::istringstream is(pat);
    std::string tok;
    while (std::getline(is, tok, '/')) {
        if (tok.empty()) continue;
        if (tok == "*") b.all();                                       // the builder's own wildcard
        else if (tok[0] == '=') b.level(decodeName(tok.substr(1)));
        else if (tok[0] == '~') b.level(std::regex(tok.substr(1)));
        else throw std::runtime_error("bad level");
    }
    return b.build();
}

// Keys a program keeps as namespace-scope constants are built during STATIC INITIALISATION, and this translation unit is first on
// the link line — its initialisers run before those of the library's own translation units (what an application linking the
// static library gets by default).  Every pattern of up to three levels over {the builder's wildcard, =a, =b, =ab} that contains
// a wildcard is pre-built here; buildKey() hands out a copy of the pre-built key whenever the wire text names one of them.
static std::map<std::string, RoutingKey> &earlyKeys() {
    static std::map<std::string, RoutingKey> m;
    return m;
}
static const bool g_earlyKeysBuilt = [] {
    const std::vector<std::string> lv = {"*", "=a", "=b", "=ab"};
    std::vector<std::string> pats;
    for (auto &a : lv) {
        pats.push_back("/" + a);
        for (auto &b : lv) {
            pats.push_back("/" + a + "/" + b);
            for (auto &c : lv) pats.push_back("/" + a + "/" + b + "/" + c);
        }
    }
    for (auto &p : pats) if (p.find('*') != std::string::npos) earlyKeys().emplace(p, buildKeyNow(p));
    return true;
}();

RoutingKey buildKey(const std::string &pat) {
    auto it = earlyKeys().find(pat);
    if (it != earlyKeys().end()) return it->second;
    return buildKeyNow(pat);
}

std::string showKey(const std::string &pat) {
    std::string r;
    std::istringstream is(pat);
    std::string tok;
    while (std::getline(is, tok, '/')) {
        if (tok.empty()) continue;
        r += "/" + tok.substr(1);
    }
    return r.empty() ? "/" : r;
}

std::map<long, void *> g_alive;

static std::unique_ptr<ISession> makeSession(const std::string &sig, bool concurrent) {
    if (sig == "v") return makeSession_v(concurrent);
    if (sig == "i") return makeSession_i(concurrent);
    if (sig == "s") return makeSession_s(concurrent);
    if (sig == "r") return makeSession_r(concurrent);
    if (sig == "is") return makeSession_is(concurrent);
    if (sig == "t") return makeSession_t(concurrent);
    return nullptr;
}

int main() {
    std::ios::sync_with_stdio(false);
    std::unique_ptr<ISession> session;
    std::string line;
    while (std::getline(std::cin, line)) {
        verif::paintLine(line);   // painted `new` (harness/painted.h)
        std::istringstream is(line);
        std::vector<std::string> t;
        std::string w;
        while (is >> w) t.push_back(w);
        if (t.empty()) { std::cout << "\n"; continue; }
        if (t[0] != "rt") { std::cout << "bad-component\n"; continue; }
        t.erase(t.begin());
        std::string out;
        try {
            if (t.at(0) == "reset") {
                session.reset();
                g_alive.clear();
                out = "ok";
            } else if (t.at(0) == "init") {
                session = makeSession(t.at(2), t.at(1) == "C");
                out = session ? "ok" : "bad-op";
            } else if (!session) {
                out = "bad-op";
            } else {
                out = session->op(t);
            }
        } catch (const std::exception &e) {
            out = std::string("!exception ") + e.what();
        }
        std::cout << out << "\n" << std::flush;
    }
    return 0;
}
