#!/usr/bin/env python3
"""Mutation run for C06 / C13.  Usage:  TULZ_REPO=/tmp/rw_<x> python3 harness/router/mutants.py [M3 M7 ...]
TULZ_REPO must be a scratch worktree of the repo WITH repairs/F5.patch applied (never /repo itself); every file is
restored after every mutant.  Each mutant must be reported by at least one of the two checks (exit 1, VIOLATION line with
a concrete replay); B0 (no change) must pass both.  Expected: C06 catches M1-M5, M9-M13, M15, M16; C13 catches all but M3."""
import os
import subprocess
import sys
import time

REPO = os.environ.get("TULZ_REPO", "")
if not REPO or os.path.realpath(REPO) == "/repo":
    sys.exit("set TULZ_REPO to a scratch worktree")
VERIF = os.path.dirname(os.path.dirname(os.path.dirname(os.path.abspath(__file__))))
H = "include/tulz/observer/routing/SubjectRouter.h"
C = "src/observer/routing/SubjectRouter.cpp"
V = "src/observer/routing/RoutingLevelView.cpp"

ERASE = "    // erase empty children\n    std::erase_if(m_children, [](auto &p) {\n        return p.second.isEmpty();\n    });\n"
ISEMPTY = "return (m_subject == nullptr || !m_subject->hasSubscriptions()) && m_children.empty();"
REGEX_CALL = "                notifyCount += node.template notify<Args...>(nextLevel, std::forward<Args>(args)...);"


def sub(old, new):
    def f(s):
        assert old in s, old
        return s.replace(old, new, 1)
    return f


def erase_first(s):
    assert ERASE in s
    return s.replace(ERASE, "").replace("    // shrink the next level first\n", ERASE + "    // shrink the next level first\n")


MUTS = [
    ("B0 no change (must PASS)", H, lambda s: s),
    ("M1 notify descends into non-matching children", H,
     sub("    if (!levelView.matches(m_name))\n        return 0;\n\n    if (levelView.isLeaf()) {",
         "    if (levelView.isLeaf() && !levelView.matches(m_name))\n        return 0;\n\n    if (levelView.isLeaf()) {")),
    ("M2 notify treats a childless prefix node as a full match", H,
     sub("    if (levelView.isLeaf()) {\n        if (m_subject != nullptr) {", "    if (levelView.isLeaf() || m_children.empty()) {\n        if (m_subject != nullptr) {")),
    ("M3 notify counts matched nodes without a subject", H, sub("            return 1;\n        }\n    } else {", "            return 1;\n        }\n        return 1;\n    } else {")),
    ("M4 shrink erases before recursing", C, erase_first),
    ("M5 isEmpty ignores children", C, sub(ISEMPTY, "return (m_subject == nullptr || !m_subject->hasSubscriptions());")),
    ("M6 exists accepts patterns longer than the stored key", C,
     sub("    if (levelView.isLeaf())\n        return true;", "    if (levelView.isLeaf() || m_children.empty())\n        return true;")),
    ("M7 depth off by one per level", C, sub("    return 1 + maxDepth;", "    return m_children.empty() ? 1 : 2 + maxDepth;")),
    ("M8 depth follows the first child only", C, sub("        maxDepth = std::max(maxDepth, node.depth());", "    { maxDepth = std::max(maxDepth, node.depth()); break; }")),
    ("M9 isEmpty ignores subscriptions", C, sub(ISEMPTY, "return m_children.empty();")),
    ("M10 regex_search instead of regex_match", V,
     sub("std::regex_match(levelName.begin(), levelName.end(), *regex)", "std::regex_search(levelName.begin(), levelName.end(), *regex)")),
    ("M11 half of the F5 repair: the leaf still forwards", H, sub("            subject.notify(args...);", "            subject.notify(std::forward<Args>(args)...);")),
    ("M12 lookupNode replaces an existing node", C,
     sub("m_children.insert({nextLevelName, Node(nextLevelName)});", "m_children.insert_or_assign(nextLevelName, Node(nextLevelName));")),
    ("M13 shrink under a regex level visits the first child only", C, sub("                node.shrink(nextLevel);\n            }", "                node.shrink(nextLevel); break;\n            }")),
    ("M14 exists: finding the named child is enough", C,
     sub("            return it->second.exists(nextLevel);\n        return false;", "            return true;\n        return false;")),
    ("M15 shrink does not recurse through a string level", C, sub("                it->second.shrink(nextLevel);", "                (void) it;")),
    ("M16 notify under a regex level stops after the first hit", H, sub(REGEX_CALL, "            { " + REGEX_CALL.strip() + " if (notifyCount) break; }")),
]

only = sys.argv[1:]
results = []
for name, rel, f in MUTS:
    if only and not any(name.split()[0] == o for o in only):
        continue
    path = os.path.join(REPO, rel)
    base = open(path).read()
    try:
        open(path, "w").write(f(base))
        row = [name]
        for prop in ("C06", "C13"):
            t = time.time()
            p = subprocess.run([sys.executable, os.path.join(VERIF, "tools", "check.py"), prop, "--tier", "quick"],
                               cwd=VERIF, env=dict(os.environ), stdout=subprocess.PIPE, stderr=subprocess.STDOUT, text=True)
            viol = [l for l in p.stdout.split("\n") if l.startswith("VIOLATION")]
            detail = [l.strip() for l in p.stdout.split("\n") if l.startswith("  ") and "differs" in l]
            row.append("%s: exit=%d %s (%.0fs) %s" % (prop, p.returncode, "CAUGHT" if viol else "passed", time.time() - t,
                                                     (viol[0].split("replay=")[1] + " :: " + detail[0][:160]) if viol and detail else ""))
        results.append(row)
        print("\n   ".join(row), flush=True)
    finally:
        open(path, "w").write(base)
bad = [r[0] for r in results if (r[0].startswith("B0")) != all("passed" in x for x in r[1:])]
print("unexpected:", bad if bad else "none")
sys.exit(1 if bad else 0)
