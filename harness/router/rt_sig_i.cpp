#include "rt_common.h"
std::unique_ptr<ISession> makeSession_i(bool concurrent) { return makeSessionFor<int>(concurrent); }
