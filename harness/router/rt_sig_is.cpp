#include "rt_common.h"
std::unique_ptr<ISession> makeSession_is(bool concurrent) { return makeSessionFor<int, std::string>(concurrent); }
