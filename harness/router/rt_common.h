// Shared part of the router harness: payload type, argument codecs, the Session template.
// See rt_main.cpp for the protocol.  Each signature is instantiated in its own translation unit
// (rt_sig_*.cpp) so that the harness can be compiled in parallel.
#pragma once
#include <tulz/observer/routing/ConcurrentSubjectRouter.h>
#include <tulz/observer/routing/RoutingKeyBuilder.h>
#include <tulz/observer/routing/SubjectRouter.h>

#include <cstdint>
#include <iostream>
#include <map>
#include <optional>
#include <memory>
#include <regex>
#include <sstream>
#include <stdexcept>
#include <string>
#include <tuple>
#include <vector>

using namespace tulz;

// ---------------------------------------------------------------- by-value class payload
struct Payload {
    static constexpr uint32_t LIVE = 0x11fe11feu, MOVED = 0x5be115beu, DEAD = 0xdeaddeadu;
    uint32_t magic;
    long v;
    std::string text;   // long (heap) string: a stolen / dangling payload is visible to ASan and to `show`

    static std::string textOf(long v) { return "payload-" + std::to_string(v) + "-0123456789abcdefghijklmnopqrstuvwxyz"; }
    explicit Payload(long x) : magic(LIVE), v(x), text(textOf(x)) {}
    Payload(const Payload &o) : magic(o.magic), v(o.v), text(o.text) {}
    Payload(Payload &&o) noexcept : magic(o.magic), v(o.v), text(std::move(o.text)) { if (o.magic == LIVE) o.magic = MOVED; }
    Payload &operator=(const Payload &) = default;
    Payload &operator=(Payload &&o) noexcept {
        magic = o.magic; v = o.v; text = std::move(o.text);
        if (o.magic == LIVE) o.magic = MOVED;
        return *this;
    }
    ~Payload() { magic = DEAD; }
    std::string show() const {
        if (magic == MOVED) return "MOVED";
        if (magic != LIVE || text != textOf(v)) return "GARBAGE";
        return std::to_string(v);
    }
};

// ---------------------------------------------------------------- argument codecs
inline std::string showArg(int x) { return std::to_string(x); }
inline std::string showArg(const std::string &s) { return s.empty() ? std::string("EMPTY") : s; }
inline std::string showArg(const Payload &p) { return p.show(); }

inline std::string joinShown() { return "-"; }
template<typename A> static std::string joinShown(const A &a) { return showArg(a); }
template<typename A, typename B> static std::string joinShown(const A &a, const B &b) { return showArg(a) + "," + showArg(b); }

template<typename T> struct Decode;
template<> struct Decode<int> { static int get(const std::string &s) { return std::stoi(s); } };
template<> struct Decode<std::string> { static std::string get(const std::string &s) { return s; } };
template<> struct Decode<Payload> { static Payload get(const std::string &s) { return Payload(std::stol(s)); } };

// the argument token is split at ',' into as many parts as there are parameters
inline std::vector<std::string> splitArg(const std::string &tok, size_t n) {
    std::vector<std::string> parts;
    if (n == 0) return parts;
    size_t pos = 0;
    for (size_t i = 0; i + 1 < n; ++i) {
        size_t c = tok.find(',', pos);
        if (c == std::string::npos) throw std::runtime_error("bad argument token");
        parts.push_back(tok.substr(pos, c - pos));
        pos = c + 1;
    }
    parts.push_back(tok.substr(pos));
    return parts;
}

// how a stored value is handed to notify: an rvalue for a by-value parameter (Args is deduced as T),
// a const lvalue for `const T&` (Args is deduced as const T&) -- the two call forms the API documents
template<typename A, typename V> static decltype(auto) pass(V &v) {
    if constexpr (std::is_lvalue_reference_v<A>) return static_cast<A>(v);
    else return std::move(v);
}

RoutingKey buildKey(const std::string &pat);      // rt_main.cpp
std::string decodeName(std::string n);            // rt_main.cpp
std::string showKey(const std::string &pat);     // rt_main.cpp

// ---------------------------------------------------------------- sessions
struct ISession {
    virtual ~ISession() = default;
    virtual std::string op(const std::vector<std::string> &t) = 0;
};

extern std::map<long, void *> g_alive;   // h -> observer object (mode p), erased by the observer's destructor

template<typename... Args>
struct TrackedObserver : EternalObserver<Args...> {
    long h;
    TrackedObserver(typename Observer<Args...>::Func f, long h_) : EternalObserver<Args...>(std::move(f)), h(h_) { g_alive[h] = this; }
    ~TrackedObserver() override { g_alive.erase(h); }
};

template<typename R, typename... Args>
struct Session : ISession {
    R router;
    std::map<long, std::unique_ptr<USubscription>> handles;
    std::vector<std::string> log;
    // callers keep RoutingKey objects around and assign new keys to them: two calls out of three use ONE long-lived key object
    // that is copy-assigned in place (same object, same level storage, different content), the third a fresh temporary
    std::optional<RoutingKey> reused;
    unsigned keyUses = 0;
    const RoutingKey &callerKey(const RoutingKey &fresh) {
        if (++keyUses % 3 == 0) return fresh;
        if (!reused) reused.emplace(fresh); else *reused = fresh;
        return *reused;
    }

    template<size_t... I>
    size_t callNotify(const RoutingKey &key, const std::vector<std::string> &parts, std::index_sequence<I...>) {
        std::tuple<std::decay_t<Args>...> vals{Decode<std::decay_t<Args>>::get(parts[I])...};
        return router.notify(key, pass<Args>(std::get<I>(vals))...);
    }

    std::string op(const std::vector<std::string> &t) override {
        const std::string &o = t.at(0);
        if (o == "sub") {
            long h = std::stol(t.at(1));
            RoutingKey key = buildKey(t.at(2));
            std::string tag = showKey(t.at(2)) + ":" + std::to_string(h) + "=";
            auto fn = [this, tag](Args... a) { log.push_back(tag + joinShown(a...)); };
            if (t.at(3) == "p") {
                auto *obs = new TrackedObserver<Args...>(fn, h);
                handles[h] = std::make_unique<USubscription>(router.template subscribe<Args...>(key, obs));
            } else {
                handles[h] = std::make_unique<USubscription>(router.template subscribe<Args...>(key, fn));
            }
            return "ok";
        }
        if (o == "unsub") {
            auto &h = *handles.at(std::stol(t.at(1)));
            try {
                h->unsubscribe();
            } catch (const std::invalid_argument &) {
                return "!inv";
            }
            return "ok";
        }
        if (o == "inval") {
            auto it = g_alive.find(std::stol(t.at(1)));
            if (it == g_alive.end()) return "!gone";
            static_cast<TrackedObserver<Args...> *>(it->second)->invalidate();
            return "ok";
        }
        if (o == "notify") {
            RoutingKey fresh = buildKey(t.at(1));
            const RoutingKey &key = callerKey(fresh);
            log.clear();
            size_t n = callNotify(key, splitArg(t.at(2), sizeof...(Args)), std::index_sequence_for<Args...>{});
            std::string r = "n=" + std::to_string(n);
            for (auto &e : log) r += " " + e;
            return r;
        }
        if (o == "shrink") { RoutingKey fresh = buildKey(t.at(1)); router.shrink(callerKey(fresh)); return "ok"; }
        if (o == "exists") { RoutingKey fresh = buildKey(t.at(1)); return router.exists(callerKey(fresh)) ? "b=1" : "b=0"; }
        if (o == "depth") { return "n=" + std::to_string(router.depth()); }
        if (o == "snap") {
            std::vector<std::string> names;
            std::istringstream is(t.at(1));
            std::string tok;
            while (std::getline(is, tok, ',')) if (!tok.empty()) names.push_back(tok);
            long d = std::stol(t.at(2));
            std::string bits;
            std::vector<std::vector<std::string>> level{{}};
            for (long len = 1; len <= d; ++len) {
                std::vector<std::vector<std::string>> next;
                for (auto &p : level) for (auto &n : names) { auto q = p; q.push_back(n); next.push_back(q); }
                for (auto &k : next) {
                    RoutingKeyBuilder b;
                    for (auto &n : k) b.level(decodeName(n));
                    bits += router.exists(b.build()) ? "1" : "0";
                }
                level = std::move(next);
            }
            return "d=" + std::to_string(router.depth()) + " e=" + bits;
        }
        return "bad-op";
    }
};

template<typename... Args> static std::unique_ptr<ISession> makeSessionFor(bool concurrent) {
    if (concurrent) return std::make_unique<Session<ConcurrentSubjectRouter, Args...>>();
    return std::make_unique<Session<SubjectRouter, Args...>>();
}

std::unique_ptr<ISession> makeSession_v(bool concurrent);
std::unique_ptr<ISession> makeSession_i(bool concurrent);
std::unique_ptr<ISession> makeSession_s(bool concurrent);
std::unique_ptr<ISession> makeSession_r(bool concurrent);
std::unique_ptr<ISession> makeSession_is(bool concurrent);
std::unique_ptr<ISession> makeSession_t(bool concurrent);
