#include "rt_common.h"
std::unique_ptr<ISession> makeSession_s(bool concurrent) { return makeSessionFor<std::string>(concurrent); }
