#include "rt_common.h"
std::unique_ptr<ISession> makeSession_v(bool concurrent) { return makeSessionFor<>(concurrent); }
