#include "rt_common.h"
std::unique_ptr<ISession> makeSession_t(bool concurrent) { return makeSessionFor<Payload>(concurrent); }
