#include "rt_common.h"
std::unique_ptr<ISession> makeSession_r(bool concurrent) { return makeSessionFor<const std::string &>(concurrent); }
