// Shared helpers of the three ThreadSanitizer stress programs of C15 (leg S).
// Each program:  <prog> <threads> <iterations> <seed> <mix>
// runs free (REAL std::mutex / std::condition_variable / std::thread), every random choice comes from splitmix64(seed, thread id).
// A ThreadSanitizer report on tulz code is the finding; report text + program + arguments = replay.
#pragma once
#include <atomic>
#include <cstdint>
#include <cstdio>
#include <cstdlib>
#include <string>
#include <thread>
#include <vector>

namespace drf {
struct Rng {
    uint64_t s;
    explicit Rng(uint64_t seed) : s(seed) {}
    uint64_t next() {
        s += 0x9E3779B97F4A7C15ull;
        uint64_t z = s;
        z = (z ^ (z >> 30)) * 0xBF58476D1CE4E5B9ull;
        z = (z ^ (z >> 27)) * 0x94D049BB133111EBull;
        return z ^ (z >> 31);
    }
    unsigned below(unsigned n) { return (unsigned) (next() % n); }
};

struct Args {
    int threads;
    int iters;
    uint64_t seed;
    int mix;
};

inline Args parse(int argc, char **argv, int defThreads) {
    Args a {defThreads, 1000, 1, 0};
    if (argc > 1) a.threads = std::atoi(argv[1]);
    if (argc > 2) a.iters = std::atoi(argv[2]);
    if (argc > 3) a.seed = std::strtoull(argv[3], nullptr, 10);
    if (argc > 4) a.mix = std::atoi(argv[4]);
    return a;
}

// all threads leave the gate together: maximises overlap
struct Gate {
    std::atomic<int> waiting {0};
    int n;
    explicit Gate(int n) : n(n) {}
    void arrive() {
        waiting.fetch_add(1);
        while (waiting.load() < n) std::this_thread::yield();
    }
};
}
