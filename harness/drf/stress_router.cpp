// C15 leg S, program 3: tulz::ConcurrentSubjectRouter, all six operations (notify, subscribe, unsubscribe, shrink, exists,
// depth) from 4-8 threads.  Callbacks only bump an atomic counter (they never call back into the router) and observers are
// never invalidated — the programs of the C15 statement.  Every thread unsubscribes only handles it obtained itself.
//   mix 0: balanced      mix 1: notify-heavy      mix 2: subscribe/unsubscribe/shrink-heavy      mix 3: read-only ops after a
//   subscribe phase (notify/exists/depth)      mix 4: as 0 with an `int` payload on the specific keys
//   mix 5: as 0, and half of the notifies are issued from inside a callback of a SECOND, unrelated ConcurrentSubjectRouter (the
//          thread is in the middle of front.notify(), holding front's read lock, when it calls router.notify()); the callback
//          does not call back into the router it was delivered by
// OUT-OF-CONTRACT probes (never part of the check; they document what the statement excludes, see harness/drf/mutants.py probes):
//   mix 8: threads also call mute()/unmute()/isValid() through their handles (not locked by ConcurrentInvoker)
//   mix 9: some observers invalidate themselves, so Subject::notify removes them lazily — a write under the READ lock
#include "drf_common.h"

#include <tulz/observer/routing/ConcurrentSubjectRouter.h>
#include <tulz/observer/routing/RoutingKeyBuilder.h>

#include <deque>
#include <regex>

using namespace tulz;

static std::atomic<long> delivered {0};

int main(int argc, char **argv) {
    auto a = drf::parse(argc, argv, 6);
    ConcurrentSubjectRouter router;

    // keys are built once, before the threads start, and only read afterwards
    std::vector<RoutingKey> specific;
    specific.push_back(RoutingKeyBuilder {"a", "b"}.build());
    specific.push_back(RoutingKeyBuilder {"a", "c"}.build());
    specific.push_back(RoutingKeyBuilder {"a", "b", "x"}.build());
    specific.push_back(RoutingKeyBuilder {"d"}.build());
    specific.push_back(RoutingKeyBuilder {"d", "e", "f"}.build());
    std::vector<RoutingKey> pattern;
    pattern.push_back(RoutingKeyBuilder {}.level("a").all().build());
    pattern.push_back(RoutingKeyBuilder {}.all().build());
    pattern.push_back(RoutingKeyBuilder {}.level("d").level(std::regex("e|g")).all().build());
    const bool payload = a.mix == 4;
    // mix 5: the bridge.  One eternal observer of `front` forwards to `router`; which key it forwards is a per-thread value.
    ConcurrentSubjectRouter front;
    static thread_local const RoutingKey *bridged = nullptr;
    static thread_local long bridgedCount = 0;
    auto frontKey = RoutingKeyBuilder {"f"}.build();
    auto bridge = front.subscribe(frontKey, [&router] { if (bridged) bridgedCount += (long) router.notify(*bridged); });

    drf::Gate gate(a.threads);
    std::vector<std::thread> ts;
    for (int t = 0; t < a.threads; ++t) {
        ts.emplace_back([&, t] {
            drf::Rng rng(a.seed * 1000003ull + (uint64_t) t);
            std::deque<USubscription> mine;
            long sink = 0;
            auto subscribe = [&] {
                auto &key = specific[rng.below((unsigned) specific.size())];
                if (payload) mine.push_back(router.subscribe<int>(key, [](int v) { delivered.fetch_add(v, std::memory_order_relaxed); }));
                else if (a.mix == 9 && rng.below(2) == 0) mine.push_back(router.subscribe(key, [](Observer<>::SelfView self) {
                    if (delivered.fetch_add(1, std::memory_order_relaxed) % 3 == 0) self->invalidate();
                }));
                else mine.push_back(router.subscribe(key, [] { delivered.fetch_add(1, std::memory_order_relaxed); }));
            };
            if (a.mix == 3) { subscribe(); subscribe(); }
            gate.arrive();
            for (int i = 0; i < a.iters; ++i) {
                unsigned r = rng.below(100);
                unsigned pNotify = a.mix == 1 ? 70 : a.mix == 2 ? 15 : a.mix == 3 ? 60 : 35;
                unsigned pSub = a.mix == 1 ? 8 : a.mix == 2 ? 30 : a.mix == 3 ? 0 : 18;
                unsigned pUnsub = a.mix == 1 ? 6 : a.mix == 2 ? 25 : a.mix == 3 ? 0 : 15;
                unsigned pShrink = a.mix == 1 ? 4 : a.mix == 2 ? 20 : a.mix == 3 ? 0 : 10;
                if (a.mix == 8 && !mine.empty() && rng.below(4) == 0) {
                    auto &h = mine[rng.below((unsigned) mine.size())];
                    switch (rng.below(3)) {
                        case 0: h->mute(); break;
                        case 1: h->unmute(); break;
                        default: sink += h->isValid(); break;
                    }
                } else if (r < pNotify) {
                    if (a.mix == 5 && rng.below(2) == 0) {
                        bridged = rng.below(3) == 0 ? &pattern[rng.below((unsigned) pattern.size())] : &specific[rng.below((unsigned) specific.size())];
                        front.notify(frontKey);
                        bridged = nullptr;
                        sink += bridgedCount;
                    } else if (payload) sink += (long) router.notify(specific[rng.below((unsigned) specific.size())], 1);
                    else if (rng.below(3) == 0) sink += (long) router.notify(pattern[rng.below((unsigned) pattern.size())]);
                    else sink += (long) router.notify(specific[rng.below((unsigned) specific.size())]);
                } else if (r < pNotify + pSub) {
                    if (mine.size() < 16) subscribe();
                } else if (r < pNotify + pSub + pUnsub) {
                    if (!mine.empty()) {
                        size_t k = rng.below((unsigned) mine.size());
                        if (a.mix != 9) mine[k]->unsubscribe();
                        mine.erase(mine.begin() + (long) k);
                    }
                } else if (r < pNotify + pSub + pUnsub + pShrink) {
                    if (rng.below(2)) router.shrink(pattern[rng.below((unsigned) pattern.size())]);
                    else router.shrink(specific[rng.below((unsigned) specific.size())]);
                } else if (rng.below(2)) {
                    sink += router.exists(rng.below(2) ? specific[rng.below((unsigned) specific.size())]
                                                        : pattern[rng.below((unsigned) pattern.size())]);
                } else {
                    sink += (long) router.depth();
                }
            }
            while (!mine.empty()) {
                if (a.mix != 9) mine.back()->unsubscribe();
                mine.pop_back();
            }
            delivered.fetch_add(sink & 1, std::memory_order_relaxed);
        });
    }
    for (auto &t : ts) t.join();
    std::printf("done router threads=%d iters=%d seed=%llu mix=%d delivered=%ld depth=%zu\n", a.threads, a.iters,
                (unsigned long long) a.seed, a.mix, delivered.load(), router.depth());
    return 0;
}
