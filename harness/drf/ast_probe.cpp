// Probe translation unit for tools/translators/locksets.py (never linked, never run).
// It pulls the analysed sources into ONE translation unit and instantiates every template the
// access table has to cover with one representative argument list (`int`), so that clang's AST
// contains fully resolved bodies.  A template of the analysed classes that this probe does not
// instantiate shows up in the table as an `unknown` entry (fail closed).
#include <tulz/threading/rwp/Resource.h>
#include <tulz/threading/rwp/ReadLock.h>
#include <tulz/threading/rwp/WriteLock.h>
#include <tulz/threading/Thread.h>
#include <tulz/threading/ThreadPool.h>
#include <tulz/observer/routing/ConcurrentSubjectRouter.h>
#include <tulz/observer/routing/RoutingKeyBuilder.h>

#include <threading/rwp/Resource.cpp>
#include <threading/Thread.cpp>
#include <threading/ThreadPool.cpp>
#include <observer/routing/SubjectRouter.cpp>
#include <observer/routing/RoutingLevelView.cpp>
#include <observer/routing/RoutingKey.cpp>

namespace drf_probe {
inline void task(int) {}

inline void probe() {
    int one = 1;

    tulz::Thread thread;
    thread.start(task, one);
    thread.join();
    tulz::Thread thread2(task, one);
    thread2.join();
    tulz::Thread::sleep(1L);

    tulz::ThreadPool pool;
    pool.start(task, one);
    pool.stop();

    tulz::ConcurrentSubjectRouter router;
    auto key = tulz::RoutingKeyBuilder{"a", "b"}.build();
    tulz::USubscription subscription = router.subscribe<int>(key, [](int) {});
    router.notify(key, 1);
    router.shrink(key);
    (void) router.exists(key);
    (void) router.depth();
    subscription->unsubscribe();
}
}
