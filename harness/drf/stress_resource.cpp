// C15 leg S, program 1: rwp::Resource with its guards and its raw interface from many threads.
//   mix 0: 80% readers / 20% writers through ReadLock / WriteLock
//   mix 1: 50/50 through the raw lockRead/unlockRead/lockWrite/unlockWrite calls
//   mix 2: writers only (guards)        mix 3: readers only (guards)        mix 4: 95/5, two resources
// The payload is plain data of the harness that is only touched inside the lock: a report on it means the lock does not
// exclude (C01); a report with tulz frames means Resource's own fields race (C15).
#include "drf_common.h"

#include <tulz/threading/rwp/Resource.h>
#include <tulz/threading/rwp/ReadLock.h>
#include <tulz/threading/rwp/WriteLock.h>

using namespace tulz::rwp;

struct Shared {
    Resource resource;
    long payload[8] {};
};

static void section(Shared &s, bool write, bool raw, drf::Rng &rng, long &sink) {
    if (raw) {
        if (write) {
            s.resource.lockWrite();
            for (auto &p : s.payload) ++p;
            s.resource.unlockWrite();
        } else {
            s.resource.lockRead();
            for (auto p : s.payload) sink += p;
            s.resource.unlockRead();
        }
    } else if (write) {
        WriteLock lock {s.resource};
        for (auto &p : s.payload) ++p;
        if (rng.below(8) == 0) std::this_thread::yield();
    } else {
        ReadLock lock {s.resource};
        for (auto p : s.payload) sink += p;
        if (rng.below(8) == 0) std::this_thread::yield();
    }
}

int main(int argc, char **argv) {
    auto a = drf::parse(argc, argv, 6);
    Shared shared[2];
    drf::Gate gate(a.threads);
    std::atomic<long> total {0};
    std::vector<std::thread> ts;
    for (int t = 0; t < a.threads; ++t) {
        ts.emplace_back([&, t] {
            drf::Rng rng(a.seed * 1000003ull + (uint64_t) t);
            long sink = 0;
            gate.arrive();
            for (int i = 0; i < a.iters; ++i) {
                bool write, raw = false;
                int which = 0;
                switch (a.mix) {
                    case 1: write = rng.below(2) == 0; raw = true; break;
                    case 2: write = true; break;
                    case 3: write = false; break;
                    case 4: write = rng.below(20) == 0; which = (int) rng.below(2); break;
                    default: write = rng.below(5) == 0; break;
                }
                if (a.mix == 4 && !write && rng.below(3) == 0) {
                    // a read section of resource 1 nested inside a read section of the unrelated resource 0 (always in this
                    // order, writers never hold two locks: no cycle)
                    ReadLock outer {shared[0].resource};
                    for (auto p : shared[0].payload) sink += p;
                    section(shared[1], false, rng.below(2) == 0, rng, sink);
                } else
                section(shared[which], write, raw, rng, sink);
            }
            total += sink;
        });
    }
    for (auto &t : ts) t.join();
    std::printf("done resource threads=%d iters=%d seed=%llu mix=%d payload=%ld\n", a.threads, a.iters,
                (unsigned long long) a.seed, a.mix, shared[0].payload[0] + shared[1].payload[0]);
    return 0;
}
