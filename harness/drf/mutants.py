#!/usr/bin/env python3
"""Mutation run for C15.  Usage:  TULZ_REPO=/tmp/rw_<x> python3 harness/drf/mutants.py [M3 M7 …]
TULZ_REPO must be a scratch worktree of the repo WITH the repairs applied (atomic flags, F6 stop() hunk, F10 capture) — never
/repo itself.  Every touched file is restored after every mutant.  For each mutant the script reports which leg caught it:
  P = the generated obligation C15_table_follows broke (translator + discipline; names the offending rows)
  S = ThreadSanitizer produced a concrete data-race report within the quick budget
Every M* must be caught by at least P; B* mutants are benign for C15 and must pass."""
import os
import re
import subprocess
import sys
import time

REPO = os.environ.get("TULZ_REPO", "")
if not REPO or os.path.realpath(REPO) == "/repo":
    sys.exit("set TULZ_REPO to a scratch worktree")
VERIF = os.path.dirname(os.path.dirname(os.path.dirname(os.path.abspath(__file__))))

POOL_CPP = "src/threading/ThreadPool.cpp"
POOL_H = "include/tulz/threading/ThreadPool.h"
THREAD_H = "include/tulz/threading/Thread.h"
RES_CPP = "src/threading/rwp/Resource.cpp"
ROUTER_H = "include/tulz/observer/routing/ConcurrentSubjectRouter.h"
SUBJECT_H = "include/tulz/observer/Subject.h"


def sub(path, old, new):
    return (path, old, new)


MUTS = [
    ("M1 drop the scoped_lock in ThreadPool::clear()", [sub(POOL_CPP, """void ThreadPool::clear() {
    std::scoped_lock locker(m_queueMutex);
""", """void ThreadPool::clear() {
""")]),
    ("M2 a getter reads m_queue outside the lock", [sub(POOL_CPP, """int ThreadPool::getThreadCount() const {
    return m_pool.size();""", """int ThreadPool::getThreadCount() const {
    return m_pool.size() + (m_queue.empty() ? 0 : 0);""")]),
    ("M3 m_isRunning is a plain bool again", [sub(POOL_H, "std::atomic<bool> m_isRunning;", "bool m_isRunning;")]),
    ("M4 m_isFinished is a plain bool again", [sub(THREAD_H, "std::atomic<bool> m_isFinished = false;", "bool m_isFinished = false;")]),
    ("M5 ReadLock where subscribe needs a WriteLock", [sub(ROUTER_H, """        rwp::WriteLock lock {m_resource};
        return Subscription(""", """        rwp::ReadLock lock {m_resource};
        return Subscription(""")]),
    ("M6 ReadLock where shrink needs a WriteLock", [sub(ROUTER_H, """        rwp::WriteLock lock {m_resource};
        m_router.shrink(key);""", """        rwp::ReadLock lock {m_resource};
        m_router.shrink(key);""")]),
    ("M7 shrink's guard constructed as a temporary", [sub(ROUTER_H, """        rwp::WriteLock lock {m_resource};
        m_router.shrink(key);""", """        rwp::WriteLock {m_resource};
        m_router.shrink(key);""")]),
    ("M8 Resource::unlock releases the mutex before select()", [sub(RES_CPP, """        select();
        m_mutex.unlock();
        m_cv.notify_all();""", """        m_mutex.unlock();
        select();
        m_cv.notify_all();""")]),
    ("M9 ConcurrentInvoker::unsubscribe without the WriteLock", [sub(ROUTER_H, """        rwp::WriteLock lock {m_resource};
        DefaultInvoker<Args...>::unsubscribe();""", """        DefaultInvoker<Args...>::unsubscribe();""")]),
    ("M10 depth() without the ReadLock", [sub(ROUTER_H, """        rwp::ReadLock lock {m_resource};
        return m_router.depth();""", """        return m_router.depth();""")]),
    ("M11 the worker looks at the owner's m_pool", [sub(POOL_CPP, """            if (queue.empty() && isExpired)
                return;""", """            if (queue.empty() && isExpired && !m_threadPool->m_pool.empty())
                return;""")]),
    ("M12 the owner touches a worker's m_lastActiveTime in update()", [sub(POOL_CPP, """            if (thread->isFinished()) {
                thread->join();""", """            static_cast<PooledThread*>(thread)->setLastActiveTime(0);

            if (thread->isFinished()) {
                thread->join();""")]),
    ("M13 clear() uses a deferred unique_lock it never locks (construct the translator does not model)", [sub(POOL_CPP, """void ThreadPool::clear() {
    std::scoped_lock locker(m_queueMutex);
""", """void ThreadPool::clear() {
    std::unique_lock locker(m_queueMutex, std::defer_lock);
""")]),
    ("M14 a new plain member counted in start() without a rule in the discipline", [
        sub(POOL_H, "    int m_expiryTimeout;\n", "    int m_expiryTimeout;\n    int m_started = 0;\n"),
        sub(POOL_CPP, """    m_condition.notify_one();
}""", """    ++m_started;
    m_condition.notify_one();
}""")]),
    ("M15 the worker takes the task after leaving the critical section", [sub(POOL_CPP, """            auto qFront = queue.begin();
            runnable = *qFront;
            queue.erase(qFront);
        }
""", """        }
        {
            auto &queue = m_threadPool->m_queue;
            auto qFront = queue.begin();
            runnable = *qFront;
            queue.erase(qFront);
        }
""")]),
    ("M16 setExpiryTimeout is also called by update() (write of an immutable-after-publication member outside the contract)", [sub(POOL_CPP, """    m_condition.notify_all();

    {
        std::scoped_lock locker(m_poolMutex);

        auto it = m_pool.begin();""", """    m_condition.notify_all();
    m_expiryTimeout = m_expiryTimeout + 0;

    {
        std::scoped_lock locker(m_poolMutex);

        auto it = m_pool.begin();""")]),
    ("M17 Resource::lock drops the lock around enqueue (unique_lock::unlock / lock)", [sub(RES_CPP, """        enqueue(opType);
""", """        lock.unlock();
        enqueue(opType);
        lock.lock();
""")]),
    ("M18 Subject's notify depth is a plain counter (the draft F4 repair): notify writes it under the READ lock", [sub(
        SUBJECT_H, "std::atomic<size_t> value {0};", "size_t value {0};")]),
    ("B1 benign: stop() writes the (atomic) flag outside m_queueMutex again (C08's business, no data race)", [sub(POOL_CPP, """    {
        // workers evaluate the flag under this mutex; without it
        // the notification below could be missed
        std::scoped_lock locker(m_queueMutex);
        m_isRunning = false;
    }
""", """    m_isRunning = false;
""")]),
    ("B2 benign: a second read of m_queue inside the critical section of clear()", [sub(POOL_CPP, """    m_queue.clear();
}""", """    if (!m_queue.empty())
        m_queue.clear();
}""")]),
]


def probes():
    """OUT-OF-CONTRACT probes: uses of the components that the C15 statement excludes.  Each is expected to race; the reports
    document why the exclusion (assumption A4) is needed.  Not part of the check."""
    sys.path.insert(0, os.path.join(VERIF, "tools"))
    import components.drf as drf
    bins = drf.build_all()
    for name, threads, iters, seed, mix, what in [
            ("pool", 4, 3000, 7, 9, "ThreadPool setters called while workers are alive (contract: only on a pool without workers)"),
            ("router", 6, 3000, 7, 8, "mute()/unmute()/isValid() through subscription handles (not among the six operations; ConcurrentInvoker locks only unsubscribe)"),
            ("router", 6, 3000, 7, 9, "self-invalidating observers: Subject::notify removes them lazily = WRITE under the router's READ lock")]:
        b = bins[name][0]
        if b is None:
            print(name, "does not build:", bins[name][1][-500:])
            continue
        d = drf.run_one(b, name, threads, iters, seed, mix, 60)
        reps = [r for r in drf.parse_reports(d["stderr"]) if "data race" in r["kind"] and r["tulz_frames"]]
        print("=" * 110)
        print("PROBE %s mix %d: %s" % (name, mix, what))
        print("   %s %s -> rc=%s hung=%s, %d data-race reports with tulz frames" % (name, " ".join(d["argv"]), d["rc"], d["hung"], len(reps)))
        seen = set()
        for r in reps:
            k = tuple(r["tops"])
            if k in seen:
                continue
            seen.add(k)
            print("   race between", " and ".join(r["tops"]))
        if reps:
            print("   first report:\n      " + reps[0]["text"][:1800].replace("\n", "\n      "))


def main():
    if sys.argv[1:] == ["probes"]:
        return probes()
    only = sys.argv[1:]
    results = []
    for name, edits in MUTS:
        if only and not any(name.split()[0] == o for o in only):
            continue
        saved = {}
        try:
            for path, old, new in edits:
                full = os.path.join(REPO, path)
                if path not in saved:
                    saved[path] = open(full).read()
                cur = open(full).read()
                if old not in cur:
                    raise SystemExit("%s: pattern not found in %s (is the scratch tree repaired?)\n%s" % (name, path, old))
                open(full, "w").write(cur.replace(old, new, 1))
            t = time.time()
            p = subprocess.run(["python3", "tools/check.py", "C15", "--tier", "quick"], cwd=VERIF, env=dict(os.environ),
                               stdout=subprocess.PIPE, stderr=subprocess.STDOUT, text=True)
            out = p.stdout
            leg_p = "C15_table_follows is broken" in out or "translator failed" in out or "does not build" in out
            leg_s = bool(re.search(r"^\s+ThreadSanitizer: data race", out, re.M))
            print("=" * 110)
            print("%s -> exit %d (%.0fs)  caught by: %s" % (name, p.returncode, time.time() - t,
                                                           "+".join(x for x, y in (("P", leg_p), ("S", leg_s)) if y) or "-"))
            for l in out.split("\n"):
                if l.startswith("VIOLATION") or l.startswith("  "):
                    print("   " + l[:420])
            print("   " + out.strip().split("\n")[-1])
            results.append((name, p.returncode, leg_p, leg_s))
            sys.stdout.flush()
        finally:
            for path, text in saved.items():
                open(os.path.join(REPO, path), "w").write(text)
    print("\nSUMMARY")
    for n, rc, lp, ls in results:
        print("  %-110s %s" % (n[:110], ("caught by " + "+".join(x for x, y in (("P", lp), ("S", ls)) if y)) if rc else "PASSED"))


if __name__ == "__main__":
    main()
