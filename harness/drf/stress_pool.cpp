// C15 leg S, program 2: tulz::ThreadPool driven by ONE owner thread (this one): start / clear / update / stop, the getters,
// short tasks, workers that expire (expiry timeout of a few milliseconds) and are reaped by update().
// `threads` = maxThreadCount.  The setters are called only while the pool has no worker (intended-use contract).
//   mix 0: balanced      mix 1: start-heavy, no stop      mix 2: stop/start cycles      mix 3: expiry-heavy (sleeps)
// OUT-OF-CONTRACT probe (never part of the check, see harness/drf/mutants.py probes):
//   mix 9: as 0, but setExpiryTimeout / setMaxThreadCount are also called while workers are alive
#include "drf_common.h"

#include <tulz/threading/ThreadPool.h>
#include <tulz/threading/Thread.h>

#include <chrono>

static std::atomic<long> executed {0};

static void task(int spin) {
    volatile int x = 0;
    for (int i = 0; i < spin; ++i) x = x + i;
    executed.fetch_add(1, std::memory_order_relaxed);
}

struct Job : tulz::Runnable {
    void run() override { executed.fetch_add(1, std::memory_order_relaxed); }
};

int main(int argc, char **argv) {
    auto a = drf::parse(argc, argv, 4);
    drf::Rng rng(a.seed * 7919ull + 17);
    long observed = 0;
    {
        tulz::ThreadPool pool;
        pool.setMaxThreadCount(a.threads);      // no worker exists yet
        pool.setExpiryTimeout(a.mix == 3 ? 1 : 3);
        for (int i = 0; i < a.iters; ++i) {
            unsigned r = rng.below(100);
            unsigned startP = a.mix == 1 ? 70 : a.mix == 2 ? 35 : 45;
            unsigned stopP = a.mix == 1 ? 0 : a.mix == 2 ? 12 : 3;
            if (a.mix == 9 && rng.below(10) == 0) {
                pool.setExpiryTimeout(1 + (int) rng.below(4));
                pool.setMaxThreadCount(1 + (int) rng.below((unsigned) a.threads));
            } else if (r < startP) {
                if (rng.below(2)) pool.start(task, 50 + (int) rng.below(200));
                else pool.start(new Job());
            } else if (r < startP + stopP) {
                pool.stop();
                // the pool has no worker now: the contract allows the setters
                pool.setExpiryTimeout(1 + (int) rng.below(4));
                pool.setMaxThreadCount(1 + (int) rng.below((unsigned) a.threads));
            } else if (r < startP + stopP + 15) {
                pool.update();
            } else if (r < startP + stopP + 20) {
                pool.clear();
            } else if (r < startP + stopP + 40) {
                observed += pool.getActiveThreadCount() + pool.getThreadCount() + pool.isRunning() +
                            pool.getExpiryTimeout() + pool.getMaxThreadCount();
            } else if (r < startP + stopP + (a.mix == 3 ? 55u : 43u)) {
                std::this_thread::sleep_for(std::chrono::milliseconds(1 + rng.below(4)));   // let workers expire
            } else {
                std::this_thread::yield();
            }
        }
        pool.stop();
    }
    std::printf("done pool threads=%d iters=%d seed=%llu mix=%d executed=%ld observed=%ld\n", a.threads, a.iters,
                (unsigned long long) a.seed, a.mix, executed.load(), observed);
    return 0;
}
