// Token remap (DESIGN.md 5.3): include every standard header first, then redirect the spellings
// `std::mutex`, `std::condition_variable`, `std::thread` used by the tulz sources to the scheduler-aware
// replacements, and open private members to the harness.  Used as `-include harness/sched/remap.h`.
#pragma once
#include <bits/stdc++.h>
#include "sched.h"
namespace std {
using vmutex = ::verif::Mutex;
using vcondition_variable = ::verif::CondVar;
using vthread = ::verif::Thread;
}
#define mutex vmutex
#define condition_variable vcondition_variable
#define thread vthread
#define private public
#define protected public
