// Token remap (DESIGN.md 5.3): include every standard header first, then redirect the spellings
// `std::mutex`, `std::condition_variable`, `std::thread` used by the tulz sources to the scheduler-aware
// replacements, and open private members to the harness.  Used as `-include harness/sched/remap.h`.
#pragma once
#include <bits/stdc++.h>
#include "sched.h"
namespace verif {
// std::counting_semaphore / std::binary_semaphore on top of the scheduler-aware mutex and condition variable: acquire and
// release are scheduling points, and WHICH blocked acquirer gets a released permit is a scheduling choice (notify_one's pick)
template<std::ptrdiff_t Max = PTRDIFF_MAX> class Semaphore {
    Mutex m;
    CondVar cv;
    std::ptrdiff_t c;
public:
    explicit Semaphore(std::ptrdiff_t desired) : c(desired) {}
    Semaphore(const Semaphore &) = delete;
    static constexpr std::ptrdiff_t max() noexcept { return Max; }
    void release(std::ptrdiff_t n = 1) {
        { std::lock_guard<Mutex> l(m); c += n; }
        for (std::ptrdiff_t i = 0; i < n; ++i) cv.notify_one();
    }
    void acquire() { std::unique_lock<Mutex> l(m); cv.wait(l, [&] { return c > 0; }); --c; }
    bool try_acquire() { std::lock_guard<Mutex> l(m); if (c > 0) { --c; return true; } return false; }
};
}
namespace std {
using vmutex = ::verif::Mutex;
using vcondition_variable = ::verif::CondVar;
using vthread = ::verif::Thread;
template<std::ptrdiff_t Max = PTRDIFF_MAX> using vcounting_semaphore = ::verif::Semaphore<Max>;
using vbinary_semaphore = ::verif::Semaphore<1>;
}
#define counting_semaphore vcounting_semaphore
#define binary_semaphore vbinary_semaphore
#define mutex vmutex
#define condition_variable vcondition_variable
#define thread vthread
#define private public
#define protected public
