// Controlled scheduler for the threaded tulz components (DESIGN.md 5.3).
//
// Every managed thread is a real thread, but exactly one runs at a time.  Control changes hands only at
// *scheduling points*: before a mutex acquisition, at the entry of cv.wait (the predicate was evaluated, the
// thread has not blocked yet), after a wake-up, before a notification, after a thread creation, before a join
// and at explicit verif::yield() calls.  At each point the scheduler picks the next thread among the enabled
// ones, either from an explicit script (replay / DFS prefix) or from a seeded PRNG.  It knows which threads are
// enabled, reports a deadlock when unfinished threads exist and none is enabled, and prints one line per
// observable event on stdout (line buffered, so a crash keeps the log).
#pragma once
#include <bits/stdc++.h>
#include <unistd.h>

namespace verif {
struct Sched {
    enum St { RUN, BLK_MUTEX, PARKED, JOINING, BLK_PRED, FIN };
    struct T { St st = RUN; const void *on = nullptr; int joining = -1; std::function<bool()> pred; bool timed = false; bool woken = false; };
    std::mutex G;
    std::condition_variable cv;
    std::vector<T> ts;
    int cur = 0;
    bool active = false;
    // chooser
    std::vector<int> script;
    size_t scriptPos = 0;
    bool randomMode = false;
    bool sticky = false;
    bool diverged = false;
    uint64_t rng = 1;
    bool logPoints = false;
    long points = 0;
    std::atomic<long> progress{0};
    // stable small ids for mutexes / condition variables (order of first use)
    std::map<const void *, int> objIds;
    static Sched &I() { static Sched s; return s; }
    static thread_local int me;

    uint64_t next() {
        rng += 0x9E3779B97F4A7C15ull; uint64_t z = rng;
        z = (z ^ (z >> 30)) * 0xBF58476D1CE4E5B9ull; z = (z ^ (z >> 27)) * 0x94D049BB133111EBull; return z ^ (z >> 31);
    }
    int objId(const void *p) { auto it = objIds.find(p); if (it != objIds.end()) return it->second; int n = (int) objIds.size(); objIds[p] = n; return n; }

    void log(const std::string &s) { std::fputs(s.c_str(), stdout); std::fputc('\n', stdout); }

    void begin(bool random, uint64_t seed, std::vector<int> sc, bool logPts) {
        std::unique_lock<std::mutex> lk(G);
        ts.clear(); ts.push_back(T{}); cur = 0; me = 0; active = true;
        script = std::move(sc); scriptPos = 0; randomMode = random; sticky = random && seed >= (1ull << 62); rng = seed; diverged = false; logPoints = logPts; points = 0;
        objIds.clear();
        failSpawns = 0;
    }
    // fault injection: the next `failSpawns` thread creations fail the way std::thread does when the system refuses a thread
    // (std::system_error, resource_unavailable_try_again); no thread is created and nothing is registered
    int failSpawns = 0;
    // returns true when every managed thread except the caller (thread 0) has finished
    void end() { std::unique_lock<std::mutex> lk(G); active = false; }

    bool enabled(int i) {
        T &t = ts[i];
        if (t.st == RUN) return true;
        if (t.st == PARKED && t.timed) return true;        // a timed wait may time out at any moment
        if (t.st == BLK_PRED) return t.pred && t.pred();
        return false;
    }
    std::vector<int> enabledSet() { std::vector<int> r; for (int i = 0; i < (int) ts.size(); i++) if (enabled(i)) r.push_back(i); return r; }

    int choose(const std::vector<int> &r, const char *tag) {
        int n = -1;
        if (scriptPos < script.size()) {
            int want = script[scriptPos++];
            if (std::find(r.begin(), r.end(), want) != r.end()) n = want; else diverged = true;
        }
        if (n < 0) {
            bool meOk = std::find(r.begin(), r.end(), me) != r.end();
            if (randomMode) {
                // mild bias towards continuing the running thread keeps runs short without excluding any schedule
                // (seeds >= 2^62 select the STICKY variant: the running thread continues with probability 127/128, which gives
                //  the long uninterrupted stretches a polling loop needs before it gives up — time does not exist here)
                if (meOk && (sticky ? next() % 128 != 0 : next() % 3 == 0)) n = me; else n = r[next() % r.size()];
            } else n = meOk ? me : r[0];
        }
        if (logPoints) { std::string s = std::string(tag) + " " + std::to_string(n) + " /"; for (int x : r) s += " " + std::to_string(x); log(s); }
        return n;
    }

    [[noreturn]] void deadlock() {
        std::string s = "deadlock";
        for (int i = 0; i < (int) ts.size(); i++) {
            const char *n[] = {"run", "mutex", "parked", "joining", "pred", "fin"};
            s += " " + std::to_string(i) + ":" + n[ts[i].st];
        }
        log(s); log("end deadlock"); std::fflush(stdout); _exit(3);
    }

    // caller holds G. Pick an enabled thread (possibly me) and hand over; returns when it is my turn again.
    void switch_locked(std::unique_lock<std::mutex> &lk) {
        ++points; ++progress;
        std::vector<int> r = enabledSet();
        if (r.empty()) deadlock();
        int n = choose(r, "pt");
        if (ts[n].st == BLK_PRED) { ts[n].st = RUN; ts[n].pred = nullptr; }
        if (ts[n].st == PARKED && ts[n].timed) { ts[n].st = RUN; ts[n].woken = false; log("timeout " + std::to_string(n)); }
        cur = n; cv.notify_all();
        cv.wait(lk, [&] { return cur == me; });
    }
    void point() { if (!active) return; std::unique_lock<std::mutex> lk(G); switch_locked(lk); }
    int spawn_register() { ts.push_back(T{}); return (int) ts.size() - 1; }
};
inline thread_local int Sched::me = 0;

inline void ev(const std::string &s) { auto &S = Sched::I(); std::unique_lock<std::mutex> lk(S.G); S.log(s); }
inline int self() { return Sched::me; }
inline void yield() { Sched::I().point(); }
// block until pred() holds (evaluated by the scheduler while everybody else is stopped)
inline void await(std::function<bool()> pred) {
    auto &s = Sched::I(); if (!s.active) return;
    std::unique_lock<std::mutex> lk(s.G);
    s.ts[Sched::me].st = Sched::BLK_PRED; s.ts[Sched::me].pred = std::move(pred);
    s.switch_locked(lk);
}

inline thread_local bool tl_quiet_unlock = false;

struct Mutex {
    int owner = -1;
    Mutex() = default; Mutex(const Mutex &) = delete; Mutex &operator=(const Mutex &) = delete;
    void lock() {
        auto &s = Sched::I();
        if (!s.active) { owner = Sched::me; return; }
        std::unique_lock<std::mutex> lk(s.G);
        s.switch_locked(lk);
        while (owner != -1) { s.ts[Sched::me].st = Sched::BLK_MUTEX; s.ts[Sched::me].on = this; s.switch_locked(lk); }
        owner = Sched::me;
        s.log("lock " + std::to_string(Sched::me) + " m" + std::to_string(s.objId(this)));
    }
    void unlock() {
        auto &s = Sched::I();
        if (!s.active) { owner = -1; return; }
        std::unique_lock<std::mutex> lk(s.G);
        owner = -1;
        for (auto &t : s.ts) if (t.st == Sched::BLK_MUTEX && t.on == this) t.st = Sched::RUN;
        if (!tl_quiet_unlock) s.log("unlock " + std::to_string(Sched::me) + " m" + std::to_string(s.objId(this)));
    }
    bool try_lock() {
        auto &s = Sched::I();
        if (!s.active) { if (owner != -1) return false; owner = Sched::me; return true; }
        std::unique_lock<std::mutex> lk(s.G);
        s.switch_locked(lk);
        if (owner != -1) return false;
        owner = Sched::me; s.log("lock " + std::to_string(Sched::me) + " m" + std::to_string(s.objId(this))); return true;
    }
};

struct CondVar {
    CondVar() = default; CondVar(const CondVar &) = delete; CondVar &operator=(const CondVar &) = delete;
    template<class L> void wait(L &l) {
        auto &s = Sched::I();
        if (!s.active) return;
        // scheduling point: the predicate has been evaluated, the thread has not blocked yet
        { std::unique_lock<std::mutex> lk(s.G); s.switch_locked(lk); }
        // atomic release-and-block (no scheduling point in between)
        tl_quiet_unlock = true; l.unlock(); tl_quiet_unlock = false;
        {
            std::unique_lock<std::mutex> lk(s.G);
            s.ts[Sched::me].st = Sched::PARKED; s.ts[Sched::me].on = this;
            s.log("park " + std::to_string(Sched::me) + " c" + std::to_string(s.objId(this)));
            s.switch_locked(lk);
        }
        l.lock();   // the woken thread re-acquires the mutex (a scheduling point of its own)
    }
    template<class L, class P> void wait(L &l, P p) { while (!p()) wait(l); }
    // timed waits: the timeout is a scheduling choice (it may fire at any moment while the thread is parked)
    template<class L, class Rep, class Period> std::cv_status wait_for(L &l, const std::chrono::duration<Rep, Period> &) {
        auto &s = Sched::I();
        if (!s.active) return std::cv_status::no_timeout;
        { std::unique_lock<std::mutex> lk(s.G); s.switch_locked(lk); }
        tl_quiet_unlock = true; l.unlock(); tl_quiet_unlock = false;
        bool timedOut;
        {
            std::unique_lock<std::mutex> lk(s.G);
            auto &me = s.ts[Sched::me];
            me.st = Sched::PARKED; me.on = this; me.timed = true; me.woken = false;
            s.log("park " + std::to_string(Sched::me) + " c" + std::to_string(s.objId(this)));
            s.switch_locked(lk);
            timedOut = !s.ts[Sched::me].woken;
            s.ts[Sched::me].timed = false;
        }
        l.lock();
        return timedOut ? std::cv_status::timeout : std::cv_status::no_timeout;
    }
    template<class L, class Rep, class Period, class P> bool wait_for(L &l, const std::chrono::duration<Rep, Period> &d, P p) {
        while (!p()) { if (wait_for(l, d) == std::cv_status::timeout) return p(); }
        return true;
    }
    template<class L, class Clock, class Dur> std::cv_status wait_until(L &l, const std::chrono::time_point<Clock, Dur> &) {
        return wait_for(l, std::chrono::seconds(1));
    }
    template<class L, class Clock, class Dur, class P> bool wait_until(L &l, const std::chrono::time_point<Clock, Dur> &, P p) {
        return wait_for(l, std::chrono::seconds(1), p);
    }
    void notify_all() {
        auto &s = Sched::I(); if (!s.active) return;
        std::unique_lock<std::mutex> lk(s.G); s.switch_locked(lk);
        std::string w;
        for (int i = 0; i < (int) s.ts.size(); i++) if (s.ts[i].st == Sched::PARKED && s.ts[i].on == this) { s.ts[i].st = Sched::RUN; s.ts[i].woken = true; w += " " + std::to_string(i); }
        s.log("notify " + std::to_string(Sched::me) + " c" + std::to_string(s.objId(this)) + " all" + w);
    }
    void notify_one() {
        auto &s = Sched::I(); if (!s.active) return;
        std::unique_lock<std::mutex> lk(s.G); s.switch_locked(lk);
        std::vector<int> w;
        for (int i = 0; i < (int) s.ts.size(); i++) if (s.ts[i].st == Sched::PARKED && s.ts[i].on == this) w.push_back(i);
        std::string ws;
        if (!w.empty()) { int n = s.choose(w, "pw"); s.ts[n].st = Sched::RUN; s.ts[n].woken = true; ws = " " + std::to_string(n); }
        s.log("notify " + std::to_string(Sched::me) + " c" + std::to_string(s.objId(this)) + " one" + ws);
    }
};

// replacement for std::thread: registers the child with the scheduler; the child starts running only when chosen
struct Thread {
    std::thread t; int vid = -1;
    // the std::thread vocabulary the code under test may use
    using id = std::thread::id;
    using native_handle_type = std::thread::native_handle_type;
    id get_id() const noexcept { return t.get_id(); }
    native_handle_type native_handle() { return t.native_handle(); }
    static unsigned hardware_concurrency() noexcept { return std::thread::hardware_concurrency(); }
    Thread() = default;
    template<class F, class... A, class = std::enable_if_t<!std::is_same_v<std::decay_t<F>, Thread>>>
    explicit Thread(F &&f, A &&... a) {
        auto &s = Sched::I();
        {
            std::unique_lock<std::mutex> lk(s.G);
            if (s.failSpawns > 0) {
                --s.failSpawns;
                s.log("spawnfail " + std::to_string(Sched::me));
                throw std::system_error(std::make_error_code(std::errc::resource_unavailable_try_again));
            }
        }
        { std::unique_lock<std::mutex> lk(s.G); vid = s.spawn_register(); s.log("spawn " + std::to_string(Sched::me) + " " + std::to_string(vid)); }
        int myid = vid;
        t = std::thread([myid](std::decay_t<F> fn, std::decay_t<A>... args) {
            auto &s = Sched::I(); Sched::me = myid;
            { std::unique_lock<std::mutex> lk(s.G); s.cv.wait(lk, [&] { return s.cur == myid; }); }
            std::invoke(std::move(fn), std::move(args)...);
            {
                std::unique_lock<std::mutex> lk(s.G);
                s.ts[myid].st = Sched::FIN;
                s.log("exit " + std::to_string(myid));
                for (auto &x : s.ts) if (x.st == Sched::JOINING && x.joining == myid) x.st = Sched::RUN;
                ++s.progress;
                std::vector<int> r = s.enabledSet();
                if (r.empty()) {
                    bool all = true; for (auto &x : s.ts) if (x.st != Sched::FIN) all = false;
                    if (!all) s.deadlock();
                    return;
                }
                int n = s.choose(r, "pt");
                if (s.ts[n].st == Sched::BLK_PRED) { s.ts[n].st = Sched::RUN; s.ts[n].pred = nullptr; }
                if (s.ts[n].st == Sched::PARKED && s.ts[n].timed) { s.ts[n].st = Sched::RUN; s.ts[n].woken = false; s.log("timeout " + std::to_string(n)); }
                s.cur = n; s.cv.notify_all();
            }
        }, std::forward<F>(f), std::forward<A>(a)...);
        s.point();
    }
    Thread(Thread &&) = default;
    Thread &operator=(Thread &&o) { if (t.joinable()) std::terminate(); t = std::move(o.t); vid = o.vid; o.vid = -1; return *this; }
    ~Thread() = default;
    bool joinable() const { return t.joinable(); }
    void join() {
        auto &s = Sched::I();
        {
            std::unique_lock<std::mutex> lk(s.G); s.switch_locked(lk);
            while (s.ts[vid].st != Sched::FIN) { s.ts[Sched::me].st = Sched::JOINING; s.ts[Sched::me].joining = vid; s.switch_locked(lk); }
            s.log("joined " + std::to_string(Sched::me) + " " + std::to_string(vid));
        }
        t.join();
    }
    void detach() { t.detach(); }
};

// watchdog: a run that makes no scheduling progress for `secs` seconds is reported as a hang
inline void start_watchdog(int secs) {
    std::thread([secs] {
        long last = -1; int idle = 0;
        for (;;) {
            std::this_thread::sleep_for(std::chrono::milliseconds(250));
            long p = Sched::I().progress.load();
            if (Sched::I().active && p == last) { if (++idle >= secs * 4) { std::fputs("end hang\n", stdout); std::fflush(stdout); _exit(5); } }
            else idle = 0;
            last = p;
        }
    }).detach();
}
} // namespace verif

namespace verif {
// stable ids for the trace analysis: the mutex of a Resource-like object is registered first, then its condition variable.
// A rewrite of the class under test that no longer has a member `m_cv` (e.g. semaphores instead) still compiles: a
// placeholder keeps the numbering, the property monitors work on call/return events and do not need it.
template<class S, class R> void registerResourceIds(S &s, R &r) {
    s.objId(&r.m_mutex);
    if constexpr (requires { r.m_cv; }) s.objId(&r.m_cv);
    else { static char placeholder[64]; static int used = 0; s.objId(&placeholder[used++ % 64]); }
}
}
