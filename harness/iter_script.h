// Iterator scripts on the real tulz::RandomAccessIndexIterator (shared by the RingBuffer and Array harnesses).
// Protocol (lean/Tulz/Drv/IterDrv.lean):  <comp> it <id> <start> <cmd>+
//   I `++it`  D `--it`  i `it++`  d `it--`  a<n> `it += n`  s<n> `it -= n`  P<n> `it = it + n`  M<n> `it = it - n`
//   * `*it`   = `it - begin()`   c<j> the six comparisons with `begin() + j`
// Answer: it=<obs>,…   v<value>  n<difference>  b<eq ne lt gt le ge>  s<postfix returned the old iterator>
#pragma once
#include <cstddef>
#include <optional>
#include <string>
#include <vector>

namespace verif {
template<typename Begin, typename ValueOf>
static std::string iterScript(Begin begin, ValueOf valueOf, const std::vector<std::string> &t, size_t from) {
    // the iterator holds a reference to its container and is therefore not assignable: the variable is re-seated
    using It = decltype(begin());
    std::optional<It> cur;
    cur.emplace(begin() + (std::ptrdiff_t) std::stol(t.at(from)));
    std::string out = "it=";
    bool first = true;
    auto emit = [&](const std::string &o) { out += (first ? "" : ",") + o; first = false; };
    for (size_t k = from + 1; k < t.size(); ++k) {
        const std::string &c = t[k];
        std::ptrdiff_t n = c.size() > 1 ? (std::ptrdiff_t) std::stol(c.substr(1)) : 0;
        It &it = *cur;
        switch (c[0]) {
            case 'I': { auto &r = ++it; if (&r != &it) emit("X"); break; }
            case 'D': { auto &r = --it; if (&r != &it) emit("X"); break; }
            case 'i': { auto old = it; auto r = it++; emit(std::string("s") + (r == old ? "1" : "0")); break; }
            case 'd': { auto old = it; auto r = it--; emit(std::string("s") + (r == old ? "1" : "0")); break; }
            case 'a': { auto &r = (it += n); if (&r != &it) emit("X"); break; }
            case 's': { auto &r = (it -= n); if (&r != &it) emit("X"); break; }
            case 'P': { It next = it + n; cur.emplace(next); break; }
            case 'M': { It next = it - n; cur.emplace(next); break; }
            case '*': emit("v" + std::to_string(valueOf(*it))); break;
            case '=': emit("n" + std::to_string((long long) (it - begin()))); break;
            case 'c': {
                auto b = begin() + n;
                std::string s = "b";
                s += (it == b) ? '1' : '0'; s += (it != b) ? '1' : '0'; s += (it < b) ? '1' : '0';
                s += (it > b) ? '1' : '0'; s += (it <= b) ? '1' : '0'; s += (it >= b) ? '1' : '0';
                emit(s);
                break;
            }
            default: return "bad-op";
        }
    }
    return out;
}
}
