// Line-protocol interpreter for the real tulz::Observable (compiled from the working tree); same
// format as lean/Tulz/Drv/Obsv.lean.  kinds: `long` = Observable<long>, `dy` = Observable<double, NearEq>
// on dyadic rationals (tokens are integers scaled by 2^20, never printed floats; NearEq = |a-b| < 2^-4),
// `str` = Observable<std::string> (tokens `'text`).
#include <tulz/observer/Observable.h>

#include <cmath>
#include <deque>
#include <iostream>
#include <memory>
#include <sstream>
#include <functional>
#include <string>
#include <string_view>
#include <vector>
#define VERIF_PAINT_NEW 1
#include "../painted.h"

namespace {

constexpr double SCALE = 1048576.0;

struct NearEq {
    bool operator()(const double &a, const double &b) const { return std::abs(a - b) < 0.0625; }
};

// a coarse tolerance: values that differ by less than 2 are "equal", so ++ / -- (a step of 1) produce an Eq-equal value
struct CoarseEq {
    bool operator()(const double &a, const double &b) const { return std::abs(a - b) < 2.0; }
};

struct IUni {
    virtual ~IUni() = default;
    virtual std::string run(const std::vector<std::string> &t) = 0;
};

std::string showV(long v) { return std::to_string(v); }
// strings travel as `'text` with %XX escapes for bytes outside 0x21..0x7e and for `%` itself (so that NUL can be an operand)
std::string showV(const std::string &v) {
    static const char *d = "0123456789abcdef";
    std::string r = "'";
    for (unsigned char c : v) {
        if (c < 0x21 || c > 0x7e || c == '%') { r += '%'; r += d[c >> 4]; r += d[c & 15]; }
        else r += static_cast<char>(c);
    }
    return r;
}
std::string showV(double v) {
    double x = v * SCALE;
    if (std::nearbyint(x) != x || std::abs(x) > 9.0e15) return "INEXACT";
    return std::to_string((long long) x);
}

template<typename T> T parseV(const std::string &t);
template<> long parseV<long>(const std::string &t) { return std::stol(t); }
template<> double parseV<double>(const std::string &t) { return (double) std::stoll(t) / SCALE; }
template<> std::string parseV<std::string>(const std::string &t) {
    if (t.empty() || t[0] != '\'') throw std::invalid_argument("str");
    std::string r;
    for (size_t i = 1; i < t.size(); ++i) {
        if (t[i] == '%' && i + 2 < t.size()) {
            r += static_cast<char>(std::stoi(t.substr(i + 1, 2), nullptr, 16));
            i += 2;
        } else r += t[i];
    }
    return r;
}

// Eq = void selects the library's DEFAULT equality (the default template argument itself is part of what is checked)
template<typename T, typename Eq> struct ObsOf { using type = tulz::Observable<T, Eq>; };
template<typename T> struct ObsOf<T, void> { using type = tulz::Observable<T>; };

template<typename T, typename Eq>
struct Uni final : IUni {
    using O = typename ObsOf<T, Eq>::type;
    using Sub = typename O::Subject_t::Subscription_t;
    O obs;
    std::deque<Sub> handles;
    struct Cell { long id = -1; };
    std::deque<Cell> cells;
    std::vector<std::string> log;
    long nops = 0;
    // a second Observable of the SAME type, fed by `chain` subscribers of the first one (derived value = the value itself); its
    // own recorder logs `m(<value>)` into the same log, i.e. right after the chain subscriber that caused it
    std::unique_ptr<O> mirror;
    std::deque<Sub> mirrorHandles;
    T initial;

    explicit Uni(T v0) : obs(v0), initial(v0) {}

    std::string finish(const std::string &ret) {
        std::string l;
        for (size_t i = 0; i < log.size(); ++i) l += (i ? " " : "") + log[i];
        log.clear();
        return "ret=" + ret + " | val=" + showV(obs.value()) + " | log=" + l;
    }

    std::string run(const std::vector<std::string> &t) override {
        const std::string &op = t.at(0);
        ++nops;
        if (op == "value") {
            const O &c = obs;
            return "val=" + showV(*c);
        }
        if (op == "subscribe") {
            cells.emplace_back();
            Cell *cell = &cells.back();
            size_t slot = handles.size();
            // the three parameter forms an observer of Subject<T&> may have
            switch (slot % 3) {
                case 0: handles.push_back(obs.subscribe([this, cell](T v) { log.push_back(std::to_string(cell->id) + "(" + showV(v) + ")"); })); break;
                case 1: handles.push_back(obs.subscribe([this, cell](const T &v) { log.push_back(std::to_string(cell->id) + "(" + showV(v) + ")"); })); break;
                default:
                    // a mutable-reference parameter only where the Observable's subject type accepts such an observer
                    if constexpr (requires(O &o, void (*f)(T &)) { o.subscribe(f); })
                        handles.push_back(obs.subscribe([this, cell](T &v) { log.push_back(std::to_string(cell->id) + "(" + showV(v) + ")"); }));
                    else
                        handles.push_back(obs.subscribe([this, cell](const T &v) { log.push_back(std::to_string(cell->id) + "(" + showV(v) + ")"); }));
                    break;
            }
            cell->id = handles.back().getId();
            return "h=" + std::to_string(slot) + " id=" + std::to_string(cell->id);
        }
        if (op == "chain") {
            if (!mirror) {
                mirror = std::make_unique<O>(initial);
                mirrorHandles.push_back(mirror->subscribe([this](const T &v) { log.push_back("m(" + showV(v) + ")"); }));
            }
            cells.emplace_back();
            Cell *cell = &cells.back();
            size_t slot = handles.size();
            handles.push_back(obs.subscribe([this, cell](const T &v) {
                log.push_back(std::to_string(cell->id) + "(" + showV(v) + ")");
                *mirror = v;                       // notifies the mirror's recorder iff the mirror's value changes (its Eq)
            }));
            cell->id = handles.back().getId();
            return "h=" + std::to_string(slot) + " id=" + std::to_string(cell->id);
        }
        if (op == "unsub") {
            size_t h = std::stoul(t.at(1));
            if (h >= handles.size() || handles[h].getSubject() == nullptr) return "!PRECOND";
            try { handles[h].unsubscribe(); }
            catch (const std::invalid_argument &) { return "!INVALID_ARG"; }
            return "ok";
        }
        if (op == "assign") {
            T v = parseV<T>(t.at(1));
            // the operand of operator=(V&&) need not be a T: every third assignment passes an operand of another type whose
            // conversion to T yields exactly v (lossy for the arithmetic instantiations) — it must behave like assigning v
            switch (nops % 3) {
                case 0: obs = v; break;
                case 1: obs = std::move(v); break;
                default:
                    if constexpr (std::is_same_v<T, std::string>) { if (v.find('\0') == std::string::npos) obs = v.c_str(); else obs = std::string(v); }
                    else if constexpr (std::is_integral_v<T>) obs = (double) v + (v >= 0 ? 0.25 : -0.25);
                    else obs = (long double) v + (long double) v * 1e-19L;
                    break;
            }
            return finish("-");
        }
        if (op == "apply") {
            const std::string &fn = t.at(1);
            // apply() accepts every callable invocable with T& and ignores what it returns: the same function is passed as a callable
            // returning nothing, an int (0 / non-zero), the value itself by reference, a bool or a pointer that says the opposite of
            // "the value changed" half of the time, and as a std::function
            auto via = [&](auto f) {
                bool flip = (nops % 12) < 6;
                switch (nops % 6) {
                    case 0: obs.apply(f); break;
                    case 1: obs.apply([&](T &v) -> int { f(v); return flip ? 0 : 7; }); break;
                    case 2: obs.apply([&](T &v) -> T & { f(v); return v; }); break;
                    case 3: obs.apply([&](T &v) -> bool { f(v); return flip; }); break;
                    case 4: obs.apply([&](T &v) -> const void * { f(v); return flip ? nullptr : static_cast<const void *>(&v); }); break;
                    default: { std::function<void(T &)> g = f; obs.apply(g); break; }
                }
            };
            if constexpr (std::is_same_v<T, std::string>) {
                if (fn == "id") via([](T &) {});
                else if (fn == "clr") via([](T &v) { v.clear(); });
                else if (fn == "dup") via([](T &v) { v += std::string(v); });
                else return "!PRECOND";
            } else {
                if (fn == "id") via([](T &) {});
                else if (fn == "neg") via([](T &v) { v = -v; });
                else if (fn == "zero") via([](T &v) { v = 0; });
                else if (fn == "dbl") via([](T &v) { v += v; });
                else return "!PRECOND";
            }
            return finish("-");
        }
        if constexpr (std::is_same_v<T, std::string>) {
            if (op == "add") {
                std::string v = parseV<T>(t.at(1));
                if (v.size() == 1 && nops % 2 == 0) {
                    // a single character is appended as a `char` (lvalue or rvalue): an integral operand of a non-integral value
                    char c = v[0];
                    if (nops % 4 == 0) obs += c; else obs += static_cast<char>(c);
                } else switch (nops % 3) {
                    case 0: obs += v; break;
                    case 1: obs += std::string_view(v); break;
                    default:
                        if (v.find('\0') == std::string::npos) obs += v.c_str(); else obs += v;
                        break;
                }
                return finish("-");
            }
        } else {
            if (op == "preinc") { T &r = ++obs; std::string s = showV(r); bool same = &r == &obs.value(); return finish(same ? s : "NOT_A_REFERENCE"); }
            if (op == "predec") { T &r = --obs; std::string s = showV(r); bool same = &r == &obs.value(); return finish(same ? s : "NOT_A_REFERENCE"); }
            if (op == "postinc") { T r = obs++; return finish(showV(r)); }
            if (op == "postdec") { T r = obs--; return finish(showV(r)); }
            if (op == "add" || op == "sub" || op == "mul" || op == "div") {
                T v = parseV<T>(t.at(1));
                if (op == "div" && v == 0) return "!PRECOND";
                // the operand need not be a T: when another arithmetic type holds exactly the same number it is passed instead
                auto with = [&](auto x) {
                    if (op == "add") obs += x;
                    else if (op == "sub") obs -= x;
                    else if (op == "mul") obs *= x;
                    else obs /= x;
                };
                if constexpr (std::is_integral_v<T>) {
                    if (nops % 3 == 1 && v >= -30000 && v <= 30000) with(static_cast<short>(v));
                    else if (nops % 3 == 2 && v >= 0 && v <= 255) with(static_cast<unsigned char>(v));
                    else with(v);
                } else {
                    if (nops % 3 == 1 && std::nearbyint(v) == v && std::abs(v) < 1e9) with(static_cast<long>(v));
                    else if (nops % 3 == 2 && static_cast<double>(static_cast<float>(v)) == v) with(static_cast<float>(v));
                    else with(v);
                }
                return finish("-");
            }
        }
        return "!PRECOND";
    }
};

} // namespace

int main() {
    std::ios::sync_with_stdio(false);
    std::unique_ptr<IUni> uni;
    std::string line;
    while (std::getline(std::cin, line)) {
        verif::paintLine(line);   // painted `new` (harness/painted.h)
        std::istringstream is(line);
        std::vector<std::string> t;
        std::string w;
        while (is >> w) t.push_back(w);
        if (t.empty()) { std::cout << "\n"; continue; }
        if (t[0] != "obsv") { std::cout << "bad-component\n" << std::flush; continue; }
        t.erase(t.begin());
        std::string out;
        try {
            if (t.at(0) == "reset") { uni.reset(); out = "ok"; }
            else if (t.at(0) == "new") {
                const std::string &k = t.at(1);
                if (k == "long") uni = std::make_unique<Uni<long, void>>(parseV<long>(t.at(2)));
                else if (k == "dy") uni = std::make_unique<Uni<double, NearEq>>(parseV<double>(t.at(2)));
                else if (k == "dc") uni = std::make_unique<Uni<double, CoarseEq>>(parseV<double>(t.at(2)));
                else if (k == "str") uni = std::make_unique<Uni<std::string, void>>(parseV<std::string>(t.at(2)));
                out = uni ? "ok" : "bad-op";
            } else if (!uni) out = "!PRECOND";
            else out = uni->run(t);
        } catch (const std::out_of_range &) {
            out = "bad-op";
        } catch (const std::invalid_argument &) {
            out = "bad-op";
        }
        std::cout << out << "\n" << std::flush;
    }
    return 0;
}
