// Line-protocol interpreter for the real tulz::Subject / Subscription / Observer / EternalObserver /
// ObserverAutoPtr / ObserverFactory / USubscription (compiled from the working tree).
// Reads `subj <op> <args…>` lines and prints one canonical line per operation, in the same format as
// the Lean driver (lean/Tulz/Drv/Subj.lean).  One case uses one argument signature (`subj sig k`):
//   0 Subject<>   1 Subject<int>   2 Subject<std::string>   3 Subject<const std::string&>   4 Subject<int,std::string>
// Callbacks interpret the same script language as the model.  Every observer carries a lifetime guard
// whose destructor reports `free`; destruction while the callback runs, a call after destruction and a
// double destruction are reported softly (`!FREE_WHILE_RUNNING`, …) in addition to what ASan sees.
#include <tulz/observer/Subject.h>
#include <tulz/observer/USubscription.h>
#include <tulz/observer/EternalObserver.h>
#include <tulz/observer/EternalObserverFactory.h>
#include <tulz/observer/EternalObserverAutoPtr.h>

#include <algorithm>
#include <cstdio>
#include <cstdlib>
#include <deque>
#include <iostream>
#include <map>
#include <memory>
#include <sstream>
#include <string>
#include <tuple>
#include <vector>
#define VERIF_PAINT_NEW 1
#include "../painted.h"

namespace {

struct Action { int kind; long arg; bool m0; };
enum { A_SUB, A_UNSUBS, A_UNSUBH, A_MUTE, A_UNMUTE, A_INVAL, A_MUTESELF, A_INVALSELF, A_NOTIFY, A_NOTIFYX };
using Script = std::vector<Action>;

bool parseScript(const std::string &tok, Script &out) {
    out.clear();
    if (tok == "-") return true;
    std::stringstream ss(tok);
    std::string t;
    while (std::getline(ss, t, ',')) {
        auto num = [&](size_t from) { return std::stol(t.substr(from)); };
        if (t == "ms") out.push_back({A_MUTESELF, 0, false});
        else if (t == "is") out.push_back({A_INVALSELF, 0, false});
        else if (t == "nt") out.push_back({A_NOTIFY, 0, false});
        else if (t.rfind("nx", 0) == 0) out.push_back({A_NOTIFYX, num(2), false});
        else if (t.rfind("us", 0) == 0) out.push_back({A_UNSUBS, num(2), false});
        else if (t.rfind("uh", 0) == 0) out.push_back({A_UNSUBH, num(2), false});
        else if (t.rfind("mu", 0) == 0) out.push_back({A_MUTE, num(2), false});
        else if (t.rfind("um", 0) == 0) out.push_back({A_UNMUTE, num(2), false});
        else if (t.rfind("iv", 0) == 0) out.push_back({A_INVAL, num(2), false});
        else if (t.rfind("s", 0) == 0) {
            auto m = t.find('m');
            if (m == std::string::npos) return false;
            out.push_back({A_SUB, std::stol(t.substr(1, m - 1)), t.substr(m + 1) == "1"});
        } else return false;
    }
    return true;
}

// ---- lifetime registry: lives for the whole case, independent of the observers
struct TokenInfo {
    long subj = -1;
    long id = -1;            // subscription id (known once subscribe() returned)
    void *observer = nullptr;
    Script script;
    bool dead = false;
    int running = 0;
};

struct Recorder {
    std::vector<std::string> log;
    std::vector<long> freed;
    std::string error;
    void fail(const std::string &e) { if (error.empty()) error = e; }
};
Recorder &rec() { static Recorder r; return r; }

struct Guard {
    TokenInfo *info;
    explicit Guard(TokenInfo *i) : info(i) {}
    Guard(const Guard &) = delete;
    ~Guard() {
        if (info->dead) rec().fail("DOUBLE_FREE");
        if (info->running > 0) rec().fail("FREE_WHILE_RUNNING");
        info->dead = true;
        rec().freed.push_back(info->id);
    }
};

struct IUniverse {
    virtual ~IUniverse() = default;
    virtual std::string run(const std::vector<std::string> &t) = 0;
};

template<typename T> std::string argStr1(const T &v) {
    if constexpr (std::is_same_v<std::decay_t<T>, std::string>) return v; else return std::to_string(v);
}
template<typename ...Ts> std::string argStr(const Ts &...vs) {
    if constexpr (sizeof...(Ts) == 0) return "-";
    else { std::string r; bool first = true; ((r += (first ? "" : ",") + argStr1(vs), first = false), ...); return r; }
}

template<typename ...Args>
struct Universe final : IUniverse {
    using Subj = tulz::Subject<Args...>;
    using Sub = tulz::Subscription<Args...>;
    using Obs = tulz::Observer<Args...>;
    using EObs = tulz::EternalObserver<Args...>;
    using SelfView = typename Obs::SelfView;
    using AutoPtr = tulz::EternalObserverAutoPtr<Args...>;

    static constexpr uint32_t LIVE = 0x0b5e11feu, DEAD = 0xdeadbeefu;

    // routes 0/1: an observer type of the user, derived from EternalObserver
    struct TrackedObserver final : EObs {
        std::shared_ptr<Guard> guard;
        uint32_t magic = LIVE;
        TrackedObserver(typename Obs::Func f, typename Obs::Params p, std::shared_ptr<Guard> g)
            : EObs(std::move(f), std::move(p)), guard(std::move(g)) {}
        ~TrackedObserver() override { magic = DEAD; }
        bool isValid() const override {
            if (magic != LIVE) rec().fail("TOUCH_AFTER_FREE");
            return EObs::isValid();
        }
        void invalidate() override {
            if (magic != LIVE) rec().fail("TOUCH_AFTER_FREE");
            EObs::invalidate();
        }
    };

    struct SubjBox { Subj *p = nullptr; bool alive = false; void *mem = nullptr; };
    std::map<long, SubjBox> subjects;
    struct Slot { Sub h; std::unique_ptr<tulz::USubscription> u; };
    std::deque<Slot> handles;
    std::deque<TokenInfo> tokens;
    std::map<long, Script> lib;
    long serial = 0;
    int fuelLeft = 0;

    ~Universe() override {
        handles.clear();
        for (auto &[sid, b] : subjects) {
            if (b.alive) b.p->~Subj();
            ::operator delete(b.mem);
        }
    }

    long sidOf(const Subj *p) const {
        for (auto &[sid, b] : subjects) if (b.p == p) return sid;
        return -1;
    }
    bool subjAlive(const Subj *p) const {
        for (auto &[sid, b] : subjects) if (b.p == p) return b.alive;
        return false;
    }
    Subj *liveSubj(long sid) {
        auto it = subjects.find(sid);
        return it != subjects.end() && it->second.alive ? it->second.p : nullptr;
    }

    // ------------------------------------------------------------ the caller's argument objects of the outermost notify
    void *callerArgs = nullptr;      // std::tuple<std::decay_t<Args>...>* while a top-level notify is running
    template<typename A, typename V> static void clobberOne(V &v) {
        if constexpr (!std::is_reference_v<A>) {
            if constexpr (std::is_same_v<V, std::string>) v = "CLOBBERED-BY-A-CALLBACK-OF-THE-SAME-ROUND"; else v = 987654;
        }
    }
    template<size_t... I> void clobberCallerArgs(std::index_sequence<I...>) {
        if (callerArgs == nullptr) return;
        auto &tup = *static_cast<std::tuple<std::decay_t<Args>...> *>(callerArgs);
        (clobberOne<std::tuple_element_t<I, std::tuple<Args...>>>(std::get<I>(tup)), ...);
        (void) tup;
    }

    // ------------------------------------------------------------ the callback
    void callback(TokenInfo *info, const SelfView *selfView, const Args &...args) {
        if (info->dead) rec().fail("CALL_AFTER_FREE");
        if (rec().log.size() > 5000) {      // a runaway round (only possible when the code under test is wrong)
            rec().fail("LOG_OVERFLOW");
            fuelLeft = 0;
            return;
        }
        rec().log.push_back(std::to_string(info->id) + "(" + argStr(args...) + ")[");
        // the caller's argument objects change while the round is in progress: by-value parameters of notify() were
        // copied when notify() was called, so every observer of the round still has to see the values that were passed
        clobberCallerArgs(std::index_sequence_for<Args...>{});
        ++info->running;
        Subj &subject = *subjects.at(info->subj).p;
        Obs *self = static_cast<Obs *>(info->observer);
        if (selfView != nullptr && (*selfView).operator->() != self) rec().fail("SELFVIEW_MISMATCH");
        for (size_t k = 0; k < info->script.size(); ++k) {
            const Action a = info->script[k];
            switch (a.kind) {
                case A_SUB: {
                    auto it = lib.find(a.arg);
                    Script s = it == lib.end() ? Script{} : it->second;
                    long route = a.m0 ? (a.arg % 2) : (serial % 6);
                    subscribe(info->subj, route, a.m0, s);
                    break;
                }
                case A_UNSUBS:
                case A_UNSUBH: {
                    if (a.arg >= (long) handles.size()) break;
                    Sub &h = handles[a.arg].h;
                    if (a.kind == A_UNSUBH && h.getSubject() != &subject) break;
                    try {
                        if (a.kind == A_UNSUBH) h.unsubscribe(); else subject.unsubscribe(h);
                    } catch (const std::invalid_argument &) {
                        rec().log.push_back("E");
                    }
                    break;
                }
                case A_MUTE:
                case A_UNMUTE:
                case A_INVAL: {
                    if (a.arg >= (long) handles.size()) break;
                    Sub &h = handles[a.arg].h;
                    if (!subject.isSubscriptionValid(h)) break;
                    if (a.kind == A_MUTE) h.mute();
                    else if (a.kind == A_UNMUTE) h.unmute();
                    else h.getObserver()->invalidate();
                    break;
                }
                case A_MUTESELF:
                    if (selfView) (*selfView)->mute(); else self->mute();
                    break;
                case A_INVALSELF:
                    if (selfView) (*selfView)->invalidate(); else self->invalidate();
                    break;
                case A_NOTIFY:
                    if (fuelLeft > 0) {
                        --fuelLeft;
                        subject.notify(args...);
                        ++fuelLeft;
                    }
                    break;
                case A_NOTIFYX: {
                    // another Subject of the same signature is notified from inside this round, with the values received
                    auto it = subjects.find(a.arg);
                    if (fuelLeft > 0 && it != subjects.end() && it->second.alive) {
                        --fuelLeft;
                        it->second.p->notify(args...);
                        ++fuelLeft;
                    }
                    break;
                }
            }
        }
        --info->running;
        rec().log.push_back("]");
    }

    // ------------------------------------------------------------ subscribe through the different routes
    long subscribe(long sid, long route, bool m0, const Script &script) {
        Subj &subject = *subjects.at(sid).p;
        tokens.emplace_back();
        TokenInfo *info = &tokens.back();
        info->subj = sid;
        info->script = script;
        ++serial;
        auto guard = std::make_shared<Guard>(info);
        // the lambdas keep nothing but the guard and two stable pointers: they may be destroyed while running
        auto plain = [guard, info, this](Args ...args) { TokenInfo *i = info; Universe *u = this; u->callback(i, nullptr, args...); };
        auto withSelf = [guard, info, this](SelfView self, Args ...args) { TokenInfo *i = info; Universe *u = this; u->callback(i, &self, args...); };
        typename Obs::Params params;
        params.mute = m0;
        Sub h;
        switch (route) {
            case 0:   // raw pointer to a derived observer
                h = subject.subscribe(new TrackedObserver(plain, params, guard));
                break;
            case 1:   // unique_ptr to a derived observer
                h = subject.subscribe(std::make_unique<TrackedObserver>(plain, params, guard));
                break;
            case 2:   // invocable -> factory, passthrough
                h = subject.subscribe(plain);
                break;
            case 3:   // invocable with SelfView -> factory
                h = subject.subscribe(withSelf);
                break;
            case 4: { // factory used directly (as the repo's tests do), then moved in
                auto o = typename EObs::Factory{}(plain);
                h = subject.subscribe(std::move(o));
                break;
            }
            default: { // produced through an EternalObserverAutoPtr parameter, then dereferenced
                auto produce = [](AutoPtr p) { return *p; };
                auto o = produce(withSelf);
                h = subject.subscribe(std::move(o));
                break;
            }
        }
        if (route == 2 || route == 3) {
            // a NAMED callable handed to subscribe() is copied, never moved from: the caller's object stays usable (it may be
            // subscribed again).  A probe functor with move-sensitive state goes to a scratch Subject of the same type in the same
            // form (plain / with SelfView) and is inspected afterwards.
            static const std::string kTag = "lvalue-callable-state-0123456789abcdefghijklmnopqrstuvwxyz";
            struct ProbePlain { std::string tag; void operator()(Args...) const {} };
            struct ProbeSelf { std::string tag; void operator()(SelfView, Args...) const {} };
            Subj scratch;
            if (route == 2) { ProbePlain p{kTag}; auto hs = scratch.subscribe(p); if (p.tag != kTag) rec().fail("LVALUE_CALLABLE_MOVED_FROM"); }
            else { ProbeSelf p{kTag}; auto hs = scratch.subscribe(p); if (p.tag != kTag) rec().fail("LVALUE_CALLABLE_MOVED_FROM"); }
        }
        guard.reset();
        info->id = h.getId();
        info->observer = h.getObserver();
        handles.push_back(Slot{std::move(h), nullptr});
        return info->id;
    }

    // ------------------------------------------------------------ results
    std::string finish(const std::string &res, bool withLog) {
        Recorder &r = rec();
        std::string out;
        if (!r.error.empty()) out = "!" + r.error;
        else {
            std::sort(r.freed.begin(), r.freed.end());
            std::string f;
            for (size_t i = 0; i < r.freed.size(); ++i) f += (i ? " " : "") + std::to_string(r.freed[i]);
            if (withLog) {
                std::string l;
                for (size_t i = 0; i < r.log.size(); ++i) l += (i ? " " : "") + r.log[i];
                out = "log=" + l + " | freed=" + f;
            } else out = res + " | freed=" + f;
        }
        r.log.clear(); r.freed.clear(); r.error.clear();
        return out;
    }
    std::string plainResult(const std::string &res) {
        Recorder &r = rec();
        std::string out = r.error.empty() ? res : "!" + r.error;
        r.log.clear(); r.freed.clear(); r.error.clear();
        return out;
    }

    template<typename T> static T parseOne(const std::string &s) {
        if constexpr (std::is_same_v<T, std::string>) return s; else return (T) std::stol(s);
    }
    std::tuple<std::decay_t<Args>...> parseArgs(const std::string &tok) {
        std::vector<std::string> parts;
        std::stringstream ss(tok);
        std::string p;
        while (std::getline(ss, p, ',')) parts.push_back(p);
        size_t k = 0;
        // braced init: evaluation order left to right
        return std::tuple<std::decay_t<Args>...>{parseOne<std::decay_t<Args>>(parts.at(k++))...};
    }

    // handle whose subject pointer is non-null and points to a subject that still exists
    bool derefOk(const Slot &s) { return s.h.getSubject() != nullptr && subjAlive(s.h.getSubject()); }

    std::string run(const std::vector<std::string> &t) override {
        auto num = [&](size_t i) { return std::stol(t.at(i)); };
        const std::string &op = t.at(0);
        if (op == "lib") {
            Script s;
            if (!parseScript(t.at(2), s)) return "bad-op";
            lib[num(1)] = s;
            return "ok";
        }
        if (op == "new") {
            if (subjects.count(num(1))) return "bad-op";
            SubjBox b;
            b.mem = ::operator new(sizeof(Subj));
            b.p = new (b.mem) Subj();
            b.alive = true;
            subjects[num(1)] = b;
            return "ok";
        }
        if (op == "sub") {
            if (!liveSubj(num(1))) return "!PRECOND";
            Script s;
            if (!parseScript(t.at(4), s)) return "bad-op";
            long route = num(2);
            bool m0 = t.at(3) == "1";
            if (m0 && route > 1) return "bad-op";
            size_t slot = handles.size();
            long id = subscribe(num(1), route, m0, s);
            return plainResult("h=" + std::to_string(slot) + " id=" + std::to_string(id));
        }
        if (op == "unsubS") {
            Subj *s = liveSubj(num(1));
            if (!s || num(2) >= (long) handles.size() || handles[num(2)].u) return "!PRECOND";
            try { s->unsubscribe(handles[num(2)].h); }
            catch (const std::invalid_argument &) { return plainResult("!INVALID_ARG"); }
            return finish("ok", false);
        }
        if (op == "notify") {
            Subj *s = liveSubj(num(1));
            if (!s) return "!PRECOND";
            fuelLeft = (int) num(2);
            std::tuple<std::decay_t<Args>...> args = parseArgs(t.at(3));
            callerArgs = &args;
            std::apply([&](auto &...xs) { s->notify(xs...); }, args);
            callerArgs = nullptr;
            return finish("", true);
        }
        if (op == "hmove") {
            if (num(1) >= (long) handles.size() || num(2) >= (long) handles.size()) return "!PRECOND";
            Slot &d = handles[num(1)], &s = handles[num(2)];
            if (d.u || s.u) return "!PRECOND";
            Sub *dp = &d.h, *sp = &s.h;          // self-move goes through the same operator
            *dp = std::move(*sp);
            return "ok";
        }
        if (op == "live") {
            std::vector<std::pair<long, long>> l;
            for (auto &tk : tokens) if (!tk.dead) l.emplace_back(tk.subj, tk.id);
            std::sort(l.begin(), l.end());
            std::string r = "live=";
            for (size_t i = 0; i < l.size(); ++i) r += (i ? " " : "") + std::to_string(l[i].first) + ":" + std::to_string(l[i].second);
            return r;
        }
        if (op == "hassubs" || op == "drop") {
            Subj *s = liveSubj(num(1));
            if (!s) return "!PRECOND";
            if (op == "hassubs") return s->hasSubscriptions() ? "b=1" : "b=0";
            s->~Subj();
            subjects[num(1)].alive = false;
            return finish("ok", false);
        }
        // ---- operations on a handle slot
        if (num(1) >= (long) handles.size()) return "!PRECOND";
        Slot &sl = handles[num(1)];
        if (op == "uwrap") {
            if (sl.u) return "!PRECOND";
            sl.u = std::make_unique<tulz::USubscription>(std::move(sl.h));
            return "ok";
        }
        if (sl.u) {
            // type-erased handle: only the five forwarded members exist; the harness remembers nothing else
            tulz::USubscription &u = *sl.u;
            if (op == "isvalid") return plainResult(u->isValid() ? "b=1" : "b=0");
            if (op == "unsubH") {
                try { u->unsubscribe(); }
                catch (const std::invalid_argument &) { return plainResult("!INVALID_ARG"); }
                return finish("ok", false);
            }
            if (!u->isValid()) return "!PRECOND";
            if (op == "mute") { u->mute(); return finish("ok", false); }
            if (op == "unmute") { u->unmute(); return finish("ok", false); }
            if (op == "ismuted") return plainResult(u->isMuted() ? "b=1" : "b=0");
            return "!PRECOND";
        }
        if (op == "hinfo") {
            Sub &h = sl.h;
            std::string id = h.getId() == tulz::InvalidSubscriptionId ? "-" : std::to_string(h.getId());
            std::string s = h.getSubject() == nullptr ? "-" : std::to_string(sidOf(h.getSubject()));
            return "id=" + id + " s=" + s + " o=" + (h.getObserver() ? "1" : "0");
        }
        if (op == "hmovenew") {
            Sub n(std::move(sl.h));
            handles.push_back(Slot{std::move(n), nullptr});
            return "ok";
        }
        if (op == "isvalid") {
            if (sl.h.getSubject() == nullptr) return sl.h.isValid() ? "b=1" : "b=0";
            if (!subjAlive(sl.h.getSubject())) return "!PRECOND";
            return plainResult(sl.h.isValid() ? "b=1" : "b=0");
        }
        if (op == "unsubH") {
            if (!derefOk(sl)) return "!PRECOND";
            try { sl.h.unsubscribe(); }
            catch (const std::invalid_argument &) { return plainResult("!INVALID_ARG"); }
            return finish("ok", false);
        }
        if (op == "mute" || op == "unmute" || op == "inval" || op == "ismuted") {
            if (!derefOk(sl) || !sl.h.isValid()) return "!PRECOND";
            if (op == "mute") sl.h.mute();
            else if (op == "unmute") sl.h.unmute();
            else if (op == "inval") sl.h.getObserver()->invalidate();
            else {
                const Sub &ch = sl.h;
                return plainResult(ch.isMuted() ? "b=1" : "b=0");
            }
            return finish("ok", false);
        }
        return "bad-op";
    }
};

std::unique_ptr<IUniverse> makeUniverse(long sig) {
    // built with -DONLY_SIG=k only that signature is instantiated (five small binaries compile in parallel)
#ifndef ONLY_SIG
#define ONLY_SIG (-1)
#endif
#define WANT(k) (ONLY_SIG == -1 || ONLY_SIG == (k))
#if WANT(0)
    if (sig == 0) return std::make_unique<Universe<>>();
#endif
#if WANT(1)
    if (sig == 1) return std::make_unique<Universe<int>>();
#endif
#if WANT(2)
    if (sig == 2) return std::make_unique<Universe<std::string>>();
#endif
#if WANT(3)
    if (sig == 3) return std::make_unique<Universe<const std::string &>>();
#endif
#if WANT(4)
    if (sig == 4) return std::make_unique<Universe<int, std::string>>();
#endif
    return nullptr;
}

} // namespace

int main() {
    std::ios::sync_with_stdio(false);
    std::unique_ptr<IUniverse> uni;
    std::string line;
    while (std::getline(std::cin, line)) {
        verif::paintLine(line);   // painted `new` (harness/painted.h)
        std::istringstream is(line);
        std::vector<std::string> t;
        std::string w;
        while (is >> w) t.push_back(w);
        if (t.empty()) { std::cout << "\n"; continue; }
        if (t[0] != "subj") { std::cout << "bad-component\n" << std::flush; continue; }
        t.erase(t.begin());
        std::string out;
        try {
            if (t.at(0) == "reset") {
                uni.reset();
                rec() = Recorder{};
                out = "ok";
            } else if (t.at(0) == "sig") {
                uni = makeUniverse(std::stol(t.at(1)));
                out = uni ? "ok" : "bad-op";
            } else if (!uni) out = "!PRECOND";
            else out = uni->run(t);
        } catch (const std::out_of_range &) {
            out = "bad-op";
        } catch (const std::invalid_argument &) {
            out = "bad-op";
        }
        std::cout << out << "\n" << std::flush;
    }
    return 0;
}
