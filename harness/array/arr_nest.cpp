// Arrays whose elements own Arrays of the same type (a tree): copy assignment where the right-hand side is owned by
// an element of the left-hand side (`node.kids = node.kids[k].kids`, the "hoist" of a subtree).  The self-assignment guard does
// not fire, yet the source dies with the destination's old contents unless the copy is taken first.
// Every scenario is run on tulz::Array<Nest> and on a std::vector reference; ids are lifetime-tracked (harness/tracked.h).
//   output: one line per scenario, `ok <scenario>` or `MISMATCH <scenario> <what>`; last line `done <n>`
#include <tulz/container/Array.h>

#include <cstdio>
#include <string>
#include <vector>

#include "../tracked.h"

using verif::reg;

struct Nest {
    verif::Tracked id;
    tulz::Array<Nest> kids;
    Nest() : id(0) {}
    explicit Nest(long v) : id(v) {}
};

struct Ref {
    long id = 0;
    std::vector<Ref> kids;
};

static void build(tulz::Array<Nest> &a, std::vector<Ref> &r, int n, int m, int depth, long base) {
    a = tulz::Array<Nest>(static_cast<size_t>(n));
    r.assign(static_cast<size_t>(n), Ref{});
    for (int i = 0; i < n; ++i) {
        long id = base * 10 + i + 1;
        a[static_cast<size_t>(i)].id = verif::Tracked(id);
        r[static_cast<size_t>(i)].id = id;
        if (depth > 0) build(a[static_cast<size_t>(i)].kids, r[static_cast<size_t>(i)].kids, m, m > 1 ? m - 1 : m, depth - 1, id);
    }
}

static bool same(const tulz::Array<Nest> &a, const std::vector<Ref> &r, std::string &why, const std::string &path) {
    if (a.size() != r.size()) { why = path + ": size " + std::to_string(a.size()) + " expected " + std::to_string(r.size()); return false; }
    for (size_t i = 0; i < r.size(); ++i) {
        long v = a[i].id.value();
        if (v != r[i].id) { why = path + "[" + std::to_string(i) + "]: id " + std::to_string(v) + " expected " + std::to_string(r[i].id); return false; }
        if (!same(a[i].kids, r[i].kids, why, path + "[" + std::to_string(i) + "]")) return false;
    }
    return true;
}

static long count(const std::vector<Ref> &r) { long n = 0; for (auto &x : r) n += 1 + count(x.kids); return n; }

int main() {
    int scenarios = 0;
    for (int n = 1; n <= 4; ++n) for (int m = 0; m <= 3; ++m) for (int k = 0; k < n; ++k) for (int op = 0; op < 2; ++op) {
        std::string name = "n=" + std::to_string(n) + " m=" + std::to_string(m) + " k=" + std::to_string(k) + " op=" +
                           (op == 0 ? "copy-assign-hoist" : "copy-assign-grandchild");
        reg().reset();
        std::string why;
        {
            tulz::Array<Nest> a;
            std::vector<Ref> r;
            build(a, r, n, m, 2, 0);
            size_t kk = static_cast<size_t>(k);
            if (op == 0) {
                a = a[kk].kids;                                   // the right-hand side is owned by an element of `a`
                std::vector<Ref> t = r[kk].kids; r = t;
            } else if (!a[kk].kids.empty() && !a[kk].kids[0].kids.empty()) {
                a = a[kk].kids[0].kids;
                std::vector<Ref> t = r[kk].kids[0].kids; r = t;
            }
            same(a, r, why, "a");
            if (why.empty()) {
                long live = 0;
                for (auto &[v, c] : reg().live) live += c;
                if (live != count(r)) why = "live elements " + std::to_string(live) + " expected " + std::to_string(count(r));
            }
        }
        if (why.empty() && !reg().error.empty()) why = "lifetime error " + reg().error;
        if (why.empty()) { long live = 0; for (auto &[v, c] : reg().live) live += c; if (live != 0) why = std::to_string(live) + " elements alive after destruction"; }
        std::printf("%s %s%s\n", why.empty() ? "ok" : "MISMATCH", name.c_str(), why.empty() ? "" : (" " + why).c_str());
        std::fflush(stdout);
        ++scenarios;
    }
    std::printf("done %d\n", scenarios);
    return 0;
}
