// Line-protocol interpreter for the real tulz::Array (compiled from the working tree).
// Reads `arr <op> <args…>` lines on stdin and prints one canonical line per operation, in the
// same format as the Lean driver (lean/Tulz/Drv/Arr.lean).
//   default       Array<verif::Tracked>   class type, lifetimes observable
//   -DELEM_LONG   Array<long>             !is_class_v path (memcpy, raw tails)
//   -DELEM_UCHAR  Array<unsigned char>    the instantiation File.cpp uses
// malloc/realloc/free *as spelled in Array.h* are routed through counting wrappers so that the
// number of blocks still owned is observable (`arr heap`); ASan still sees the real calls.
#include <algorithm>
#include <cstddef>
#include <cstdio>
#include <cstdlib>
#include <cstring>
#include <initializer_list>
#include <iostream>
#include <iterator>
#include <map>
#include <set>
#include <sstream>
#include <string>
#include <vector>

#include "../tracked.h"
#include "../iter_script.h"

namespace verif {
struct HeapLog {
    std::set<void *> owned;
    long allocs = 0, frees = 0;
    bool foreign = false;
};
inline HeapLog &heapLog() { static HeapLog h; return h; }
inline void *vmalloc(size_t n) {
    void *p = std::malloc(n);
    if (p) { heapLog().owned.insert(p); heapLog().allocs++; }
    return p;
}
inline void *vcalloc(size_t k, size_t n) {
    void *p = std::calloc(k, n);
    if (p) { heapLog().owned.insert(p); heapLog().allocs++; }
    return p;
}
inline void vfree(void *p) {
    if (p) {
        if (!heapLog().owned.erase(p)) heapLog().foreign = true;
        heapLog().frees++;
    }
    std::free(p);
}
inline void *vrealloc(void *p, size_t n) {
    if (p) {
        if (!heapLog().owned.erase(p)) heapLog().foreign = true;
        heapLog().frees++;
    }
    void *q = std::realloc(p, n);
    if (q) { heapLog().owned.insert(q); heapLog().allocs++; }
    return q;
}
} // namespace verif

#define malloc(n) verif::vmalloc(n)
#define calloc(k, n) verif::vcalloc(k, n)
#define realloc(p, n) verif::vrealloc(p, n)
#define free(p) verif::vfree(p)
#include <cmath>
#include <tulz/container/Array.h>
#undef malloc
#undef calloc
#undef realloc
#undef free
#define VERIF_PAINT_NEW 1
#include "../painted.h"

using verif::reg;

#if defined(ELEM_LONG)
using Elem = long;
static long valueOf(const Elem &e) { return e; }
static constexpr bool kClass = false;
#elif defined(ELEM_DOUBLE)
// arithmetic type with more than one representation of "zero": protocol value 0 stands for NEGATIVE zero, and a
// positive zero read back is reported as the distinct value 777000777 (an element must hold exactly the stored value)
using Elem = double;
static long valueOf(const Elem &e) { if (e == 0.0) return std::signbit(e) ? 0 : 777000777; return (long) e; }
static constexpr bool kClass = false;
#elif defined(ELEM_UCHAR)
using Elem = unsigned char;
static long valueOf(const Elem &e) { return e; }
static constexpr bool kClass = false;
#elif defined(ELEM_POD)
// a class type that is trivially copyable and trivially destructible but NOT trivially default-constructible
// (default member initialiser): Array(size) and a growing resize(size) must still run its default constructor.
// Lifetimes are not observable for it; values are: a default-constructed element reads back as 0, raw storage does not.
struct Pod {
    long biased = 7;
    Pod() = default;
    Pod(long v) : biased(v + 7) {}       // NOLINT: implicit on purpose
    bool operator==(const Pod &o) const { return biased == o.biased; }
};
static_assert(std::is_trivially_copyable_v<Pod> && std::is_trivially_destructible_v<Pod> && !std::is_trivially_default_constructible_v<Pod>);
using Elem = Pod;
static long valueOf(const Elem &e) { return e.biased - 7; }
static constexpr bool kClass = true;
#else
using Elem = verif::Tracked;
static long valueOf(const Elem &e) { return e.value(); }
static constexpr bool kClass = true;
#endif
static_assert(std::is_class_v<Elem> == kClass);

template<typename V> static Elem mkElem(V v) {
#if defined(ELEM_DOUBLE)
    return v == 0 ? -0.0 : (double) v;
#else
    return Elem(v);
#endif
}

using Arr = tulz::Array<Elem>;

static std::vector<Arr *> vars;

static std::string finish(const std::string &res) {
    std::string d = reg().delta();
    if (!reg().error.empty()) {
        std::string e = "!" + reg().error;
        reg().error.clear();
        return e;
    }
    if (verif::heapLog().foreign) { verif::heapLog().foreign = false; return "!BAD_FREE"; }
#if defined(ELEM_POD)
    return res + " | d:?";
#else
    return res + " | " + (kClass ? d : std::string("d:?"));
#endif
}

template<typename A> static std::string listOf(A &a) {
    std::string r = "l=";
    bool first = true;
    for (auto &e : a) { r += (first ? "" : " ") + std::to_string(valueOf(e)); first = false; }
    return r;
}

// The elements of an initializer_list are const: building an Array from a list must leave the list as it was.  The same
// list OBJECT is therefore used twice; the second Array (gone before the operation ends, so the net lifetime change of the
// operation is that of one construction) has to hold the same values as the first.
static Arr *fromList(std::initializer_list<Elem> il) {
    Arr *first = new Arr(il);
    {
        Arr second(il);
        bool same = second.size() == first->size();
        for (size_t i = 0; same && i < second.size(); ++i) same = valueOf(second[i]) == valueOf((*first)[i]);
        if (!same) reg().fail("INIT_LIST_CONSUMED");
    }
    return first;
}

static Arr *makeInit(const std::vector<long> &v) {
    // initializer_list needs a literal shape; the temporaries die at the end of the full expression
    switch (v.size()) {
        case 0: return new Arr(std::initializer_list<Elem>{});
        case 1: return fromList({mkElem(v[0])});
        case 2: return new Arr{mkElem(v[0]), mkElem(v[1])};
        case 3: return fromList({mkElem(v[0]), mkElem(v[1]), mkElem(v[2])});
        case 4: return new Arr{mkElem(v[0]), mkElem(v[1]), mkElem(v[2]), mkElem(v[3])};
        default: return fromList({mkElem(v[0]), mkElem(v[1]), mkElem(v[2]), mkElem(v[3]), mkElem(v[4])});
    }
}

static std::string run(const std::vector<std::string> &t) {
    auto num = [&](size_t i) { return std::stol(t.at(i)); };
    const std::string &op = t.at(0);

    if (op == "reset" || op == "cfg") {
        for (auto *p : vars) delete p;
        vars.clear();
        if (op == "cfg") {
            if ((t.at(1) == "1") != kClass) return "bad-element-type";
            vars.assign((size_t) num(2), nullptr);
        }
        reg().reset();
        verif::heapLog() = verif::HeapLog();
        return "ok";
    }
    if (op == "live") return reg().liveList();
    if (op == "heap") return "owned=" + std::to_string(verif::heapLog().owned.size());

    auto slot = [&](size_t i) -> Arr *& { return vars.at((size_t) num(i)); };
    auto obj = [&](size_t i) -> Arr & {
        Arr *p = vars.at((size_t) num(i));
        if (!p) throw std::runtime_error("no object");
        return *p;
    };
    auto needFree = [&](size_t i) { if (slot(i)) throw std::runtime_error("slot occupied"); };

    if (op == "ptr") {
        needFree(1);
        {
            std::vector<Elem> src;
            src.reserve(t.size());
            for (size_t i = 3; i < t.size(); ++i) src.emplace_back(mkElem(num(i)));
            // an empty source is passed as a null pointer (what `Array<T>(nullptr, 0)` does)
            slot(1) = new Arr(src.empty() ? nullptr : src.data(), (size_t) num(2));     // copy = true
        }
        return finish("ok");
    }
    if (op == "init") {
        needFree(1);
        std::vector<long> v;
        for (size_t i = 2; i < t.size(); ++i) v.push_back(num(i));
        slot(1) = makeInit(v);
        return finish("ok");
    }
    if (op == "size") { needFree(1); slot(1) = new Arr((size_t) num(2)); return finish("ok"); }
    if (op == "fill") {
        needFree(1);
        // the fill value in every value category (chosen by the value, so a case always takes the same route): a named object,
        // a temporary, an object the caller moves from
        {
            long fv = num(3);
            if (fv % 3 == 0) { Elem v(mkElem(fv)); slot(1) = new Arr((size_t) num(2), v); }
            else if (fv % 3 == 1) slot(1) = new Arr((size_t) num(2), mkElem(fv));
            else { Elem v(mkElem(fv)); slot(1) = new Arr((size_t) num(2), std::move(v)); }
        }
        return finish("ok");
    }
    if (op == "dflt") { needFree(1); slot(1) = new Arr(); return finish("ok"); }
    if (op == "copy") { needFree(1); slot(1) = new Arr(obj(2)); return finish("ok"); }
    if (op == "mctor") { needFree(1); slot(1) = new Arr(std::move(obj(2))); return finish("ok"); }
    if (op == "cassign") { obj(1) = obj(2); return finish("ok"); }
    if (op == "massign") { obj(1) = std::move(obj(2)); return finish("ok"); }
    if (op == "swap") { obj(1).swap(obj(2)); return finish("ok"); }
    if (op == "alias") {
        Arr &a = obj(1), &b = obj(2);
        return (a.array() != nullptr && a.array() == b.array()) ? "b=1" : "b=0";
    }

    Arr &a = obj(1);
    if (op == "resize") { a.resize((size_t) num(2)); return finish("ok"); }
    if (op == "resizev") {
        long fv = num(3);
        if (fv % 3 == 0) { Elem v(mkElem(fv)); a.resize((size_t) num(2), v); }
        else if (fv % 3 == 1) a.resize((size_t) num(2), mkElem(fv));
        else { Elem v(mkElem(fv)); a.resize((size_t) num(2), std::move(v)); }
        return finish("ok");
    }
    if (op == "resizeself") { a.resize((size_t) num(2), a[(size_t) num(3)]); return finish("ok"); }
    if (op == "resizefrom") { a.resize((size_t) num(2), obj(3)[(size_t) num(4)]); return finish("ok"); }
    if (op == "set") { a[(size_t) num(2)] = mkElem(num(3)); return finish("ok"); }
    if (op == "get") {
        const Arr &ca = a;   // both overloads, and the iterator arithmetic
        long x = valueOf(a[(size_t) num(2)]), y = valueOf(ca[(size_t) num(2)]);
        long z = valueOf(*(a.begin() + num(2))), w = valueOf(*(ca.end() - (long) (ca.size() - num(2))));
        return finish(x == y && y == z && z == w ? "v=" + std::to_string(x) : "v=overload-mismatch");
    }
    if (op == "iter" || op == "peek") {
        const Arr &ca = a;
        std::string f = listOf(a), c = listOf(ca);
        std::vector<long> fw, bw, cw;
        for (auto it = a.begin(); it != a.end(); it++) fw.push_back(valueOf(*it));
        for (auto it = a.end(); it != a.begin();) { --it; bw.push_back(valueOf(*it)); }
        for (auto it = ca.cbegin(); it < ca.cend(); it += 1) cw.push_back(valueOf(*it));
        std::reverse(bw.begin(), bw.end());
        bool same = f == c && fw == bw && fw == cw;
        std::string r = same ? f : "l=iteration-mismatch";
        return op == "peek" ? (reg().delta(), reg().error.clear(), r) : finish(r);
    }
    if (op == "it") {
        const Arr &ca = a;
        auto val = [](const Elem &e) { return valueOf(e); };
        std::string r = (num(2) & 1) ? verif::iterScript([&] { return ca.cbegin(); }, val, t, 2)
                                     : verif::iterScript([&] { return a.begin(); }, val, t, 2);
        return finish(r);
    }
    if (op == "len") {
        bool ok = a.empty() == (a.size() == 0) && (size_t) std::distance(a.begin(), a.end()) == a.size()
                  && (size_t) (a.end() - a.begin()) == a.size();
        return finish(ok ? "n=" + std::to_string(a.size()) : "n=size-mismatch");
    }
    if (op == "front") return finish("v=" + std::to_string(valueOf(a.front())));
    if (op == "back") return finish("v=" + std::to_string(valueOf(a.back())));
    if (op == "drop") { delete &a; slot(1) = nullptr; return finish("ok"); }
    return "bad-op";
}

int main() {
    std::ios::sync_with_stdio(false);
    std::string line;
    while (std::getline(std::cin, line)) {
        verif::paintLine(line);   // painted `new` (harness/painted.h)
        std::istringstream is(line);
        std::vector<std::string> t;
        std::string w;
        while (is >> w) t.push_back(w);
        if (t.empty()) { std::cout << "\n"; continue; }
        if (t[0] != "arr") { std::cout << "bad-component\n"; continue; }
        t.erase(t.begin());
        std::string r;
        try { r = run(t); } catch (const std::exception &e) { r = std::string("!BAD_VAR"); }
        std::cout << r << "\n" << std::flush;
    }
    for (auto *p : vars) delete p;
    return 0;
}
