// Line-protocol interpreter for the real tulz::RingBuffer (compiled from the working tree).
// Reads `rb <op> <args…>` lines on stdin and prints one canonical line per operation, in the
// same format as the Lean driver (lean/Tulz/Drv/Rb.lean).  Built with -DELEM_LONG (or -DELEM_DOUBLE) it runs
// RingBuffer<long, ·> (no lifetime information), otherwise RingBuffer<verif::Tracked, ·>.
#include <tulz/container/RingBuffer.h>

#include <cstdio>
#include <cstdlib>
#include <iostream>
#include <map>
#include <sstream>
#include <string>
#include <vector>

#include "../tracked.h"
#include "../iter_script.h"
#define VERIF_PAINT_NEW 1
#include "../painted.h"

using verif::reg;

#if defined(ELEM_LONG)
using Elem = long;
static long valueOf(const Elem &e) { return e; }
static Elem mk(long v) { return v; }
static long mkArg(long v) { return v; }
#elif defined(ELEM_DOUBLE)
// an arithmetic type in which equal values need not be bitwise equal: protocol value 0 is stored alternately as -0.0 and
// +0.0 (both ARE the value 0: a bounded deque of doubles holding them compares equal)
#define ELEM_LONG 1
using Elem = double;
static long valueOf(const Elem &e) { return (long) e; }
static long g_zeroes = 0;
static Elem mk(long v) { return v == 0 ? ((++g_zeroes & 1) ? -0.0 : 0.0) : (double) v; }
static double mkArg(long v) { return mk(v); }
#elif defined(ELEM_TMOVE)
// the tracked element type with a move constructor that is not noexcept
using Elem = verif::TrackedM;
static long valueOf(const Elem &e) { return e.value(); }
static Elem mk(long v) { return verif::TrackedM(v); }
static long mkArg(long v) { return v; }
#else
using Elem = verif::Tracked;
static long valueOf(const Elem &e) { return e.value(); }
static Elem mk(long v) { return verif::Tracked(v); }
static long mkArg(long v) { return v; }
#endif

using RB0 = tulz::RingBuffer<Elem, false>;
using RB1 = tulz::RingBuffer<Elem, true>;

struct Obj {
    bool ow = false;
    RB0 *a = nullptr;
    RB1 *b = nullptr;
};

static std::map<long, Obj> store;

template<typename F> static auto with(Obj &o, F &&f) { return o.ow ? f(*o.b) : f(*o.a); }

static void destroyObj(Obj &o) {
    if (o.ow) delete o.b; else delete o.a;
    o.a = nullptr; o.b = nullptr;
}

static std::string finish(const std::string &res) {
    std::string d = reg().delta();
    if (!reg().error.empty()) {
        std::string e = "!" + reg().error;
        reg().error.clear();
        return e;
    }
#ifdef ELEM_LONG
    return res + " | d:?";
#else
    return res + " | " + d;
#endif
}

template<typename RB> static std::string iterList(RB &rb) {
    std::string r = "l=";
    bool first = true;
    for (auto &e : rb) { r += (first ? "" : " ") + std::to_string(valueOf(e)); first = false; }
    return r;
}

static std::string run(const std::vector<std::string> &t) {
    auto num = [&](size_t i) { return std::stol(t.at(i)); };
    const std::string &op = t.at(0);

    if (op == "reset") {
        for (auto &[id, o] : store) destroyObj(o);
        store.clear();
        reg().reset();
        return "ok";
    }
    if (op == "live") return reg().liveList();

    if (op == "new") {
        Obj o; o.ow = t.at(3) == "1";
        if (o.ow) o.b = new RB1(num(2)); else o.a = new RB0(num(2));
        store[num(1)] = o;
        return finish("ok");
    }
    if (op == "init") {
        // only the sizes 1..4 are generated (initializer_list needs a literal shape)
        Obj o; o.ow = t.at(2) == "1";
        std::vector<long> v;
        for (size_t i = 4; i < t.size(); ++i) v.push_back(num(i));
        bool dflt = t.at(3) == "-";
        size_t cap = dflt ? 0 : (size_t) num(3);
        auto make = [&](auto tag) {
            using RB = typename decltype(tag)::type;
            // the elements of an initializer_list are const: the same list OBJECT is used for two buffers; the second one (gone
            // before the operation ends: net lifetime change = one construction) has to hold the same values as the first
            auto fromList = [&](std::initializer_list<Elem> il) {
                RB *first = dflt ? new RB(il) : new RB(il, cap);
                {
                    RB second(il);
                    bool same = second.size() == first->size();
                    for (size_t i = 0; same && i < second.size(); ++i) same = valueOf(second[i]) == valueOf((*first)[i]);
                    if (!same) reg().fail("INIT_LIST_CONSUMED");
                }
                return first;
            };
            // the temporaries of the initializer_list die at the end of the full expression
            switch (v.size()) {
                case 1: return dflt ? new RB({mk(v[0])}) : new RB({mk(v[0])}, cap);
                case 2: return fromList({mk(v[0]), mk(v[1])});
                case 3: return dflt ? new RB({mk(v[0]), mk(v[1]), mk(v[2])})
                                    : new RB({mk(v[0]), mk(v[1]), mk(v[2])}, cap);
                default: return fromList({mk(v[0]), mk(v[1]), mk(v[2]), mk(v[3])});
            }
        };
        if (o.ow) o.b = make(std::type_identity<RB1>{}); else o.a = make(std::type_identity<RB0>{});
        store[num(1)] = o;
        return finish("ok");
    }

    if (op == "copy" || op == "mctor") {
        Obj &src = store.at(num(2));
        Obj n; n.ow = src.ow;
        if (op == "copy") { if (src.ow) n.b = new RB1(*src.b); else n.a = new RB0(*src.a); }
        else { if (src.ow) n.b = new RB1(std::move(*src.b)); else n.a = new RB0(std::move(*src.a)); }
        store[num(1)] = n;
        return finish("ok");
    }
    Obj &o = store.at(num(1));

    if (op == "pb") return with(o, [&](auto &rb) { long v = num(2); Elem &r = rb.push_back(mk(v)); std::string s = "v=" + std::to_string(valueOf(r)); return finish(s); });
    if (op == "pf") return with(o, [&](auto &rb) { long v = num(2); Elem &r = rb.push_front(mk(v)); std::string s = "v=" + std::to_string(valueOf(r)); return finish(s); });
    // emplace_*(args...) with every argument shape (chosen by the value, so a case always takes the same route): no argument
    // (value 0 = the default-constructed element), two arguments of different types, one lvalue, one rvalue
    if (op == "eb") return with(o, [&](auto &rb) {
        long v = num(2);
#if !defined(ELEM_LONG)
        Elem &r = v == 0 ? rb.emplace_back() : v % 3 == 0 ? rb.emplace_back(v - 3, 3) : v % 3 == 1 ? rb.emplace_back(v) : rb.emplace_back(mkArg(v));
#else
        Elem &r = rb.emplace_back(mkArg(v));
#endif
        std::string s = "v=" + std::to_string(valueOf(r)); return finish(s); });
    if (op == "ef") return with(o, [&](auto &rb) {
        long v = num(2);
#if !defined(ELEM_LONG)
        Elem &r = v == 0 ? rb.emplace_front() : v % 3 == 0 ? rb.emplace_front(v - 3, 3) : v % 3 == 1 ? rb.emplace_front(v) : rb.emplace_front(mkArg(v));
#else
        Elem &r = rb.emplace_front(mkArg(v));
#endif
        std::string s = "v=" + std::to_string(valueOf(r)); return finish(s); });
    // aliasing pushes: the argument refers to an element of the buffer itself (push_back(rb[i]) is valid use)
    if (op == "pbs") return with(o, [&](auto &rb) { Elem &r = rb.push_back(rb[(size_t) num(2)]); std::string s = "v=" + std::to_string(valueOf(r)); return finish(s); });
    if (op == "pfs") return with(o, [&](auto &rb) { Elem &r = rb.push_front(rb[(size_t) num(2)]); std::string s = "v=" + std::to_string(valueOf(r)); return finish(s); });
    if (op == "ebs") return with(o, [&](auto &rb) { Elem &r = rb.emplace_back(rb[(size_t) num(2)]); std::string s = "v=" + std::to_string(valueOf(r)); return finish(s); });
    if (op == "efs") return with(o, [&](auto &rb) { Elem &r = rb.emplace_front(rb[(size_t) num(2)]); std::string s = "v=" + std::to_string(valueOf(r)); return finish(s); });
    if (op == "popb") return with(o, [&](auto &rb) { std::string s; { Elem r = rb.pop_back(); s = "v=" + std::to_string(valueOf(r)); } return finish(s); });
    if (op == "popf") return with(o, [&](auto &rb) { std::string s; { Elem r = rb.pop_front(); s = "v=" + std::to_string(valueOf(r)); } return finish(s); });
    if (op == "front") return with(o, [&](auto &rb) { return finish("v=" + std::to_string(valueOf(rb.front()))); });
    if (op == "back") return with(o, [&](auto &rb) { return finish("v=" + std::to_string(valueOf(rb.back()))); });
    if (op == "get") return with(o, [&](auto &rb) {
        const auto &crb = rb;   // exercise both overloads
        long a = valueOf(rb[num(2)]), b = valueOf(crb[num(2)]);
        return finish(a == b ? "v=" + std::to_string(a) : "v=const-mismatch");
    });
    if (op == "iter") return with(o, [&](auto &rb) {
        const auto &crb = rb;
        std::string a = iterList(rb), b = iterList(crb);
        // reverse walk through operator-- / operator[] of the iterator
        std::vector<long> fw, bw;
        for (auto it = rb.begin(); it != rb.end(); ++it) fw.push_back(valueOf(*it));
        for (auto it = rb.end(); it != rb.begin();) { --it; bw.push_back(valueOf(*it)); }
        std::reverse(bw.begin(), bw.end());
        bool okEmpty = rb.empty() == (rb.size() == 0) && rb.full() == (rb.size() == rb.capacity());
        return finish(a == b && fw == bw && okEmpty ? a : "l=iteration-mismatch");
    });
    if (op == "it") return with(o, [&](auto &rb) {
        // odd start positions go through the const container (the const_iterator instantiation)
        const auto &crb = rb;
        auto val = [](const Elem &e) { return valueOf(e); };
        std::string r = (num(2) & 1) ? verif::iterScript([&] { return crb.begin(); }, val, t, 2)
                                     : verif::iterScript([&] { return rb.begin(); }, val, t, 2);
        return finish(r);
    });
    if (op == "size") return with(o, [&](auto &rb) { return finish("n=" + std::to_string(rb.size())); });
    if (op == "cap") return with(o, [&](auto &rb) { return finish("n=" + std::to_string(rb.capacity())); });
    if (op == "resize") return with(o, [&](auto &rb) { rb.resize(num(2)); return finish("ok"); });
    if (op == "drop") { destroyObj(o); store.erase(num(1)); return finish("ok"); }

    if (op == "cassign" || op == "massign") {
        Obj &src = store.at(num(2));
        if (src.ow != o.ow) return "bad-op";
        if (op == "cassign") { if (o.ow) *o.b = *src.b; else *o.a = *src.a; }
        else { if (o.ow) *o.b = std::move(*src.b); else *o.a = std::move(*src.a); }
        return finish("ok");
    }
    if (op == "eq") {
        Obj &p = store.at(num(2));
        bool r = with(o, [&](auto &x) { return with(p, [&](auto &y) { return x == y; }); });
        return finish(r ? "b=1" : "b=0");
    }
    return "bad-op";
}

int main() {
    std::ios::sync_with_stdio(false);
    std::string line;
    while (std::getline(std::cin, line)) {
        verif::paintLine(line);   // painted `new` (harness/painted.h)
        std::istringstream is(line);
        std::vector<std::string> t;
        std::string w;
        while (is >> w) t.push_back(w);
        if (t.empty()) { std::cout << "\n"; continue; }
        if (t[0] != "rb") { std::cout << "bad-component\n"; continue; }
        t.erase(t.begin());
        std::cout << run(t) << "\n" << std::flush;
    }
    return 0;
}
