// Drives the real tulz::rwp::Resource (Resource.cpp compiled from the working tree through the token remap)
// under the controlled scheduler.  One execution per input line:
//
//   run <progs> seed <n> [pts]          random schedule from seed n
//   run <progs> sched <t0 t1 …> [pts]   explicit schedule (thread ids chosen at successive scheduling points,
//                                       then: keep running the current thread, else the lowest enabled)
//
// <progs> = comma separated per-thread programs over
//   R / W   lockRead..unlockRead / lockWrite..unlockWrite through the raw calls
//   r / w   the same through the ReadLock / WriteLock guards
//   b       (after R: "Rb") a read section in which the thread waits until every `Rb` reader of the
//           program is inside its read section at the same time (rendezvous, C12)
//   N       a read section on the Resource under test taken while the thread holds a read lock on a SECOND, unrelated
//           Resource (only ever read-locked, so it never blocks): locks of different Resources must not influence each other
//   H       a write section that is held until every `Rb` reader has queued up behind it; when a program
//           contains H the `Rb` readers issue their request only while H holds the lock, so that they
//           form one batch of consecutive read requests behind a writer
// After all threads have finished, thread 0 probes the idle state: a write then a read section must be granted without parking.
//
// Output: one line per event, then `end ok|deadlock|hang`.
//   call t k | ret t | in t k | ucall t | uret t | done t | EXCL t …   (harness)
//   lock t mX | unlock t mX | park t cX | notify t cX all|one w… | spawn p c | exit t | joined p c   (scheduler)
#include <tulz/threading/rwp/Resource.h>
#include <tulz/threading/rwp/ReadLock.h>
#include <tulz/threading/rwp/WriteLock.h>

#include "../painted.h"

using tulz::rwp::Resource;
using verif::ev;

static int readersIn = 0, writersIn = 0, barrierTarget = 0, barrierIn = 0;
static bool hasH = false, hHolding = false, hLeaving = false, crowd = false;
static int holdTarget = 0;
static int warpBits = 0;

static int parkedCount() { int n = 0; for (auto &t : verif::Sched::I().ts) if (t.st == verif::Sched::PARKED) n++; return n; }

static void enter(int t, char k) {
    if (k == 'R') { readersIn++; if (writersIn) ev("EXCL " + std::to_string(t) + " reader-with-writer"); }
    else { writersIn++; if (writersIn > 1 || readersIn) ev("EXCL " + std::to_string(t) + " writer-not-alone"); }
    ev("in " + std::to_string(t) + " " + k);
}
static void leave(char k) { if (k == 'R') readersIn--; else writersIn--; }

static Resource *g_other = nullptr;

static void section(Resource &res, int t, char op, bool barrier) {
    // sections of the Resource under test taken while the thread holds a lock of the unrelated Resource `other`:
    //   N = other.read { res.read }   O = other.write { res.read }   P = other.read { res.write }   M = other.write { res.write }
    if (op == 'N' || op == 'O' || op == 'P' || op == 'M') {
        bool ow = op == 'O' || op == 'M';
        if (ow) g_other->lockWrite(); else g_other->lockRead();
        section(res, t, (op == 'N' || op == 'O') ? 'R' : 'W', false);
        if (ow) g_other->unlockWrite(); else g_other->unlockRead();
        return;
    }
    // Q = res.read { res.read { other.read {} } }: a read section nested in a read section of the SAME Resource by the same
    // thread (legitimate while no writer is around: generated in writer-free programs only), with a read section of the
    // other Resource inside.  Every lock is released by the thread that took it, innermost first.
    if (op == 'Q') {
        std::string ts = std::to_string(t);
        ev("call " + ts + " R");
        res.lockRead();
        ev("ret " + ts);
        enter(t, 'R');
        res.lockRead();
        g_other->lockRead();
        verif::yield();
        g_other->unlockRead();
        res.unlockRead();
        leave('R');
        ev("ucall " + ts);
        res.unlockRead();
        ev("uret " + ts);
        return;
    }
    // L = a late reader: it issues its request only when the holder's condition for leaving is already met (holdTarget requests
    // parked), so its call is observably later than those requests' parking
    if (op == 'L') { verif::await([] { return hHolding && (hLeaving || parkedCount() >= holdTarget); }); op = 'R'; }
    // V = a late WRITER (same arrival rule as L): its request reaches the queue around the moment the holder hands over, i.e. when
    // entries have already been admitted from the front of the queue while others are still waiting in it
    if (op == 'V') { verif::await([] { return hHolding && (hLeaving || parkedCount() >= holdTarget); }); op = 'W'; }
    char k = (op == 'R' || op == 'r') ? 'R' : 'W';
    std::string ts = std::to_string(t);
    bool hold = op == 'H';
    if (hold) op = 'W';
    if (barrier && hasH) verif::await([] { return hHolding; });
    // crowd programs (`H` and no rendezvous): every other thread issues its request only while H holds, so that all of them
    // queue up behind it — queue lengths far beyond what small programs reach
    if (crowd && !hold) verif::await([] { return hHolding; });
    ev("call " + ts + " " + k);
    if (op == 'R' || op == 'W') {
        if (k == 'R') res.lockRead(); else res.lockWrite();
        ev("ret " + ts);
        enter(t, k);
        if (barrier) { barrierIn++; verif::await([] { return barrierIn >= barrierTarget; }); }
        else if (hold) {
            if (warpBits && t == 0) {
                // the Resource has been busy for a very long time: holder active, queue empty, 2^bits - 3 requests have queued since it
                // was last idle (a state every sufficiently long history without an idle moment reaches; ids only ever matter
                // relative to each other).  The next few requests cross the 2^bits boundary of the id counters.
                // (a Resource that has no such counters any more simply starts from its own state: the run is an ordinary crowd)
                [](auto &r, int bits) {
                    if constexpr (requires { r.m_idCounter; r.m_upperUnlockBound; }) {
                        using Id = std::remove_reference_t<decltype(r.m_idCounter)>;
                        r.m_idCounter = r.m_upperUnlockBound = static_cast<Id>((1ull << bits) - 3);
                    }
                }(res, warpBits);
            }
            hHolding = true; verif::await([] { return parkedCount() >= holdTarget; });
            hLeaving = true;
        }
        else verif::yield();
        leave(k);
        ev("ucall " + ts);
        if (k == 'R') res.unlockRead(); else res.unlockWrite();
        ev("uret " + ts);
    } else if (k == 'R') {
        tulz::rwp::ReadLock g(res);
        ev("ret " + ts);
        enter(t, k);
        verif::yield();
        leave(k);
        ev("ucall " + ts);
    } else {
        tulz::rwp::WriteLock g(res);
        ev("ret " + ts);
        enter(t, k);
        verif::yield();
        leave(k);
        ev("ucall " + ts);
    }
    if (op == 'r' || op == 'w') ev("uret " + ts);
}

static unsigned char g_paint = 0;

static void runOne(const std::vector<std::string> &progsIn) {
    // both Resources live in painted storage (harness/painted.h): a member left uninitialised by a constructor has a known value
    verif::Painted<Resource> resBox(g_paint), otherBox(g_paint);
    Resource &res = *resBox, &other = *otherBox;
    g_other = &other;
    {
        // stable ids: the Resource under test is m0 / c1, the unrelated one m2 / c3 (the trace analysis looks at m0 / c1 only)
        auto &S = verif::Sched::I();
        std::unique_lock<decltype(S.G)> lk(S.G);
        verif::registerResourceIds(S, res); verif::registerResourceIds(S, other);
    }
    warpBits = 0;
    std::vector<std::string> progs = progsIn;
    if (!progs.empty() && !progs[0].empty() && progs[0][0] == '@') { warpBits = std::atoi(progs[0].c_str() + 1); progs.erase(progs.begin()); }
    readersIn = writersIn = barrierIn = 0;
    barrierTarget = 0; hasH = false; hHolding = false; hLeaving = false;
    for (auto &p : progs) for (char c : p) { if (c == 'b') barrierTarget++; if (c == 'H') hasH = true; }
    if (warpBits) hasH = true;
    crowd = hasH && barrierTarget == 0;
    holdTarget = crowd ? (int) progs.size() - (warpBits ? 0 : 1) : barrierTarget;
    // `H<k>`: the holder leaves as soon as k requests are parked, while later ones may still be on their way into the queue
    for (auto &p : progs) if (p.size() > 1 && p[0] == 'H' && std::isdigit((unsigned char) p[1])) { holdTarget = std::atoi(p.c_str() + 1); p = "H"; }
    std::vector<std::unique_ptr<std::thread>> ths;
    for (size_t i = 0; i < progs.size(); i++) {
        std::string p = progs[i];
        ths.emplace_back(new std::thread([&res, p] {
            int t = verif::self();
            for (size_t j = 0; j < p.size(); j++) {
                if (p[j] == 'b') continue;
                bool barrier = j + 1 < p.size() && p[j + 1] == 'b';
                section(res, t, p[j], barrier);
            }
            ev("done " + std::to_string(t));
        }));
    }
    if (warpBits) section(res, 0, 'H', false);          // `@<bits>`: the main thread is the long-time holder
    for (auto &t : ths) t->join();
    // idle-state probe (C02): with everything released the next requests are granted without waiting
    ev("probe");
    section(res, 0, 'W', false);
    section(res, 0, 'R', false);
}

int main() {
    setvbuf(stdout, nullptr, _IOLBF, 0);
    verif::start_watchdog(20);
    std::string line;
    while (std::getline(std::cin, line)) {
        std::istringstream is(line);
        std::string cmd, progsS, mode;
        is >> cmd >> progsS >> mode;
        if (cmd != "run") { std::puts("bad-op"); continue; }
        std::vector<std::string> progs;
        { std::string cur; for (char c : progsS) { if (c == ',') { progs.push_back(cur); cur.clear(); } else cur += c; } progs.push_back(cur); }
        std::vector<int> script; uint64_t seed = 1; bool pts = false;
        std::string tok;
        std::vector<std::string> rest; while (is >> tok) rest.push_back(tok);
        if (!rest.empty() && rest.back() == "pts") { pts = true; rest.pop_back(); }
        if (mode == "seed") seed = std::stoull(rest.at(0));
        else for (auto &x : rest) script.push_back(std::stoi(x));
        // the paint depends on the programs only, so that the explicit-schedule replay of an execution paints the same bytes
        g_paint = verif::paintFor(progsS);
        verif::Sched::I().begin(mode == "seed", seed, script, pts);
        runOne(progs);
        verif::Sched::I().end();
        std::puts("end ok");
    }
    return 0;
}
