import Tulz.Proofs.Router
/- observer ids stay pairwise different through every history whose subscriptions use fresh ids
   (premise of `C06_notify_ids_once`).  Core Lean only. -/
namespace Tulz.Router

variable {ρ : Type}

def subjIds : Option Subj → List Nat
  | none => []
  | some s => s.map (·.id)

/-- the ids of all observers stored at or below a node, in map order -/
def Node.ids (n : Node) : List Nat := n.flat.flatMap (fun e => subjIds e.2)

theorem allIds_eq (t : Node) : allIds t = t.ids := by
  unfold allIds Node.ids rFlat
  rw [List.flatMap_map]
  refine flatMap_congr' (fun e _ => ?_)
  cases e.2 <;> simp [subjIds]

theorem ids_eq (n : Node) : n.ids = subjIds n.subj ++ n.children.flatMap Node.ids := by
  unfold Node.ids
  rw [flat_eq]
  simp only [List.flatMap_cons, List.flatMap_assoc, List.flatMap_map]

theorem ids_withChildren (n : Node) (cs : List Node) : (n.withChildren cs).ids = subjIds n.subj ++ cs.flatMap Node.ids := by
  rw [ids_eq]; simp

theorem ids_withSubj (n : Node) (s : Option Subj) : (n.withSubj s).ids = subjIds s ++ n.children.flatMap Node.ids := by
  rw [ids_eq]; simp

/-! ### sublist lemmas -/

theorem sublist_flatMap_of_sublist {α β : Type} {l1 l2 : List α} (g : α → List β) (h : l1.Sublist l2) :
    (l1.flatMap g).Sublist (l2.flatMap g) := by
  induction h with
  | slnil => exact List.Sublist.refl _
  | cons a _ ih => rw [List.flatMap_cons]; exact List.Sublist.trans ih (List.sublist_append_right _ _)
  | cons_cons a _ ih => rw [List.flatMap_cons, List.flatMap_cons]; exact List.Sublist.append (List.Sublist.refl _) ih

theorem sublist_flatMap_map {α β : Type} (l : List α) (f : α → α) (g : α → List β)
    (h : ∀ c ∈ l, (g (f c)).Sublist (g c)) : ((l.map f).flatMap g).Sublist (l.flatMap g) := by
  induction l with
  | nil => exact List.Sublist.refl _
  | cons x l ih =>
    rw [List.map_cons, List.flatMap_cons, List.flatMap_cons]
    exact List.Sublist.append (h x List.mem_cons_self) (ih (fun c hc => h c (List.mem_cons_of_mem _ hc)))

theorem sublist_flatMap_updFirst {β : Type} (s : String) (f : Node → Node) (l : List Node) (g : Node → List β)
    (h : ∀ c ∈ l, (g (f c)).Sublist (g c)) : ((updFirst s f l).flatMap g).Sublist (l.flatMap g) := by
  induction l with
  | nil => exact List.Sublist.refl _
  | cons x l ih =>
    simp only [updFirst]
    split
    · rw [List.flatMap_cons, List.flatMap_cons]
      exact List.Sublist.append (h x List.mem_cons_self) (List.Sublist.refl _)
    · rw [List.flatMap_cons, List.flatMap_cons]
      exact List.Sublist.append (List.Sublist.refl _) (ih (fun c hc => h c (List.mem_cons_of_mem _ hc)))

theorem sublist_eraseEmpty {β : Type} (l : List Node) (g : Node → List β) :
    ((eraseEmpty l).flatMap g).Sublist (l.flatMap g) :=
  sublist_flatMap_of_sublist g List.filter_sublist

/-! ### every operation except subscribe only removes ids -/

theorem ids_notify_sublist {α : Type} (rm : ρ → String → Bool) (a : α) (p : List (Level ρ)) (cur : Level ρ) (n : Node) :
    (notify rm a p cur n).node.ids.Sublist n.ids := by
  induction p generalizing cur n with
  | nil =>
    simp only [notify]
    split
    · split
      · rename_i s hs
        rw [ids_withSubj, ids_eq n, hs]
        refine List.Sublist.append ?_ (List.Sublist.refl _)
        simp only [subjIds, Subj.afterNotify]
        exact List.Sublist.map _ List.filter_sublist
      · exact List.Sublist.refl _
    · exact List.Sublist.refl _
  | cons nxt rest ih =>
    simp only [notify]
    split
    · cases nxt with
      | re r =>
        simp only [List.map_map]
        rw [ids_withChildren, ids_eq n]
        refine List.Sublist.append (List.Sublist.refl _) ?_
        exact sublist_flatMap_map _ _ _ (fun c _ => ih _ c)
      | str s =>
        simp only []
        split
        · simp only []
          rw [ids_withChildren, ids_eq n]
          refine List.Sublist.append (List.Sublist.refl _) ?_
          exact sublist_flatMap_updFirst _ _ _ _ (fun c _ => ih _ c)
        · exact List.Sublist.refl _
    · exact List.Sublist.refl _

theorem ids_shrink_sublist (rm : ρ → String → Bool) (p : List (Level ρ)) (cur : Level ρ) (n : Node) :
    (shrink rm p cur n).ids.Sublist n.ids := by
  induction p generalizing cur n with
  | nil =>
    simp only [shrink]
    split
    · rw [ids_withChildren, ids_eq n]
      exact List.Sublist.append (List.Sublist.refl _) (sublist_eraseEmpty _ _)
    · exact List.Sublist.refl _
  | cons nxt rest ih =>
    simp only [shrink]
    split
    · cases nxt with
      | re r =>
        simp only []
        rw [ids_withChildren, ids_eq n]
        refine List.Sublist.append (List.Sublist.refl _) ?_
        exact List.Sublist.trans (sublist_eraseEmpty _ _) (sublist_flatMap_map _ _ _ (fun c _ => ih _ c))
      | str s =>
        simp only []
        rw [ids_withChildren, ids_eq n]
        refine List.Sublist.append (List.Sublist.refl _) ?_
        exact List.Sublist.trans (sublist_eraseEmpty _ _) (sublist_flatMap_updFirst _ _ _ _ (fun c _ => ih _ c))
    · exact List.Sublist.refl _

theorem ids_modifySubjAt_sublist (f : Subj → Subj) (hf : ∀ s : Subj, (subjIds (some (f s))).Sublist (subjIds (some s)))
    (key : List String) (n : Node) : (modifySubjAt f key n).ids.Sublist n.ids := by
  induction key generalizing n with
  | nil =>
    simp only [modifySubjAt]
    split
    · rename_i s hs
      rw [ids_withSubj, ids_eq n, hs]
      exact List.Sublist.append (hf s) (List.Sublist.refl _)
    · exact List.Sublist.refl _
  | cons k ks ih =>
    simp only [modifySubjAt]
    rw [ids_withChildren, ids_eq n]
    refine List.Sublist.append (List.Sublist.refl _) ?_
    exact sublist_flatMap_updFirst _ _ _ _ (fun c _ => ih c)

theorem unsubscribe_ids (id : Nat) (s : Subj) : (subjIds (some (s.unsubscribe id))).Sublist (subjIds (some s)) := by
  simp only [subjIds, Subj.unsubscribe]
  exact List.Sublist.map _ List.filter_sublist

theorem invalidate_ids (id : Nat) (s : Subj) : (subjIds (some (s.invalidate id))).Sublist (subjIds (some s)) := by
  have : subjIds (some (s.invalidate id)) = subjIds (some s) := by
    simp only [subjIds, Subj.invalidate, List.map_map]
    refine List.map_congr_left (fun o _ => ?_)
    simp only [Function.comp]
    split <;> rfl
  rw [this]
  exact List.Sublist.refl _

/-! ### subscribe adds exactly the new id -/

theorem flatMap_ids_insertSorted (name : String) (l : List Node) :
    (insertSorted name l).flatMap Node.ids = l.flatMap Node.ids := by
  have hfresh : (Node.fresh name).ids = [] := by rw [ids_eq]; simp [Node.fresh, subjIds]
  induction l with
  | nil => simp [insertSorted, hfresh]
  | cons c cs ih =>
    simp only [insertSorted]
    split
    · rw [List.flatMap_cons, hfresh, List.nil_append]
    · rw [List.flatMap_cons, List.flatMap_cons, ih]

theorem flatMap_ids_insertChild (name : String) (l : List Node) :
    (insertChild name l).flatMap Node.ids = l.flatMap Node.ids := by
  unfold insertChild
  split
  · rfl
  · exact flatMap_ids_insertSorted name l

theorem exists_named_insertChild (name : String) (l : List Node) : ∃ c ∈ insertChild name l, c.name = name := by
  unfold insertChild
  split
  · rename_i h
    cases hf : findChild name l with
    | none => simp [hf] at h
    | some c => exact ⟨c, (findChild_some hf).1, (findChild_some hf).2⟩
  · exact ⟨Node.fresh name, mem_insertSorted.mpr (.inl rfl), rfl⟩

theorem perm_flatMap_updFirst (id : Nat) (s : String) (f : Node → Node) (l : List Node)
    (hex : ∃ c ∈ l, c.name = s) (hf : ∀ c, (f c).ids.Perm (id :: c.ids)) :
    ((updFirst s f l).flatMap Node.ids).Perm (id :: l.flatMap Node.ids) := by
  induction l with
  | nil => obtain ⟨c, hc, _⟩ := hex; cases hc
  | cons x l ih =>
    simp only [updFirst]
    split
    · rw [List.flatMap_cons, List.flatMap_cons]
      exact (hf x).append_right _
    · rename_i hne
      rw [List.flatMap_cons, List.flatMap_cons]
      have hex' : ∃ c ∈ l, c.name = s := by
        obtain ⟨c, hc, hcs⟩ := hex
        cases List.mem_cons.mp hc with
        | inl e => subst e; simp [hcs] at hne
        | inr m => exact ⟨c, m, hcs⟩
      exact ((ih hex').append_left x.ids).trans List.perm_middle

theorem ids_subscribeHere (id : Nat) (n : Node) : (subscribeHere id n).ids.Perm (id :: n.ids) := by
  simp only [subscribeHere]
  split
  · rename_i hs
    rw [ids_withSubj, ids_eq n, hs]
    simp [subjIds, Subj.subscribe]
  · rename_i s hs
    rw [ids_withSubj, ids_eq n, hs]
    simp only [subjIds, Subj.subscribe, List.map_append, List.map_cons, List.map_nil, List.append_assoc, List.cons_append,
      List.nil_append]
    exact List.perm_middle

theorem ids_subscribe (id : Nat) (key : List String) (n : Node) : (subscribe id key n).ids.Perm (id :: n.ids) := by
  unfold subscribe
  induction key generalizing n with
  | nil => exact ids_subscribeHere id n
  | cons k ks ih =>
    simp only [lookupModify]
    rw [ids_withChildren, ids_eq n]
    have h1 := perm_flatMap_updFirst id k (lookupModify (subscribeHere id) ks) (insertChild k n.children)
      (exists_named_insertChild k n.children) ih
    rw [flatMap_ids_insertChild] at h1
    exact (h1.append_left (subjIds n.subj)).trans List.perm_middle

/-! ### histories with fresh subscription ids -/

/-- every subscribe uses an id that was not used before (`used` = ids handed out so far) -/
def FreshIds : List Nat → List (Op ρ) → Prop
  | _, [] => True
  | used, .subscribe _ id :: ops => id ∉ used ∧ FreshIds (id :: used) ops
  | used, .unsubscribe _ _ :: ops => FreshIds used ops
  | used, .invalidate _ _ :: ops => FreshIds used ops
  | used, .shrink _ :: ops => FreshIds used ops
  | used, .notify _ :: ops => FreshIds used ops

theorem run_ids (rm : ρ → String → Bool) (ops : List (Op ρ)) (t t' : Node) (used : List Nat)
    (hnd : t.ids.Nodup) (hsub : ∀ x ∈ t.ids, x ∈ used) (hfresh : FreshIds used ops)
    (hr : run rm t ops = some t') : t'.ids.Nodup := by
  induction ops generalizing t used with
  | nil => simp only [run, Option.some.injEq] at hr; exact hr ▸ hnd
  | cons op ops ih =>
    -- a step that only removes ids keeps both facts
    have shrinkStep : ∀ t1 : Node, t1.ids.Sublist t.ids → FreshIds used ops → run rm t1 ops = some t' → t'.ids.Nodup :=
      fun t1 hs hf hr1 => ih t1 used (hs.nodup hnd) (fun x hx => hsub x (hs.subset hx)) hf hr1
    cases op with
    | subscribe key id =>
      simp only [run, applyOp, rSubscribe] at hr
      obtain ⟨hid, hf⟩ := hfresh
      have hp := ids_subscribe id key t
      refine ih _ (id :: used) ?_ ?_ hf hr
      · rw [hp.nodup_iff, List.nodup_cons]
        exact ⟨fun hmem => hid (hsub id hmem), hnd⟩
      · intro x hx
        rcases List.mem_cons.mp (hp.mem_iff.mp hx) with rfl | m
        · exact List.mem_cons_self
        · exact List.mem_cons_of_mem _ (hsub x m)
    | unsubscribe key id =>
      have hf : FreshIds used ops := hfresh
      simp only [run, applyOp] at hr
      split at hr
      · rename_i t1 hop
        split at hop
        · cases hop
        · split at hop
          · simp only [Except.ok.injEq] at hop
            exact shrinkStep t1 (hop ▸ ids_modifySubjAt_sublist _ (unsubscribe_ids id) key t) hf hr
          · cases hop
      · exact ih t used hnd hsub hf hr
      · cases hr
    | invalidate key id =>
      have hf : FreshIds used ops := hfresh
      simp only [run, applyOp] at hr
      split at hr
      · rename_i t1 hop
        split at hop
        · cases hop
        · split at hop
          · simp only [Except.ok.injEq] at hop
            exact shrinkStep t1 (hop ▸ ids_modifySubjAt_sublist _ (invalidate_ids id) key t) hf hr
          · cases hop
      · exact ih t used hnd hsub hf hr
      · cases hr
    | shrink p =>
      have hf : FreshIds used ops := hfresh
      simp only [run, applyOp, rShrink] at hr
      exact shrinkStep _ (ids_shrink_sublist rm p _ t) hf hr
    | notify p =>
      have hf : FreshIds used ops := hfresh
      simp only [run, applyOp, rNotify] at hr
      exact shrinkStep _ (ids_notify_sublist rm () p _ t) hf hr

theorem emptyRouter_ids : (emptyRouter : Node).ids = [] := by
  rw [ids_eq]; simp [emptyRouter, Node.fresh, subjIds]

/-- on a fresh router, after any history whose subscribe operations use ids not used before, all stored observer ids
are pairwise different -/
theorem history_ids_nodup (rm : ρ → String → Bool) (ops : List (Op ρ)) (t : Node) (hfresh : FreshIds [] ops)
    (hr : run rm emptyRouter ops = some t) : (allIds t).Nodup := by
  rw [allIds_eq]
  refine run_ids rm ops emptyRouter t [] ?_ ?_ hfresh hr
  · rw [emptyRouter_ids]; exact List.nodup_nil
  · rw [emptyRouter_ids]; intro x hx; cases hx

end Tulz.Router
