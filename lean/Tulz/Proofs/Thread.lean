import Tulz.Model.Thread
/-
  Lemmas for C20: the inductive invariant of the Thread model (every lifetime flag and counter is a function of the two
  program counters; the counters are compatible), safety of every access under a safe capture table, progress and a
  decreasing measure, and the witness run for the by-reference capture.
-/
namespace Thread

/-! ### what the program counters determine -/

def frameLive : SPc → Bool
  | .buildClosure | .spawn | .returnFromStart => true
  | _ => false

def closureBuilt : SPc → Bool
  | .evalArgs | .buildClosure => false
  | _ => true

def wEntered : WPc → Bool       -- the callable / run() has been entered
  | .inside | .delete | .setFinished | .exit | .ended => true
  | _ => false

def wReturned : WPc → Bool      -- … has returned
  | .delete | .setFinished | .exit | .ended => true
  | _ => false

def wPastDelete : WPc → Bool
  | .setFinished | .exit | .ended => true
  | _ => false

def wFlagSet : WPc → Bool
  | .exit | .ended => true
  | _ => false

def sNotDone : SPc → Bool
  | .done => false
  | _ => true

def wNotEnded : WPc → Bool
  | .ended => false
  | _ => true

def wIsUnborn : WPc → Bool
  | .unborn => true
  | _ => false

/-- compatible pairs: the new thread exists exactly after `spawn`; the starter is past `join` only when the thread has ended -/
def compat : SPc → WPc → Bool
  | .evalArgs, w | .buildClosure, w | .spawn, w => wIsUnborn w
  | .joined, w | .done, w => !(wNotEnded w)
  | _, w => !(wIsUnborn w)

structure Inv (cfg : Cfg) (s : State) : Prop where
  compat : compat s.spc s.wpc = true
  kindpc : s.wpc = .delete → cfg.kind = .runnable
  frame : s.frameAlive = frameLive s.spc
  closure : s.closureAlive = (closureBuilt s.spc && wNotEnded s.wpc)
  scope : s.scopeAlive = sNotDone s.spc
  heap : s.heapAlive = (cfg.kind.isRunnable && !(wPastDelete s.wpc))
  fin : s.finished = wFlagSet s.wpc
  inv : s.invokes = if wEntered s.wpc then 1 else 0
  ret : s.returned = wReturned s.wpc
  des : s.destroys = if cfg.kind.isRunnable && wPastDelete s.wpc then 1 else 0
  saw : s.sawFinished = true → s.finished = true

theorem inv_init (cfg : Cfg) : Inv cfg (init cfg) := by
  constructor <;> simp [init, compat, frameLive, closureBuilt, wPastDelete, wFlagSet, wEntered, wReturned, sNotDone, wNotEnded, wIsUnborn]

@[simp] theorem touch_spc (s : State) (os) : (s.touch os).spc = s.spc := rfl
@[simp] theorem touch_wpc (s : State) (os) : (s.touch os).wpc = s.wpc := rfl
@[simp] theorem touch_frameAlive (s : State) (os) : (s.touch os).frameAlive = s.frameAlive := rfl
@[simp] theorem touch_closureAlive (s : State) (os) : (s.touch os).closureAlive = s.closureAlive := rfl
@[simp] theorem touch_scopeAlive (s : State) (os) : (s.touch os).scopeAlive = s.scopeAlive := rfl
@[simp] theorem touch_heapAlive (s : State) (os) : (s.touch os).heapAlive = s.heapAlive := rfl
@[simp] theorem touch_finished (s : State) (os) : (s.touch os).finished = s.finished := rfl
@[simp] theorem touch_invokes (s : State) (os) : (s.touch os).invokes = s.invokes := rfl
@[simp] theorem touch_returned (s : State) (os) : (s.touch os).returned = s.returned := rfl
@[simp] theorem touch_destroys (s : State) (os) : (s.touch os).destroys = s.destroys := rfl
@[simp] theorem touch_sawFinished (s : State) (os) : (s.touch os).sawFinished = s.sawFinished := rfl


macro "thr_unfold" : tactic => `(tactic|
  simp_all [doEvalArgs, doBuildClosure, doSpawn, doReturnFromStart, doClobberFrame, doPoll, doJoin, doScopeExit,
    doBegin, doReadCallable, doInvokeBegin, doUseSelf, doUseArgs, doInvokeEnd, doDelete, doSetFinished, doExit,
    compat, frameLive, closureBuilt, wPastDelete, wFlagSet, wEntered, wReturned, afterInvoke, sNotDone, wNotEnded, wIsUnborn,
    Kind.isRunnable])


/-! ### the invariant is inductive (one lemma per step kind: the step pins one program counter, the other is split) -/

macro "thr_defs" : tactic => `(tactic|
  simp_all [doEvalArgs, doBuildClosure, doSpawn, doReturnFromStart, doClobberFrame, doPoll, doJoin, doScopeExit,
    doBegin, doReadCallable, doInvokeBegin, doUseSelf, doUseArgs, doInvokeEnd, doDelete, doSetFinished, doExit,
    compat, frameLive, closureBuilt, wPastDelete, wFlagSet, wEntered, wReturned, afterInvoke, sNotDone, wNotEnded, wIsUnborn,
    Kind.isRunnable, State.touch])

/-- starter step: `s.spc` is known, split the new thread's counter -/
macro "thr_starter" s:ident hi:ident hpc:ident : tactic => `(tactic|
  (obtain ⟨hc, hk, hf, hcl, hsc, hh, hfin, hinv, hret, hdes, hsaw⟩ := $hi
   rcases $s:ident with ⟨spc, wpc, fa, ca, sa, ha, fin, inv, ret, des, saw, bad⟩
   simp only at $hpc:ident hc hk hf hcl hsc hh hfin hinv hret hdes hsaw
   subst $hpc
   cases wpc <;> simp [compat, wIsUnborn, wNotEnded] at hc <;> (constructor <;> thr_defs)))

/-- new-thread step: `s.wpc` is known, split the starter's counter and the kind -/
macro "thr_worker" cfg:ident s:ident hi:ident hpc:ident : tactic => `(tactic|
  (obtain ⟨hc, hk, hf, hcl, hsc, hh, hfin, hinv, hret, hdes, hsaw⟩ := $hi
   rcases $s:ident with ⟨spc, wpc, fa, ca, sa, ha, fin, inv, ret, des, saw, bad⟩
   simp only at $hpc:ident hc hk hf hcl hsc hh hfin hinv hret hdes hsaw
   subst $hpc
   cases hkk : ($cfg:ident).kind <;> cases spc <;> simp [compat, wIsUnborn, wNotEnded] at hc <;> (constructor <;> thr_defs)))

variable {cfg : Cfg} {s : State}

theorem inv_evalArgs (hi : Inv cfg s) (h : s.spc = .evalArgs) : Inv cfg (doEvalArgs s) := by thr_starter s hi h
theorem inv_buildClosure (hi : Inv cfg s) (h : s.spc = .buildClosure) : Inv cfg (doBuildClosure cfg s) := by thr_starter s hi h
theorem inv_spawn (hi : Inv cfg s) (h : s.spc = .spawn) : Inv cfg (doSpawn s) := by thr_starter s hi h
theorem inv_returnFromStart (hi : Inv cfg s) (h : s.spc = .returnFromStart) : Inv cfg (doReturnFromStart s) := by thr_starter s hi h
theorem inv_clobberFrame (hi : Inv cfg s) (h : s.spc = .clobberFrame) : Inv cfg (doClobberFrame s) := by thr_starter s hi h
theorem inv_poll (hi : Inv cfg s) (h : s.spc = .working) : Inv cfg (doPoll s) := by thr_starter s hi h
theorem inv_join (hi : Inv cfg s) (h : s.spc = .working) (hw : s.wpc = .ended) : Inv cfg (doJoin s) := by
  obtain ⟨hc, hk, hf, hcl, hsc, hh, hfin, hinv, hret, hdes, hsaw⟩ := hi
  rcases s with ⟨spc, wpc, fa, ca, sa, ha, fin, inv, ret, des, saw, bad⟩
  simp only at h hw hc hk hf hcl hsc hh hfin hinv hret hdes hsaw
  subst h; subst hw
  constructor <;> thr_defs
theorem inv_scopeExit (hi : Inv cfg s) (h : s.spc = .joined) : Inv cfg (doScopeExit s) := by thr_starter s hi h

theorem inv_begin (hi : Inv cfg s) (h : s.wpc = .begin) : Inv cfg (doBegin s) := by thr_worker cfg s hi h
theorem inv_readCallable (hi : Inv cfg s) (h : s.wpc = .readCallable) : Inv cfg (doReadCallable cfg s) := by thr_worker cfg s hi h
theorem inv_invokeBegin (hi : Inv cfg s) (h : s.wpc = .invokeBegin) : Inv cfg (doInvokeBegin cfg s) := by thr_worker cfg s hi h
theorem inv_useSelf (hi : Inv cfg s) (h : s.wpc = .inside) : Inv cfg (doUseSelf cfg s) := by thr_worker cfg s hi h
theorem inv_useArgs (hi : Inv cfg s) (h : s.wpc = .inside) : Inv cfg (doUseArgs cfg s) := by thr_worker cfg s hi h
theorem inv_invokeEnd (hi : Inv cfg s) (h : s.wpc = .inside) : Inv cfg (doInvokeEnd cfg s) := by thr_worker cfg s hi h
theorem inv_delete (hi : Inv cfg s) (h : s.wpc = .delete) : Inv cfg (doDelete cfg s) := by thr_worker cfg s hi h
theorem inv_setFinished (hi : Inv cfg s) (h : s.wpc = .setFinished) : Inv cfg (doSetFinished cfg s) := by thr_worker cfg s hi h
theorem inv_exit (hi : Inv cfg s) (h : s.wpc = .exit) : Inv cfg (doExit s) := by thr_worker cfg s hi h

theorem inv_step {t : State} {l : Lbl} (hi : Inv cfg s) (h : Step cfg s l t) : Inv cfg t := by
  cases h with
  | evalArgs h => exact inv_evalArgs hi h
  | buildClosure h => exact inv_buildClosure hi h
  | spawn h => exact inv_spawn hi h
  | returnFromStart h => exact inv_returnFromStart hi h
  | clobberFrame h => exact inv_clobberFrame hi h
  | poll h => exact inv_poll hi h
  | join h hw => exact inv_join hi h hw
  | scopeExit h => exact inv_scopeExit hi h
  | begin h => exact inv_begin hi h
  | readCallable h => exact inv_readCallable hi h
  | invokeBegin h => exact inv_invokeBegin hi h
  | useSelf h => exact inv_useSelf hi h
  | useArgs h => exact inv_useArgs hi h
  | invokeEnd h => exact inv_invokeEnd hi h
  | delete h => exact inv_delete hi h
  | setFinished h => exact inv_setFinished hi h
  | exit h => exact inv_exit hi h

theorem reach_inv {cfg : Cfg} {s : State} (h : Reach cfg s) : Inv cfg s := by
  induction h with
  | init => exact inv_init cfg
  | step _ hs ih => exact inv_step ih hs


/-! ### under a safe capture table no step touches a dead object -/

theorem touch_badTouch (s : State) (os : List Obj) (h : ∀ o ∈ os, s.alive o = true) : (s.touch os).badTouch = s.badTouch := by
  have : os.any (isDead s) = false := by
    rw [List.any_eq_false]
    intro o ho
    simp [isDead, h o ho]
  simp [State.touch, this]

/-- while the new thread exists and has not ended, its closure is alive -/
theorem closure_alive (hi : Inv cfg s) (h1 : wIsUnborn s.wpc = false) (h2 : wNotEnded s.wpc = true) : s.closureAlive = true := by
  have hc := hi.compat
  rw [hi.closure, h2]
  cases hs : s.spc <;> simp_all [compat, closureBuilt]

/-- until the new thread has ended the starter cannot be past `join`, so the caller's scope is alive -/
theorem scope_alive (hi : Inv cfg s) (h2 : wNotEnded s.wpc = true) : s.scopeAlive = true := by
  have hc := hi.compat
  rw [hi.scope]
  cases hs : s.spc <;> simp_all [compat, sNotDone]

theorem scope_alive_working (hi : Inv cfg s) (h : s.spc = .working) : s.scopeAlive = true := by
  rw [hi.scope, h]; rfl

theorem args_alive (hargs : ∀ a ∈ cfg.args, a = .byRef .callerLvalue ∨ a = .byCopy) (hsc : s.scopeAlive = true)
    (hcl : s.closureAlive = true) : ∀ o ∈ cfg.args.map Cap.obj, s.alive o = true := by
  intro o ho
  rw [List.mem_map] at ho
  obtain ⟨a, ha, rfl⟩ := ho
  rcases hargs a ha with rfl | rfl <;> simp [Cap.obj, Target.obj, State.alive, hsc, hcl]

theorem step_safe {t : State} {l : Lbl} (hsafe : cfg.Safe) (hi : Inv cfg s) (h : Step cfg s l t) : t.badTouch = s.badTouch := by
  obtain ⟨hcal, hargs, hthis⟩ := hsafe
  cases h with
  | evalArgs h => rfl
  | buildClosure h =>
    show (s.touch (copySources cfg)).badTouch = _
    apply touch_badTouch
    intro o ho
    have hf : s.frameAlive = true := by rw [hi.frame, h]; rfl
    have hs : s.scopeAlive = true := by rw [hi.scope, h]; rfl
    simp only [copySources, hcal, List.mem_append, List.mem_singleton] at ho
    rcases ho with rfl | ho
    · exact hf
    · split at ho
      · simp at ho; subst ho; exact hs
      · simp at ho
  | spawn h => rfl
  | returnFromStart h => rfl
  | clobberFrame h => rfl
  | poll h =>
    show (s.touch [.thisObj]).badTouch = _
    apply touch_badTouch
    intro o ho; simp at ho; subst ho; exact scope_alive_working hi h
  | join h hw =>
    show (s.touch [.thisObj]).badTouch = _
    apply touch_badTouch
    intro o ho; simp at ho; subst ho; exact scope_alive_working hi h
  | scopeExit h => rfl
  | begin h => rfl
  | readCallable h =>
    show (s.touch [.closureField, cfg.callable.obj]).badTouch = _
    apply touch_badTouch
    have hcl := closure_alive hi (by rw [h]; rfl) (by rw [h]; rfl)
    intro o ho; simp [hcal, Cap.obj] at ho; subst ho; exact hcl
  | invokeBegin h =>
    show (s.touch _).badTouch = _
    apply touch_badTouch
    intro o ho
    cases hk : cfg.kind <;> simp [hk] at ho
    subst ho
    show s.heapAlive = true
    rw [hi.heap, hk, h]; rfl
  | useSelf h =>
    show (s.touch (selfObjs cfg)).badTouch = _
    apply touch_badTouch
    have hcl := closure_alive hi (by rw [h]; rfl) (by rw [h]; rfl)
    intro o ho
    cases hk : cfg.kind <;> simp [selfObjs, hk, hcal, Cap.obj] at ho <;> subst ho
    · exact hcl
    · show s.heapAlive = true
      rw [hi.heap, hk, h]; rfl
  | useArgs h =>
    show (s.touch (cfg.args.map Cap.obj)).badTouch = _
    apply touch_badTouch
    exact args_alive hargs (scope_alive hi (by rw [h]; rfl)) (closure_alive hi (by rw [h]; rfl) (by rw [h]; rfl))
  | invokeEnd h => rfl
  | delete h =>
    show (s.touch [.closureField, cfg.callable.obj, .heapObj]).badTouch = _
    apply touch_badTouch
    have hcl := closure_alive hi (by rw [h]; rfl) (by rw [h]; rfl)
    have hk := hi.kindpc h
    intro o ho; simp [hcal, Cap.obj] at ho
    rcases ho with rfl | rfl
    · exact hcl
    · show s.heapAlive = true
      rw [hi.heap, hk, h]; rfl
  | setFinished h =>
    show (s.touch (thisObjs cfg)).badTouch = _
    apply touch_badTouch
    have hcl := closure_alive hi (by rw [h]; rfl) (by rw [h]; rfl)
    have hsc := scope_alive hi (by rw [h]; rfl)
    intro o ho; simp [thisObjs, hthis] at ho
    rcases ho with rfl | rfl
    · exact hcl
    · exact hsc
  | exit h => rfl

theorem reach_safe (hsafe : cfg.Safe) (h : Reach cfg s) : s.badTouch = false := by
  induction h with
  | init => rfl
  | step hr hs ih => rw [step_safe hsafe (reach_inv hr) hs]; exact ih


/-! ### the executable step function is the relation -/

theorem step?_sound {t : State} {l : Lbl} (h : step? cfg s l = some t) : Step cfg s l t := by
  cases l <;> simp only [step?] at h <;> split at h <;> try (cases h)
  · exact Step.evalArgs s ‹_›
  · exact Step.buildClosure s ‹_›
  · exact Step.spawn s ‹_›
  · exact Step.returnFromStart s ‹_›
  · exact Step.clobberFrame s ‹_›
  · exact Step.poll s ‹_›
  · rename_i hh; exact Step.join s hh.1 hh.2
  · exact Step.scopeExit s ‹_›
  · exact Step.begin s ‹_›
  · exact Step.readCallable s ‹_›
  · exact Step.invokeBegin s ‹_›
  · exact Step.useSelf s ‹_›
  · exact Step.useArgs s ‹_›
  · exact Step.invokeEnd s ‹_›
  · exact Step.delete s ‹_›
  · exact Step.setFinished s ‹_›
  · exact Step.exit s ‹_›

theorem step?_complete {t : State} {l : Lbl} (h : Step cfg s l t) : step? cfg s l = some t := by
  cases h <;> simp [step?, *]

theorem run?_reach {t : State} (ls : List Lbl) (hr : Reach cfg s) (h : run? cfg s ls = some t) : Reach cfg t := by
  induction ls generalizing s with
  | nil => simp [run?] at h; subst h; exact hr
  | cons l ls ih =>
    simp only [run?] at h
    split at h
    · rename_i u hu; exact ih (Reach.step hr (step?_sound hu)) h
    · cases h

/-! ### runs as label lists; counting -/

theorem run_reach {t : State} {ls : List Lbl} (hr : Reach cfg s) (h : Run cfg s ls t) : Reach cfg t := by
  induction h with
  | nil => exact hr
  | cons hs _ ih => exact ih (Reach.step hr hs)

theorem step_invokes {t : State} {l : Lbl} (h : Step cfg s l t) : t.invokes = s.invokes + (if l = .invokeBegin then 1 else 0) := by
  cases h <;> rfl

theorem step_destroys {t : State} {l : Lbl} (h : Step cfg s l t) : t.destroys = s.destroys + (if l = .delete then 1 else 0) := by
  cases h <;> rfl

theorem run_invokes {t : State} {ls : List Lbl} (h : Run cfg s ls t) : t.invokes = s.invokes + ls.count .invokeBegin := by
  induction h with
  | nil => simp
  | @cons s l t ls u hs _ ih =>
    rw [ih, step_invokes hs, List.count_cons]
    by_cases hl : l = Lbl.invokeBegin <;> simp [hl] <;> omega

theorem run_destroys {t : State} {ls : List Lbl} (h : Run cfg s ls t) : t.destroys = s.destroys + ls.count .delete := by
  induction h with
  | nil => simp
  | @cons s l t ls u hs _ ih =>
    rw [ih, step_destroys hs, List.count_cons]
    by_cases hl : l = Lbl.delete <;> simp [hl] <;> omega

/-! ### progress: a run that is not complete can always take a step that is not a poll / use loop, and such steps
    strictly decrease a measure (so every run with finitely many polls and uses completes) -/

def SPc.rank : SPc → Nat
  | .evalArgs => 0 | .buildClosure => 1 | .spawn => 2 | .returnFromStart => 3 | .clobberFrame => 4 | .working => 5 | .joined => 6 | .done => 7

def WPc.rank : WPc → Nat
  | .unborn => 0 | .begin => 1 | .readCallable => 2 | .invokeBegin => 3 | .inside => 4 | .delete => 5 | .setFinished => 6 | .exit => 7 | .ended => 8

def measure (s : State) : Nat := (7 - s.spc.rank) + (8 - s.wpc.rank)

def Lbl.isLoop : Lbl → Bool
  | .poll | .useSelf | .useArgs => true
  | _ => false

theorem progress (hi : Inv cfg s) (hnd : s.spc ≠ .done) : ∃ l t, Step cfg s l t ∧ l.isLoop = false := by
  have hc := hi.compat
  cases hs : s.spc
  · exact ⟨_, _, Step.evalArgs s hs, rfl⟩
  · exact ⟨_, _, Step.buildClosure s hs, rfl⟩
  · exact ⟨_, _, Step.spawn s hs, rfl⟩
  · exact ⟨_, _, Step.returnFromStart s hs, rfl⟩
  · exact ⟨_, _, Step.clobberFrame s hs, rfl⟩
  · cases hw : s.wpc
    · simp [hs, hw, compat, wIsUnborn] at hc
    · exact ⟨_, _, Step.begin s hw, rfl⟩
    · exact ⟨_, _, Step.readCallable s hw, rfl⟩
    · exact ⟨_, _, Step.invokeBegin s hw, rfl⟩
    · exact ⟨_, _, Step.invokeEnd s hw, rfl⟩
    · exact ⟨_, _, Step.delete s hw, rfl⟩
    · exact ⟨_, _, Step.setFinished s hw, rfl⟩
    · exact ⟨_, _, Step.exit s hw, rfl⟩
    · exact ⟨_, _, Step.join s hs hw, rfl⟩
  · exact ⟨_, _, Step.scopeExit s hs, rfl⟩
  · exact absurd hs hnd

theorem measure_decreases {t : State} {l : Lbl} (hi : Inv cfg s) (h : Step cfg s l t) (hl : l.isLoop = false) :
    measure t < measure s := by
  cases h <;> simp [Lbl.isLoop] at hl <;> rename_i hpc
  case invokeEnd =>
    cases hk : cfg.kind <;> simp only [measure, doInvokeEnd, hk, afterInvoke, hpc, SPc.rank, WPc.rank] <;> omega
  case spawn =>
    have hc := hi.compat
    rw [hpc] at hc
    have hw : s.wpc = .unborn := by cases hw : s.wpc <;> simp [hw, compat, wIsUnborn] at hc; rfl
    simp only [measure, doSpawn, hpc, hw, SPc.rank, WPc.rank]; omega
  case join hs =>
    simp only [measure, doJoin, touch_wpc, hs, hpc, SPc.rank, WPc.rank]; omega
  all_goals
    simp only [measure, doEvalArgs, doBuildClosure, doReturnFromStart, doClobberFrame, doScopeExit, doBegin,
      doReadCallable, doInvokeBegin, doDelete, doSetFinished, doExit, touch_spc, touch_wpc, hpc, SPc.rank, WPc.rank]
    omega

theorem loop_measure {t : State} {l : Lbl} (h : Step cfg s l t) (hl : l.isLoop = true) : measure t = measure s := by
  cases h <;> simp [Lbl.isLoop] at hl <;> rfl

end Thread
