import Tulz.Model.DirVisitor
/- DirectoryVisitor: well-nested lifetimes restore the working directory -/
namespace Tulz.Dv

/-- the OS specification used by the theorem: `valid` = absolute path of an existing directory as `getcwd`
    reports it.  Such a path is non-empty, `chdir` to it from anywhere succeeds and makes it the working
    directory, and whatever `chdir` does, the working directory stays valid. -/
structure OsSpec (os : Os) (valid : String → Prop) : Prop where
  nonempty : ∀ c, valid c → c ≠ ""
  stays : ∀ c x, valid c → valid (os.chdir c x)
  back : ∀ c c', valid c → valid c' → os.chdir c' c = c

/-- working directory after destroying all visitors of the stack, innermost first -/
def unwind (os : Os) : String → List Visitor → String
  | cwd, [] => cwd
  | cwd, v :: r => unwind os (dtor os cwd v) r

def StackOk (valid : String → Prop) (stack : List Visitor) : Prop :=
  ∀ v ∈ stack, v.m_oldDir = "" ∨ valid v.m_oldDir

theorem step_inv (os : Os) (valid : String → Prop) (hos : OsSpec os valid)
    (s s' : St) (e : Ev) (hv : valid s.1) (hst : StackOk valid s.2) (h : step os s e = some s') :
    valid s'.1 ∧ StackOk valid s'.2 ∧ unwind os s'.1 s'.2 = unwind os s.1 s.2 := by
  obtain ⟨cwd, stack⟩ := s
  cases e with
  | ctor dir =>
    simp only [step, ctor, visit, getWorkingDirectory] at h
    by_cases hd : dir = ""
    · simp only [hd, ne_eq, not_true_eq_false, if_false, Option.some.injEq] at h
      subst h
      refine ⟨hv, ?_, ?_⟩
      · intro v hvm
        rcases List.mem_cons.mp hvm with h | h
        · subst h; left; rfl
        · exact hst v h
      · simp [unwind, dtor, restore]
    · simp only [ne_eq, hd, not_false_eq_true, if_true, Option.some.injEq] at h
      subst h
      refine ⟨hos.stays _ _ hv, ?_, ?_⟩
      · intro v hvm
        rcases List.mem_cons.mp hvm with h | h
        · subst h; right; exact hv
        · exact hst v h
      · have hne : cwd ≠ "" := hos.nonempty _ hv
        simp only [unwind, dtor, restore, ne_eq, hne, not_false_eq_true, if_true]
        rw [hos.back cwd _ hv (hos.stays _ _ hv)]
  | dtor =>
    cases stack with
    | nil => simp [step] at h
    | cons v r =>
      simp only [step, Option.some.injEq] at h
      subst h
      refine ⟨?_, ?_, ?_⟩
      · simp only [dtor, restore]
        by_cases ho : v.m_oldDir = ""
        · simpa [ho] using hv
        · simp only [ne_eq, ho, not_false_eq_true, if_true]; exact hos.stays _ _ hv
      · intro w hw; exact hst w (List.mem_cons_of_mem _ hw)
      · simp [unwind]

theorem run_inv (os : Os) (valid : String → Prop) (hos : OsSpec os valid) (evs : List Ev) :
    ∀ (s s' : St), valid s.1 → StackOk valid s.2 → run os s evs = some s' →
      valid s'.1 ∧ StackOk valid s'.2 ∧ unwind os s'.1 s'.2 = unwind os s.1 s.2 := by
  induction evs with
  | nil => intro s s' hv hst h; simp only [run, Option.some.injEq] at h; subst h; exact ⟨hv, hst, rfl⟩
  | cons e r ih =>
    intro s s' hv hst h
    simp only [run] at h
    cases hs : step os s e with
    | none => rw [hs] at h; cases h
    | some s1 =>
      rw [hs] at h
      obtain ⟨a, b, c⟩ := step_inv os valid hos s s1 e hv hst hs
      obtain ⟨a', b', c'⟩ := ih s1 s' a b h
      exact ⟨a', b', c'.trans c⟩

end Tulz.Dv
