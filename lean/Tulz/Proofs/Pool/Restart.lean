import Tulz.Proofs.Pool.Measure
/-
  Runs (finite sequences of code steps), the decidable stuck test, and the lemmas behind `C08_restart`.
-/
namespace TPool

/-- `k` consecutive steps of the code -/
inductive Run : Nat → State → State → Prop
  | refl (s) : Run 0 s s
  | step {k s t u} : Step s t → Run k t u → Run (k + 1) s u

theorem Run.reach {max prog k s u} (h : Reach max prog s) (r : Run k s u) : Reach max prog u := by
  induction r with
  | refl => exact h
  | step hs _ ih => exact ih (h.code hs)

theorem run_bounded {max prog k s u} (h : Reach max prog s) (r : Run k s u) : k + measure u ≤ measure s := by
  induction r with
  | refl => omega
  | step hs _ ih =>
    have := measure_decreases h hs
    have := ih (h.code hs)
    omega

/-- `k` consecutive steps (of any thread, spurious wake-ups included) all taken while the owner is inside `stop()` -/
inductive StopRun : Nat → State → State → Prop
  | refl (s) : StopRun 0 s s
  | step {k s t u} : inStop s → SStep s t → StopRun k t u → StopRun (k + 1) s u

theorem stopRun_bounded {max prog k s u} (h : Reach max prog s) (r : StopRun k s u) :
    k + stopMeasure u ≤ stopMeasure s := by
  induction r with
  | refl => omega
  | step hin hs _ ih =>
    have := stopMeasure_decreases (reach_stop h) hin hs
    have := ih (Reach.step h hs)
    omega

/-! ### decidable test for stuck states -/

def Worker.blocked : Worker → Bool
  | .parked false => true
  | .exited => true
  | _ => false

def stuckB (s : State) : Bool := (s.owner == .idle []) && s.ws.all Worker.blocked

theorem awake_not_blocked {wk : Worker} (ha : wk.awake = true) (hb : wk.blocked = true) : False := by
  cases wk with
  | parked n => cases n <;> simp [Worker.awake, Worker.blocked] at ha hb
  | _ => simp [Worker.awake, Worker.blocked] at ha hb

theorem stuck_of_stuckB {s : State} (h : stuckB s = true) : Stuck s := by
  unfold stuckB at h
  rw [Bool.and_eq_true] at h
  obtain ⟨ho, hw⟩ := h
  have ho : s.owner = .idle [] := by simpa using ho
  rw [List.all_eq_true] at hw
  have hb : ∀ (w : Nat) (wk : Worker), s.ws[w]? = some wk → wk.blocked = true :=
    fun w wk h' => hw wk (List.mem_of_getElem? h')
  intro t hs
  cases hs with
  | start tk todo ho' => rw [ho] at ho'; cases ho'
  | spawnYes todo ho' hlt => rw [ho] at ho'; cases ho'
  | spawnNo todo ho' hlt => rw [ho] at ho'; cases ho'
  | notifyHit todo w ho' hw' => rw [ho] at ho'; cases ho'
  | notifyMiss todo ho' hn => rw [ho] at ho'; cases ho'
  | clear todo ho' => rw [ho] at ho'; cases ho'
  | stop todo ho' => rw [ho] at ho'; cases ho'
  | stopNotify todo ho' => rw [ho] at ho'; cases ho'
  | joinOne w rem todo ho' hw' => rw [ho] at ho'; cases ho'
  | joinDone todo ho' => rw [ho] at ho'; cases ho'
  | stopClear todo ho' => rw [ho] at ho'; cases ho'
  | workerExit w wk hw' ha hr => exact awake_not_blocked ha (hb w wk hw')
  | workerTake w wk tk q hw' ha hr hq => exact awake_not_blocked ha (hb w wk hw')
  | workerPark w wk hw' ha hr hq => exact awake_not_blocked ha (hb w wk hw')
  | workerRunEnd w tk hw' => have := hb w _ hw'; simp [Worker.blocked] at this
  | workerDelete w tk hw' => have := hb w _ hw'; simp [Worker.blocked] at this

/-! ### restart after stop -/

theorem stopped_all_exited {max prog s} (h : Reach max prog s) (hst : s.stopped = true) :
    ∀ (w : Nat) (wk : Worker), s.ws[w]? = some wk → wk = .exited := by
  have S := reach_stop h
  intro w wk hw
  exact S.outside w wk hw (by rw [(S.stopped_ok hst).2]; simp)

/-- state after the queue critical section of `start t` -/
def afterStart (s : State) (t : Task) (todo : List OwnerOp) : State :=
  { s with queue := s.queue ++ [t], running := true, owner := .spawn todo, submitted := s.submitted ++ [t], stopped := false }

/-- state after the pool critical section of a `start` that spawns -/
def afterSpawn (s : State) (todo : List OwnerOp) : State :=
  { s with pool := s.pool ++ [s.ws.length], ws := s.ws ++ [.check], owner := .notifyOne todo }

theorem only_start {s u : State} {t : Task} {todo : List OwnerOp} (hex : ∀ (w : Nat) (wk : Worker), s.ws[w]? = some wk → wk = .exited)
    (ho : s.owner = .idle (.start t :: todo)) (hs : SStep s u) : u = afterStart s t todo := by
  cases hs with
  | spurious w hw => have := hex w _ hw; cases this
  | code hc =>
    cases hc with
    | start tk todo' ho' => rw [ho] at ho'; cases ho'; rfl
    | spawnYes todo' ho' hlt => rw [ho] at ho'; cases ho'
    | spawnNo todo' ho' hlt => rw [ho] at ho'; cases ho'
    | notifyHit todo' w ho' hw' => rw [ho] at ho'; cases ho'
    | notifyMiss todo' ho' hn => rw [ho] at ho'; cases ho'
    | clear todo' ho' => rw [ho] at ho'; cases ho'
    | stop todo' ho' => rw [ho] at ho'; cases ho'
    | stopNotify todo' ho' => rw [ho] at ho'; cases ho'
    | joinOne w rem todo' ho' hw' => rw [ho] at ho'; cases ho'
    | joinDone todo' ho' => rw [ho] at ho'; cases ho'
    | stopClear todo' ho' => rw [ho] at ho'; cases ho'
    | workerExit w wk hw' ha hr => have := hex w wk hw'; subst this; simp [Worker.awake] at ha
    | workerTake w wk tk q hw' ha hr hq => have := hex w wk hw'; subst this; simp [Worker.awake] at ha
    | workerPark w wk hw' ha hr hq => have := hex w wk hw'; subst this; simp [Worker.awake] at ha
    | workerRunEnd w tk hw' => have := hex w _ hw'; cases this
    | workerDelete w tk hw' => have := hex w _ hw'; cases this

theorem only_spawn {s u : State} {todo : List OwnerOp} (hex : ∀ (w : Nat) (wk : Worker), s.ws[w]? = some wk → wk = .exited)
    (ho : s.owner = .spawn todo) (hlt : s.pool.length < s.max) (hs : SStep s u) : u = afterSpawn s todo := by
  cases hs with
  | spurious w hw => have := hex w _ hw; cases this
  | code hc =>
    cases hc with
    | start tk todo' ho' => rw [ho] at ho'; cases ho'
    | spawnYes todo' ho' hlt' => rw [ho] at ho'; cases ho'; rfl
    | spawnNo todo' ho' hlt' => exact absurd hlt hlt'
    | notifyHit todo' w ho' hw' => rw [ho] at ho'; cases ho'
    | notifyMiss todo' ho' hn => rw [ho] at ho'; cases ho'
    | clear todo' ho' => rw [ho] at ho'; cases ho'
    | stop todo' ho' => rw [ho] at ho'; cases ho'
    | stopNotify todo' ho' => rw [ho] at ho'; cases ho'
    | joinOne w rem todo' ho' hw' => rw [ho] at ho'; cases ho'
    | joinDone todo' ho' => rw [ho] at ho'; cases ho'
    | stopClear todo' ho' => rw [ho] at ho'; cases ho'
    | workerExit w wk hw' ha hr => have := hex w wk hw'; subst this; simp [Worker.awake] at ha
    | workerTake w wk tk q hw' ha hr hq => have := hex w wk hw'; subst this; simp [Worker.awake] at ha
    | workerPark w wk hw' ha hr hq => have := hex w wk hw'; subst this; simp [Worker.awake] at ha
    | workerRunEnd w tk hw' => have := hex w _ hw'; cases this
    | workerDelete w tk hw' => have := hex w _ hw'; cases this

/-! ### programs that only submit: nothing is ever dropped -/

def startsOnly (todo : List OwnerOp) : Prop := ∀ op ∈ todo, ∃ t, op = OwnerOp.start t

def Submitting (s : State) : Prop :=
  ∃ todo, (s.owner = .idle todo ∨ s.owner = .spawn todo ∨ s.owner = .notifyOne todo) ∧ startsOnly todo

theorem submitting_step {s u : State} (hS : Submitting s) (hs : Step s u) : Submitting u ∧ u.dropped = s.dropped := by
  obtain ⟨todo, ho, hall⟩ := hS
  cases hs with
  | start tk todo' ho' =>
    refine ⟨⟨todo', Or.inr (Or.inl rfl), ?_⟩, rfl⟩
    rcases ho with ho | ho | ho <;> rw [ho] at ho' <;> cases ho'
    exact fun op hop => hall op (List.mem_cons_of_mem _ hop)
  | spawnYes todo' ho' hlt =>
    refine ⟨⟨todo', Or.inr (Or.inr rfl), ?_⟩, rfl⟩
    rcases ho with ho | ho | ho <;> rw [ho] at ho' <;> cases ho'
    exact hall
  | spawnNo todo' ho' hlt =>
    refine ⟨⟨todo', Or.inr (Or.inr rfl), ?_⟩, rfl⟩
    rcases ho with ho | ho | ho <;> rw [ho] at ho' <;> cases ho'
    exact hall
  | notifyHit todo' w ho' hw' =>
    refine ⟨⟨todo', Or.inl rfl, ?_⟩, rfl⟩
    rcases ho with ho | ho | ho <;> rw [ho] at ho' <;> cases ho'
    exact hall
  | notifyMiss todo' ho' hn =>
    refine ⟨⟨todo', Or.inl rfl, ?_⟩, rfl⟩
    rcases ho with ho | ho | ho <;> rw [ho] at ho' <;> cases ho'
    exact hall
  | clear todo' ho' =>
    rcases ho with ho | ho | ho <;> rw [ho] at ho' <;> cases ho'
    obtain ⟨t, ht⟩ := hall .clear (by simp); cases ht
  | stop todo' ho' =>
    rcases ho with ho | ho | ho <;> rw [ho] at ho' <;> cases ho'
    obtain ⟨t, ht⟩ := hall .stop (by simp); cases ht
  | stopNotify todo' ho' => rcases ho with ho | ho | ho <;> rw [ho] at ho' <;> cases ho'
  | joinOne w rem todo' ho' hw' => rcases ho with ho | ho | ho <;> rw [ho] at ho' <;> cases ho'
  | joinDone todo' ho' => rcases ho with ho | ho | ho <;> rw [ho] at ho' <;> cases ho'
  | stopClear todo' ho' => rcases ho with ho | ho | ho <;> rw [ho] at ho' <;> cases ho'
  | workerExit w wk hw' ha hr => exact ⟨⟨todo, ho, hall⟩, rfl⟩
  | workerTake w wk tk q hw' ha hr hq => exact ⟨⟨todo, ho, hall⟩, rfl⟩
  | workerPark w wk hw' ha hr hq => exact ⟨⟨todo, ho, hall⟩, rfl⟩
  | workerRunEnd w tk hw' => exact ⟨⟨todo, ho, hall⟩, rfl⟩
  | workerDelete w tk hw' => exact ⟨⟨todo, ho, hall⟩, rfl⟩

theorem submitting_run {k : Nat} {s u : State} (hS : Submitting s) (r : Run k s u) : u.dropped = s.dropped := by
  induction r with
  | refl => rfl
  | step hs _ ih =>
    have := submitting_step hS hs
    rw [ih this.1, this.2]

theorem run_submitted_mono {k : Nat} {s u : State} (r : Run k s u) : ∀ t ∈ s.submitted, t ∈ u.submitted := by
  induction r with
  | refl => exact fun _ h => h
  | step hs _ ih =>
    intro t ht
    apply ih
    cases hs <;> first | exact ht | exact List.mem_append_left _ ht

end TPool
