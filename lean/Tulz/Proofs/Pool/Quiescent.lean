import Tulz.Proofs.Pool.Exec
/-
  Quiescent states (no step of the code is enabled): the owner's program is finished, nobody is awake or busy,
  the queue is empty, every submitted task has been destroyed exactly once, and a task that was not dropped by
  a clear()/stop() was run exactly once.
-/
namespace TPool

/-- no step of the code is enabled (spurious wake-ups aside) -/
def Stuck (s : State) : Prop := ∀ t, ¬ Step s t

theorem owner_enabled {max prog s} (h : Reach max prog s) (hne : s.owner ≠ .idle []) : ∃ t, Step s t := by
  cases ho : s.owner with
  | idle todo =>
    cases todo with
    | nil => exact absurd ho hne
    | cons op todo =>
      cases op with
      | start t => exact ⟨_, Step.start s t todo ho⟩
      | clear => exact ⟨_, Step.clear s todo ho⟩
      | stop => exact ⟨_, Step.stop s todo ho⟩
  | spawn todo =>
    by_cases hlt : s.pool.length < s.max
    · exact ⟨_, Step.spawnYes s todo ho hlt⟩
    · exact ⟨_, Step.spawnNo s todo ho hlt⟩
  | notifyOne todo =>
    by_cases hex : ∃ w : Nat, s.ws[w]? = some (Worker.parked false)
    · obtain ⟨w, hw⟩ := hex; exact ⟨_, Step.notifyHit s todo w ho hw⟩
    · exact ⟨_, Step.notifyMiss s todo ho (fun w hw => hex ⟨w, hw⟩)⟩
  | stopNotify todo => exact ⟨_, Step.stopNotify s todo ho⟩
  | join rem todo => exact stop_progress max prog s h (Or.inr (Or.inl ⟨rem, todo, ho⟩))
  | clearQ todo => exact ⟨_, Step.stopClear s todo ho⟩

theorem worker_enabled {s : State} {w : Nat} {wk : Worker} (hw : s.ws[w]? = some wk) (ha : wk.active = true) :
    ∃ t, Step s t := by
  cases wk with
  | check => exact ⟨_, awakeStep_step hw rfl⟩
  | parked n =>
    cases n with
    | true => exact ⟨_, awakeStep_step hw rfl⟩
    | false => simp [Worker.active] at ha
  | running t => exact ⟨_, Step.workerRunEnd s w t hw⟩
  | ran t => exact ⟨_, Step.workerDelete s w t hw⟩
  | exited => simp [Worker.active] at ha

theorem inactive_task_none {wk : Worker} (h : wk.active ≠ true) : wk.task? = none := by
  cases wk with
  | running t => simp [Worker.active] at h
  | ran t => simp [Worker.active] at h
  | _ => rfl

structure Quiescent (prog : List OwnerOp) (s : State) : Prop where
  owner_done : s.owner = .idle []
  all_submitted : s.submitted = tasksOf prog
  workers_idle : ∀ (w : Nat) (wk : Worker), s.ws[w]? = some wk → wk = .parked false ∨ wk = .exited
  queue_empty : s.queue = []
  destroyed_all : s.destroyed.Perm s.submitted
  destroyed_once : ∀ t ∈ tasksOf prog, s.destroyed.count t = 1
  fate : ∀ t ∈ tasksOf prog,
      (t ∈ s.dropped ∧ s.runs.count t = 0) ∨ (t ∉ s.dropped ∧ s.runs.count t = 1 ∧ s.finished.count t = 1)

theorem quiescent_of_stuck {max prog s} (hp : (tasksOf prog).Nodup) (hmax : 1 ≤ max) (h : Reach max prog s)
    (hq : Stuck s) : Quiescent prog s := by
  have O := reach_own hp h
  have R := reach_runs hp h
  have D := reach_drop hp h
  have Q := reach_quies (prog := prog) h
  have L := reach_live hmax h
  have ho : s.owner = .idle [] := by
    apply Classical.byContradiction
    intro hne
    obtain ⟨t, ht⟩ := owner_enabled h hne
    exact hq t ht
  have hsub : s.submitted = tasksOf prog := by
    have := Q.prog_tasks; rw [ho] at this; simpa [Owner.todo, tasksOf] using this
  have hidle : ∀ (w : Nat) (wk : Worker), s.ws[w]? = some wk → wk.active ≠ true := by
    intro w wk hw ha
    obtain ⟨t, ht⟩ := worker_enabled hw ha
    exact hq t ht
  have hqueue : s.queue = [] := by
    cases hr : s.running with
    | false => exact Q.idle_q [] ho hr
    | true =>
      apply Classical.byContradiction
      intro hne
      obtain ⟨t, ht⟩ := queue_progress max prog s hmax h hne hr
      exact hq t ht
  have hhands : hands s.ws = [] := by
    unfold hands
    rw [List.filterMap_eq_nil_iff]
    intro wk hwk
    obtain ⟨i, hi, rfl⟩ := List.getElem_of_mem hwk
    exact inactive_task_none (hidle i _ (List.getElem?_eq_getElem hi))
  have hperm : s.destroyed.Perm s.submitted := by
    have := O.owned; rw [hqueue, hhands] at this; simpa using this
  refine ⟨ho, hsub, ?_, hqueue, hperm, ?_, ?_⟩
  · intro w wk hw
    have := hidle w wk hw
    cases wk with
    | parked n =>
      cases n with
      | false => exact Or.inl rfl
      | true => simp [Worker.active] at this
    | exited => exact Or.inr rfl
    | _ => simp [Worker.active] at this
  · intro t ht
    have hm : t ∈ s.destroyed := hperm.mem_iff.2 (by rw [hsub]; exact ht)
    rw [List.Nodup.count O.destroyed_nodup, if_pos hm]
  · intro t ht
    have hm : t ∈ s.destroyed := hperm.mem_iff.2 (by rw [hsub]; exact ht)
    by_cases hd : t ∈ s.dropped
    · left
      refine ⟨hd, ?_⟩
      rw [List.Nodup.count R.runs_nodup, if_neg (D.drop_not_run t hd)]
    · right
      rcases D.destroyed_src t hm with h' | h'
      · exact absurd h' hd
      · refine ⟨hd, ?_, ?_⟩
        · rw [List.Nodup.count R.runs_nodup, if_pos (R.fin_runs t h')]
        · rw [List.Nodup.count D.fin_nodup, if_pos h']

end TPool
