import Tulz.Proofs.Pool.Quiescent
/-
  Well-founded measures.
  * `measure` — a natural number that every step of the code (`Step`, i.e. everything except spurious wake-ups)
    strictly decreases in every reachable state: every run of owner program + workers is finite.
  * `stopMeasure` — a measure for the inside of `stop()` that even spurious wake-ups decrease.
  Task bodies are finite by construction of the model (`workerRunEnd` is always enabled for a running worker).
-/
namespace TPool

def wsum (f : Worker → Nat) : List Worker → Nat
  | [] => 0
  | a :: l => f a + wsum f l

theorem wsum_set {f : Worker → Nat} {ws : List Worker} {w : Nat} {a x : Worker} (h : ws[w]? = some a) :
    wsum f (ws.set w x) + f a = wsum f ws + f x := by
  induction ws generalizing w with
  | nil => simp at h
  | cons b l ih =>
    cases w with
    | zero => simp at h; subst h; simp only [List.set_cons_zero, wsum]; omega
    | succ w => simp at h; have := ih h; simp only [List.set_cons_succ, wsum]; omega

theorem wsum_append (f : Worker → Nat) (a b : List Worker) : wsum f (a ++ b) = wsum f a + wsum f b := by
  induction a with
  | nil => simp [wsum]
  | cons x l ih => simp only [List.cons_append, wsum, ih]; omega

/-- steps still ahead of a worker before it next blocks -/
def Worker.weight : Worker → Nat
  | .exited => 0
  | .parked false => 0
  | .parked true => 1
  | .check => 1
  | .running _ => 3
  | .ran _ => 2

theorem weight_wakeAll_le (a : Worker) : (wakeAll a).weight ≤ a.weight + 1 := by
  cases a with
  | parked n => cases n <;> simp [wakeAll, Worker.weight]
  | _ => simp [wakeAll]

theorem wsum_wakeAll_le (ws : List Worker) : wsum Worker.weight (ws.map wakeAll) ≤ wsum Worker.weight ws + ws.length := by
  induction ws with
  | nil => simp [wsum]
  | cons a l ih =>
    simp only [List.map_cons, wsum, List.length_cons]
    have := weight_wakeAll_le a
    omega

theorem awake_weight {wk : Worker} (h : wk.awake = true) : wk.weight = 1 := by
  cases wk with
  | check => rfl
  | parked n =>
    cases n with
    | true => rfl
    | false => simp [Worker.awake] at h
  | _ => simp [Worker.awake] at h

/-- potential of the owner operations still to be executed; `n` bounds the number of workers ever spawned
    (one per `start` at most), `m` is the maximum thread count -/
def opW (n m : Nat) : OwnerOp → Nat
  | .start _ => 9
  | .clear => 1
  | .stop => n + m + 4

def progW (n m : Nat) : List OwnerOp → Nat
  | [] => 0
  | op :: l => opW n m op + progW n m l

def ownerW (n m p : Nat) : Owner → Nat
  | .idle todo => progW n m todo
  | .spawn todo => progW n m todo + 5
  | .notifyOne todo => progW n m todo + 2
  | .stopNotify todo => progW n m todo + n + p + 3
  | .join rem todo => progW n m todo + rem.length + 2
  | .clearQ todo => progW n m todo + 1

/-- number of `start` operations of the whole program (executed + still to do): constant along a run -/
def total (s : State) : Nat := s.submitted.length + (tasksOf s.owner.todo).length

def measureN (n : Nat) (s : State) : Nat :=
  ownerW n s.max s.pool.length s.owner + wsum Worker.weight s.ws + 3 * s.queue.length

def measure (s : State) : Nat := measureN (total s) s

theorem step_total {s t : State} (hs : Step s t) : total t = total s := by
  cases hs with
  | start tk todo ho =>
    show (s.submitted ++ [tk]).length + (tasksOf todo).length = s.submitted.length + (tasksOf s.owner.todo).length
    rw [ho]; simp [Owner.todo, tasksOf]; omega
  | spawnYes todo ho hlt => show _ + (tasksOf todo).length = _ + (tasksOf s.owner.todo).length; rw [ho]; rfl
  | spawnNo todo ho hlt => show _ + (tasksOf todo).length = _ + (tasksOf s.owner.todo).length; rw [ho]; rfl
  | notifyHit todo w ho hw => show _ + (tasksOf todo).length = _ + (tasksOf s.owner.todo).length; rw [ho]; rfl
  | notifyMiss todo ho hn => show _ + (tasksOf todo).length = _ + (tasksOf s.owner.todo).length; rw [ho]; rfl
  | clear todo ho => show _ + (tasksOf todo).length = _ + (tasksOf s.owner.todo).length; rw [ho]; rfl
  | stop todo ho => show _ + (tasksOf todo).length = _ + (tasksOf s.owner.todo).length; rw [ho]; rfl
  | stopNotify todo ho => show _ + (tasksOf todo).length = _ + (tasksOf s.owner.todo).length; rw [ho]; rfl
  | joinOne w rem todo ho hw => show _ + (tasksOf todo).length = _ + (tasksOf s.owner.todo).length; rw [ho]; rfl
  | joinDone todo ho => show _ + (tasksOf todo).length = _ + (tasksOf s.owner.todo).length; rw [ho]; rfl
  | stopClear todo ho => show _ + (tasksOf todo).length = _ + (tasksOf s.owner.todo).length; rw [ho]; rfl
  | workerExit w wk hw ha hr => rfl
  | workerTake w wk tk q hw ha hr hq => rfl
  | workerPark w wk hw ha hr hq => rfl
  | workerRunEnd w tk hw => rfl
  | workerDelete w tk hw => rfl

theorem measureN_decreases {s t : State} (n : Nat) (S : StopInv s) (hn : s.ws.length ≤ n) (hs : Step s t) :
    measureN n t < measureN n s := by
  have hmax := S.max_ok
  cases hs with
  | start tk todo ho =>
    show ownerW n s.max s.pool.length (.spawn todo) + wsum Worker.weight s.ws + 3 * (s.queue ++ [tk]).length <
      ownerW n s.max s.pool.length s.owner + wsum Worker.weight s.ws + 3 * s.queue.length
    rw [ho]; simp only [ownerW, progW, opW, List.length_append, List.length_cons, List.length_nil]; omega
  | spawnYes todo ho hlt =>
    show ownerW n s.max (s.pool ++ [s.ws.length]).length (.notifyOne todo) + wsum Worker.weight (s.ws ++ [.check]) + 3 * s.queue.length <
      ownerW n s.max s.pool.length s.owner + wsum Worker.weight s.ws + 3 * s.queue.length
    rw [ho, wsum_append]; simp only [ownerW, wsum, Worker.weight]; omega
  | spawnNo todo ho hlt =>
    show ownerW n s.max s.pool.length (.notifyOne todo) + wsum Worker.weight s.ws + 3 * s.queue.length <
      ownerW n s.max s.pool.length s.owner + wsum Worker.weight s.ws + 3 * s.queue.length
    rw [ho]; simp only [ownerW]; omega
  | notifyHit todo w ho hw =>
    show ownerW n s.max s.pool.length (.idle todo) + wsum Worker.weight (s.ws.set w (.parked true)) + 3 * s.queue.length <
      ownerW n s.max s.pool.length s.owner + wsum Worker.weight s.ws + 3 * s.queue.length
    have := wsum_set (f := Worker.weight) (x := .parked true) hw
    rw [ho]; simp only [ownerW, Worker.weight] at this ⊢; omega
  | notifyMiss todo ho hn' =>
    show ownerW n s.max s.pool.length (.idle todo) + wsum Worker.weight s.ws + 3 * s.queue.length <
      ownerW n s.max s.pool.length s.owner + wsum Worker.weight s.ws + 3 * s.queue.length
    rw [ho]; simp only [ownerW]; omega
  | clear todo ho =>
    show ownerW n s.max s.pool.length (.idle todo) + wsum Worker.weight s.ws + 3 * ([] : List Task).length <
      ownerW n s.max s.pool.length s.owner + wsum Worker.weight s.ws + 3 * s.queue.length
    rw [ho]; simp only [ownerW, progW, opW, List.length_nil]; omega
  | stop todo ho =>
    show ownerW n s.max s.pool.length (.stopNotify todo) + wsum Worker.weight s.ws + 3 * s.queue.length <
      ownerW n s.max s.pool.length s.owner + wsum Worker.weight s.ws + 3 * s.queue.length
    rw [ho]; simp only [ownerW, progW, opW]; omega
  | stopNotify todo ho =>
    show ownerW n s.max s.pool.length (.join s.pool todo) + wsum Worker.weight (s.ws.map wakeAll) + 3 * s.queue.length <
      ownerW n s.max s.pool.length s.owner + wsum Worker.weight s.ws + 3 * s.queue.length
    have := wsum_wakeAll_le s.ws
    rw [ho]; simp only [ownerW]; omega
  | joinOne w rem todo ho hw =>
    show ownerW n s.max s.pool.length (.join rem todo) + wsum Worker.weight s.ws + 3 * s.queue.length <
      ownerW n s.max s.pool.length s.owner + wsum Worker.weight s.ws + 3 * s.queue.length
    rw [ho]; simp only [ownerW, List.length_cons]; omega
  | joinDone todo ho =>
    show ownerW n s.max ([] : List Nat).length (.clearQ todo) + wsum Worker.weight s.ws + 3 * s.queue.length <
      ownerW n s.max s.pool.length s.owner + wsum Worker.weight s.ws + 3 * s.queue.length
    rw [ho]; simp only [ownerW, List.length_nil]; omega
  | stopClear todo ho =>
    show ownerW n s.max s.pool.length (.idle todo) + wsum Worker.weight s.ws + 3 * ([] : List Task).length <
      ownerW n s.max s.pool.length s.owner + wsum Worker.weight s.ws + 3 * s.queue.length
    rw [ho]; simp only [ownerW, List.length_nil]; omega
  | workerExit w wk hw ha hr =>
    show ownerW n s.max s.pool.length s.owner + wsum Worker.weight (s.ws.set w .exited) + 3 * s.queue.length <
      ownerW n s.max s.pool.length s.owner + wsum Worker.weight s.ws + 3 * s.queue.length
    have := wsum_set (f := Worker.weight) (x := .exited) hw
    rw [awake_weight ha] at this; simp only [Worker.weight] at this; omega
  | workerTake w wk tk q hw ha hr hq =>
    show ownerW n s.max s.pool.length s.owner + wsum Worker.weight (s.ws.set w (.running tk)) + 3 * q.length <
      ownerW n s.max s.pool.length s.owner + wsum Worker.weight s.ws + 3 * s.queue.length
    have := wsum_set (f := Worker.weight) (x := .running tk) hw
    rw [awake_weight ha] at this; simp only [Worker.weight] at this
    rw [hq]; simp only [List.length_cons]; omega
  | workerPark w wk hw ha hr hq =>
    show ownerW n s.max s.pool.length s.owner + wsum Worker.weight (s.ws.set w (.parked false)) + 3 * s.queue.length <
      ownerW n s.max s.pool.length s.owner + wsum Worker.weight s.ws + 3 * s.queue.length
    have := wsum_set (f := Worker.weight) (x := .parked false) hw
    rw [awake_weight ha] at this; simp only [Worker.weight] at this; omega
  | workerRunEnd w tk hw =>
    show ownerW n s.max s.pool.length s.owner + wsum Worker.weight (s.ws.set w (.ran tk)) + 3 * s.queue.length <
      ownerW n s.max s.pool.length s.owner + wsum Worker.weight s.ws + 3 * s.queue.length
    have := wsum_set (f := Worker.weight) (x := .ran tk) hw
    simp only [Worker.weight] at this; omega
  | workerDelete w tk hw =>
    show ownerW n s.max s.pool.length s.owner + wsum Worker.weight (s.ws.set w .check) + 3 * s.queue.length <
      ownerW n s.max s.pool.length s.owner + wsum Worker.weight s.ws + 3 * s.queue.length
    have := wsum_set (f := Worker.weight) (x := .check) hw
    simp only [Worker.weight] at this; omega

/-- every step of the code strictly decreases `measure` (in states reachable even with spurious wake-ups) -/
theorem measure_decreases {max prog s t} (h : Reach max prog s) (hs : Step s t) : measure t < measure s := by
  have Q := reach_quies (prog := prog) h
  have hn : s.ws.length ≤ total s := by
    have := Q.spawned; unfold total; omega
  unfold measure
  rw [step_total hs]
  exact measureN_decreases (total s) (reach_stop h) hn hs

/-! ### inside stop() -/

def inStop (s : State) : Prop :=
  (∃ todo, s.owner = .stopNotify todo) ∨ (∃ rem todo, s.owner = .join rem todo) ∨ (∃ todo, s.owner = .clearQ todo)

/-- weight of a worker while the pool is being stopped (the flag is already false): a parked worker still has to be
    woken (by the pending notify_all or spuriously), re-check and exit -/
def Worker.sweight : Worker → Nat
  | .exited => 0
  | .parked true => 1
  | .check => 1
  | .parked false => 2
  | .ran _ => 2
  | .running _ => 3

theorem sweight_wakeAll_le (a : Worker) : (wakeAll a).sweight ≤ a.sweight := by
  cases a with
  | parked n => cases n <;> simp [wakeAll, Worker.sweight]
  | _ => simp [wakeAll]

theorem wsum_swakeAll_le (ws : List Worker) : wsum Worker.sweight (ws.map wakeAll) ≤ wsum Worker.sweight ws := by
  induction ws with
  | nil => simp [wsum]
  | cons a l ih =>
    simp only [List.map_cons, wsum]
    have := sweight_wakeAll_le a
    omega

theorem awake_sweight {wk : Worker} (h : wk.awake = true) : wk.sweight = 1 := by
  cases wk with
  | check => rfl
  | parked n =>
    cases n with
    | true => rfl
    | false => simp [Worker.awake] at h
  | _ => simp [Worker.awake] at h

def ownerStopW (p : Nat) : Owner → Nat
  | .stopNotify _ => p + 3
  | .join rem _ => rem.length + 2
  | .clearQ _ => 1
  | _ => 0

def stopMeasure (s : State) : Nat := ownerStopW s.pool.length s.owner + wsum Worker.sweight s.ws

theorem inStop_not_running {s : State} (S : StopInv s) (hs : inStop s) : s.running = false := by
  rcases hs with ⟨todo, ho⟩ | ⟨rem, todo, ho⟩ | ⟨todo, ho⟩
  · exact S.flag_stop todo ho
  · exact (S.phase todo (Or.inl ⟨rem, ho⟩)).1
  · exact (S.phase todo (Or.inr ho)).1

/-- while the owner is inside `stop()`, every step — of any thread, spurious wake-ups included — strictly
    decreases `stopMeasure` -/
theorem stopMeasure_decreases {s t : State} (S : StopInv s) (hin : inStop s) (hs : SStep s t) :
    stopMeasure t < stopMeasure s := by
  have hnr := inStop_not_running S hin
  cases hs with
  | spurious w hw =>
    show ownerStopW s.pool.length s.owner + wsum Worker.sweight (s.ws.set w (.parked true)) <
      ownerStopW s.pool.length s.owner + wsum Worker.sweight s.ws
    have := wsum_set (f := Worker.sweight) (x := .parked true) hw
    simp only [Worker.sweight] at this; omega
  | code hc =>
    cases hc with
    | start tk todo ho => rcases hin with ⟨_, h'⟩ | ⟨_, _, h'⟩ | ⟨_, h'⟩ <;> rw [ho] at h' <;> cases h'
    | spawnYes todo ho hlt => rcases hin with ⟨_, h'⟩ | ⟨_, _, h'⟩ | ⟨_, h'⟩ <;> rw [ho] at h' <;> cases h'
    | spawnNo todo ho hlt => rcases hin with ⟨_, h'⟩ | ⟨_, _, h'⟩ | ⟨_, h'⟩ <;> rw [ho] at h' <;> cases h'
    | notifyHit todo w ho hw => rcases hin with ⟨_, h'⟩ | ⟨_, _, h'⟩ | ⟨_, h'⟩ <;> rw [ho] at h' <;> cases h'
    | notifyMiss todo ho hn => rcases hin with ⟨_, h'⟩ | ⟨_, _, h'⟩ | ⟨_, h'⟩ <;> rw [ho] at h' <;> cases h'
    | clear todo ho => rcases hin with ⟨_, h'⟩ | ⟨_, _, h'⟩ | ⟨_, h'⟩ <;> rw [ho] at h' <;> cases h'
    | stop todo ho => rcases hin with ⟨_, h'⟩ | ⟨_, _, h'⟩ | ⟨_, h'⟩ <;> rw [ho] at h' <;> cases h'
    | stopNotify todo ho =>
      show ownerStopW s.pool.length (.join s.pool todo) + wsum Worker.sweight (s.ws.map wakeAll) <
        ownerStopW s.pool.length s.owner + wsum Worker.sweight s.ws
      have := wsum_swakeAll_le s.ws
      rw [ho]; simp only [ownerStopW]; omega
    | joinOne w rem todo ho hw =>
      show ownerStopW s.pool.length (.join rem todo) + wsum Worker.sweight s.ws <
        ownerStopW s.pool.length s.owner + wsum Worker.sweight s.ws
      rw [ho]; simp only [ownerStopW, List.length_cons]; omega
    | joinDone todo ho =>
      show ownerStopW ([] : List Nat).length (.clearQ todo) + wsum Worker.sweight s.ws <
        ownerStopW s.pool.length s.owner + wsum Worker.sweight s.ws
      rw [ho]; simp only [ownerStopW, List.length_nil]; omega
    | stopClear todo ho =>
      show ownerStopW s.pool.length (.idle todo) + wsum Worker.sweight s.ws <
        ownerStopW s.pool.length s.owner + wsum Worker.sweight s.ws
      rw [ho]; simp only [ownerStopW]; omega
    | workerExit w wk hw ha hr =>
      show ownerStopW s.pool.length s.owner + wsum Worker.sweight (s.ws.set w .exited) <
        ownerStopW s.pool.length s.owner + wsum Worker.sweight s.ws
      have := wsum_set (f := Worker.sweight) (x := .exited) hw
      rw [awake_sweight ha] at this; simp only [Worker.sweight] at this; omega
    | workerTake w wk tk q hw ha hr hq => rw [hnr] at hr; cases hr
    | workerPark w wk hw ha hr hq => rw [hnr] at hr; cases hr
    | workerRunEnd w tk hw =>
      show ownerStopW s.pool.length s.owner + wsum Worker.sweight (s.ws.set w (.ran tk)) <
        ownerStopW s.pool.length s.owner + wsum Worker.sweight s.ws
      have := wsum_set (f := Worker.sweight) (x := .ran tk) hw
      simp only [Worker.sweight] at this; omega
    | workerDelete w tk hw =>
      show ownerStopW s.pool.length s.owner + wsum Worker.sweight (s.ws.set w .check) <
        ownerStopW s.pool.length s.owner + wsum Worker.sweight s.ws
      have := wsum_set (f := Worker.sweight) (x := .check) hw
      simp only [Worker.sweight] at this; omega

end TPool
