import Tulz.Proofs.Pool.Drop
/-
  The executable step function `xstep?` run by the driver takes exactly the steps of the relation `Step`
  the theorems quantify over.
-/
namespace TPool

theorem noneAsleep_iff {ws : List Worker} : noneAsleep ws = true ↔ ∀ w : Nat, ws[w]? ≠ some (Worker.parked false) := by
  unfold noneAsleep
  rw [List.all_eq_true]
  constructor
  · intro h w hw
    have := h _ (List.mem_of_getElem? hw)
    simp at this
  · intro h x hx
    obtain ⟨i, hi, rfl⟩ := List.getElem_of_mem hx
    have := h i
    rw [List.getElem?_eq_getElem hi] at this
    simp only [bne_iff_ne, ne_eq]
    intro e; exact this (by rw [e])

theorem awakeStep_step {s : State} {w : Nat} {wk : Worker} (hw : s.ws[w]? = some wk) (ha : wk.awake = true) :
    Step s (awakeStep s w) := by
  unfold awakeStep
  by_cases hr : s.running = false
  · rw [if_pos hr]; exact Step.workerExit s w wk hw ha hr
  · rw [if_neg hr]
    have hr' : s.running = true := by
      cases h : s.running with
      | true => rfl
      | false => exact absurd h hr
    split
    · rename_i hq; exact Step.workerPark s w wk hw ha hr' hq
    · rename_i t q hq; exact Step.workerTake s w wk t q hw ha hr' hq

theorem ownerStep?_sound {s t : State} {wk : Option Nat} (h : ownerStep? s wk = some t) : Step s t := by
  unfold ownerStep? at h
  split at h
  · rename_i tk todo ho; cases h; exact Step.start s tk todo ho
  · rename_i todo ho; cases h; exact Step.clear s todo ho
  · rename_i todo ho; cases h; exact Step.stop s todo ho
  · rename_i todo ho
    split at h
    · rename_i hlt; cases h; exact Step.spawnYes s todo ho hlt
    · rename_i hlt; cases h; exact Step.spawnNo s todo ho hlt
  · rename_i todo w ho
    split at h
    · rename_i hw; cases h; exact Step.notifyHit s todo w ho hw
    · cases h
  · rename_i todo ho
    split at h
    · rename_i hn; cases h; exact Step.notifyMiss s todo ho (noneAsleep_iff.1 hn)
    · cases h
  · rename_i todo ho; cases h; exact Step.stopNotify s todo ho
  · rename_i w rem todo ho
    split at h
    · rename_i hw; cases h; exact Step.joinOne s w rem todo ho hw
    · cases h
  · rename_i todo ho; cases h; exact Step.joinDone s todo ho
  · rename_i todo ho; cases h; exact Step.stopClear s todo ho
  · cases h

theorem workerStep?_sound {s t : State} {w : Nat} (h : workerStep? s w = some t) : Step s t := by
  unfold workerStep? at h
  split at h
  · rename_i hw; cases h; exact awakeStep_step hw rfl
  · rename_i hw; cases h; exact awakeStep_step hw rfl
  · rename_i tk hw; cases h; exact Step.workerRunEnd s w tk hw
  · rename_i tk hw; cases h; exact Step.workerDelete s w tk hw
  · cases h

/-- the executable step function only takes steps of the relation the theorems quantify over -/
theorem xstep?_sound {s t : State} {l : Label} (h : xstep? s l = some t) : Step s t := by
  cases l with
  | owner wk => exact ownerStep?_sound h
  | worker w => exact workerStep?_sound h

theorem workerStep?_awake {s : State} {w : Nat} {wk : Worker} (hw : s.ws[w]? = some wk) (ha : wk.awake = true) :
    workerStep? s w = some (awakeStep s w) := by
  unfold workerStep?
  cases wk with
  | check => rw [hw]
  | parked n =>
    cases n with
    | true => rw [hw]
    | false => simp [Worker.awake] at ha
  | _ => simp [Worker.awake] at ha

/-- … and every step of the relation is the step function's answer for the thread that moves -/
theorem xstep?_complete {s t : State} (h : Step s t) : ∃ l, xstep? s l = some t := by
  cases h with
  | start tk todo ho => exact ⟨.owner none, by simp [xstep?, ownerStep?, ho]⟩
  | spawnYes todo ho hlt => exact ⟨.owner none, by simp [xstep?, ownerStep?, ho, hlt]⟩
  | spawnNo todo ho hlt => exact ⟨.owner none, by simp [xstep?, ownerStep?, ho, hlt]⟩
  | notifyHit todo w ho hw => exact ⟨.owner (some w), by simp [xstep?, ownerStep?, ho, hw]⟩
  | notifyMiss todo ho hn => exact ⟨.owner none, by simp [xstep?, ownerStep?, ho, noneAsleep_iff.2 hn]⟩
  | clear todo ho => exact ⟨.owner none, by simp [xstep?, ownerStep?, ho]⟩
  | stop todo ho => exact ⟨.owner none, by simp [xstep?, ownerStep?, ho]⟩
  | stopNotify todo ho => exact ⟨.owner none, by simp [xstep?, ownerStep?, ho]⟩
  | joinOne w rem todo ho hw => exact ⟨.owner none, by simp [xstep?, ownerStep?, ho, hw]⟩
  | joinDone todo ho => exact ⟨.owner none, by simp [xstep?, ownerStep?, ho]⟩
  | stopClear todo ho => exact ⟨.owner none, by simp [xstep?, ownerStep?, ho]⟩
  | workerExit w wk hw ha hr =>
    exact ⟨.worker w, by rw [xstep?, workerStep?_awake hw ha]; simp [awakeStep, hr]⟩
  | workerTake w wk tk q hw ha hr hq =>
    exact ⟨.worker w, by rw [xstep?, workerStep?_awake hw ha]; simp [awakeStep, hr, hq]⟩
  | workerPark w wk hw ha hr hq =>
    exact ⟨.worker w, by rw [xstep?, workerStep?_awake hw ha]; simp [awakeStep, hr, hq]⟩
  | workerRunEnd w tk hw => exact ⟨.worker w, by simp [xstep?, workerStep?, hw]⟩
  | workerDelete w tk hw => exact ⟨.worker w, by simp [xstep?, workerStep?, hw]⟩

/-- the step function is a function: one label, one successor (the scheduler's label determines the model step) -/
theorem xstep?_deterministic {s t u : State} {l : Label} (h1 : xstep? s l = some t) (h2 : xstep? s l = some u) : t = u := by
  rw [h1] at h2; cases h2; rfl

theorem xrun?_reach {max prog} {s t : State} {ls : List Label} (h : Reach max prog s) (hr : xrun? s ls = some t) :
    Reach max prog t := by
  induction ls generalizing s with
  | nil => simp [xrun?] at hr; subst hr; exact h
  | cons l ls ih =>
    unfold xrun? at hr
    split at hr
    · rename_i u hu; exact ih (h.code (xstep?_sound hu)) hr
    · cases hr

end TPool
