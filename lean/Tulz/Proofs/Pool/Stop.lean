import Tulz.Proofs.Pool.Own
namespace TPool

structure StopInv (s : State) : Prop where
  flag_stop : ∀ todo, s.owner = .stopNotify todo → s.running = false
  phase : ∀ todo, (∃ rem, s.owner = .join rem todo) ∨ s.owner = .clearQ todo →
      s.running = false ∧ ∀ w : Nat, s.ws[w]? ≠ some (Worker.parked false)
  starting : ∀ todo, s.owner = .spawn todo ∨ s.owner = .notifyOne todo → s.stopped = false ∧ s.running = true
  pool_idx : ∀ w ∈ s.pool, w < s.ws.length
  outside : ∀ (w : Nat) (wk : Worker), s.ws[w]? = some wk → w ∉ s.pool → wk = .exited
  join_rem : ∀ rem todo, s.owner = .join rem todo →
      (∀ w ∈ rem, w ∈ s.pool) ∧ (∀ w ∈ s.pool, w ∈ rem ∨ s.ws[w]? = some .exited)
  clearq_pool : ∀ todo, s.owner = .clearQ todo → s.pool = []
  stopped_ok : s.stopped = true → s.running = false ∧ s.pool = []
  max_ok : s.pool.length ≤ s.max

theorem get_set_cases {α} {l : List α} {i j : Nat} {x p : α} (h : (l.set i x)[j]? = some p) :
    (j = i ∧ p = x) ∨ (j ≠ i ∧ l[j]? = some p) := by
  by_cases e : j = i
  · subst e
    have hlt : j < l.length := by
      rcases Nat.lt_or_ge j l.length with h' | h'
      · exact h'
      · rw [List.getElem?_eq_none (by simpa using h')] at h; cases h
    rw [List.getElem?_set_self hlt] at h; cases h; exact Or.inl ⟨rfl, rfl⟩
  · rw [List.getElem?_set_ne (Ne.symm e)] at h; exact Or.inr ⟨e, h⟩

theorem stop_init (max prog) : StopInv (init max prog) := by
  refine ⟨?_, ?_, ?_, ?_, ?_, ?_, ?_, ?_, ?_⟩ <;> simp [init]

/-- a worker that is not `exited` belongs to the pool -/
theorem StopInv.in_pool {s : State} (S : StopInv s) {w : Nat} {wk : Worker} (hw : s.ws[w]? = some wk) (hne : wk ≠ .exited) :
    w ∈ s.pool := by
  apply Classical.byContradiction
  intro h; exact hne (S.outside w wk hw h)

/-- one cell of `ws` rewritten by a worker-side step; owner, pool, running, stopped, max unchanged -/
theorem stop_cell {s : State} (S : StopInv s) (w : Nat) (wk x : Worker) (hw : s.ws[w]? = some wk) (hne : wk ≠ .exited)
    (hx : x ≠ .parked false ∨ s.running = true) (t : State)
    (ht : t.ws = s.ws.set w x ∧ t.owner = s.owner ∧ t.pool = s.pool ∧ t.running = s.running ∧ t.stopped = s.stopped ∧ t.max = s.max) :
    StopInv t := by
  obtain ⟨hws, ho, hp, hr, hst, hm⟩ := ht
  have hin := S.in_pool hw hne
  refine ⟨?_, ?_, ?_, ?_, ?_, ?_, ?_, ?_, ?_⟩
  · intro todo h'; rw [hr]; exact S.flag_stop todo (by rw [← ho]; exact h')
  · intro todo h'
    have := S.phase todo (by rw [← ho]; exact h')
    refine ⟨by rw [hr]; exact this.1, ?_⟩
    intro w' hw'
    rw [hws] at hw'
    rcases get_set_cases hw' with ⟨_, e⟩ | ⟨_, h2⟩
    · rcases hx with hx | hx
      · exact hx e.symm
      · rw [this.1] at hx; cases hx
    · exact this.2 w' h2
  · intro todo h'; rw [hst, hr]; exact S.starting todo (by rw [← ho]; exact h')
  · intro w' hw'; rw [hws, List.length_set]; exact S.pool_idx w' (by rw [← hp]; exact hw')
  · intro w' wk' hw' hnp
    rw [hws] at hw'; rw [hp] at hnp
    rcases get_set_cases hw' with ⟨e, _⟩ | ⟨_, h2⟩
    · subst e; exact absurd hin hnp
    · exact S.outside w' wk' h2 hnp
  · intro rem todo h'
    have := S.join_rem rem todo (by rw [← ho]; exact h')
    refine ⟨by rw [hp]; exact this.1, ?_⟩
    intro w' hw'
    rw [hp] at hw'
    rcases this.2 w' hw' with h1 | h1
    · exact Or.inl h1
    · right
      have hne' : w' ≠ w := by intro e; subst e; rw [hw] at h1; cases h1; exact hne rfl
      rw [hws, List.getElem?_set_ne (Ne.symm hne')]; exact h1
  · intro todo h'; rw [hp]; exact S.clearq_pool todo (by rw [← ho]; exact h')
  · intro h'; rw [hr, hp]; exact S.stopped_ok (by rw [← hst]; exact h')
  · rw [hp, hm]; exact S.max_ok

theorem awake_ne_exited {wk : Worker} (h : wk.awake = true) : wk ≠ .exited := by
  intro e; subst e; simp [Worker.awake] at h

theorem stop_step {s t : State} (S : StopInv s) (h : Step s t) : StopInv t := by
  cases h with
  | start tk todo ho =>
    refine ⟨?_, ?_, ?_, S.pool_idx, S.outside, ?_, ?_, ?_, S.max_ok⟩
    · intro todo' h'; cases h'
    · intro todo' h'; rcases h' with ⟨rem, h'⟩ | h' <;> cases h'
    · intro _ _; exact ⟨rfl, rfl⟩
    · intro rem todo' h'; cases h'
    · intro todo' h'; cases h'
    · intro h'; cases h'
  | spawnYes todo ho hlt =>
    have hst := S.starting todo (Or.inl ho)
    refine ⟨?_, ?_, ?_, ?_, ?_, ?_, ?_, ?_, ?_⟩
    · intro todo' h'; cases h'
    · intro todo' h'; rcases h' with ⟨rem, h'⟩ | h' <;> cases h'
    · intro _ _; exact hst
    · intro w hw
      show w < (s.ws ++ [Worker.check]).length
      rw [List.mem_append] at hw
      rcases hw with hw | hw
      · have := S.pool_idx w hw; simp; omega
      · simp at hw; subst hw; simp
    · intro w wk hw hnp
      have hnp1 : w ∉ s.pool := fun h' => hnp (List.mem_append_left _ h')
      have hnp2 : w ≠ s.ws.length := fun h' => hnp (by rw [h']; exact List.mem_append_right _ (by simp))
      have hw' : (s.ws ++ [Worker.check])[w]? = some wk := hw
      by_cases hlt' : w < s.ws.length
      · rw [List.getElem?_append_left hlt'] at hw'; exact S.outside w wk hw' hnp1
      · rw [List.getElem?_eq_none (by simp; omega)] at hw'; cases hw'
    · intro rem todo' h'; cases h'
    · intro todo' h'; cases h'
    · intro h'; rw [hst.1] at h'; cases h'
    · show (s.pool ++ [s.ws.length]).length ≤ s.max
      simp; omega
  | spawnNo todo ho hlt =>
    have hst := S.starting todo (Or.inl ho)
    refine ⟨?_, ?_, ?_, S.pool_idx, S.outside, ?_, ?_, S.stopped_ok, S.max_ok⟩
    · intro todo' h'; cases h'
    · intro todo' h'; rcases h' with ⟨rem, h'⟩ | h' <;> cases h'
    · intro _ _; exact hst
    · intro rem todo' h'; cases h'
    · intro todo' h'; cases h'
  | notifyHit todo w ho hw =>
    have hst := S.starting todo (Or.inr ho)
    have hin := S.in_pool hw (by simp)
    refine ⟨?_, ?_, ?_, ?_, ?_, ?_, ?_, S.stopped_ok, S.max_ok⟩
    · intro todo' h'; cases h'
    · intro todo' h'; rcases h' with ⟨rem, h'⟩ | h' <;> cases h'
    · intro todo' h'; rcases h' with h' | h' <;> cases h'
    · intro w' hw'; show w' < (s.ws.set w _).length; rw [List.length_set]; exact S.pool_idx w' hw'
    · intro w' wk' hw' hnp
      rcases get_set_cases hw' with ⟨e, _⟩ | ⟨_, h2⟩
      · subst e; exact absurd hin hnp
      · exact S.outside w' wk' h2 hnp
    · intro rem todo' h'; cases h'
    · intro todo' h'; cases h'
  | notifyMiss todo ho hn =>
    refine ⟨?_, ?_, ?_, S.pool_idx, S.outside, ?_, ?_, S.stopped_ok, S.max_ok⟩
    · intro todo' h'; cases h'
    · intro todo' h'; rcases h' with ⟨rem, h'⟩ | h' <;> cases h'
    · intro todo' h'; rcases h' with h' | h' <;> cases h'
    · intro rem todo' h'; cases h'
    · intro todo' h'; cases h'
  | clear todo ho =>
    refine ⟨?_, ?_, ?_, S.pool_idx, S.outside, ?_, ?_, S.stopped_ok, S.max_ok⟩
    · intro todo' h'; cases h'
    · intro todo' h'; rcases h' with ⟨rem, h'⟩ | h' <;> cases h'
    · intro todo' h'; rcases h' with h' | h' <;> cases h'
    · intro rem todo' h'; cases h'
    · intro todo' h'; cases h'
  | stop todo ho =>
    refine ⟨?_, ?_, ?_, S.pool_idx, S.outside, ?_, ?_, ?_, S.max_ok⟩
    · intro _ _; rfl
    · intro todo' h'; rcases h' with ⟨rem, h'⟩ | h' <;> cases h'
    · intro todo' h'; rcases h' with h' | h' <;> cases h'
    · intro rem todo' h'; cases h'
    · intro todo' h'; cases h'
    · intro h'; exact ⟨rfl, (S.stopped_ok h').2⟩
  | stopNotify todo ho =>
    have hr := S.flag_stop todo ho
    refine ⟨?_, ?_, ?_, ?_, ?_, ?_, ?_, ?_, S.max_ok⟩
    · intro todo' h'; cases h'
    · intro todo' _
      refine ⟨hr, ?_⟩
      intro w hw
      have hw' : (s.ws.map wakeAll)[w]? = some (Worker.parked false) := hw
      rw [List.getElem?_map] at hw'
      cases hq : s.ws[w]? with
      | none => rw [hq] at hw'; cases hw'
      | some q => rw [hq] at hw'; cases q <;> simp [wakeAll] at hw'
    · intro todo' h'; rcases h' with h' | h' <;> cases h'
    · intro w hw; show w < (s.ws.map wakeAll).length; rw [List.length_map]; exact S.pool_idx w hw
    · intro w wk hw hnp
      have hw' : (s.ws.map wakeAll)[w]? = some wk := hw
      rw [List.getElem?_map] at hw'
      cases hq : s.ws[w]? with
      | none => rw [hq] at hw'; cases hw'
      | some q =>
        rw [hq] at hw'
        have := S.outside w q hq hnp
        subst this; simp [wakeAll] at hw'; exact hw'.symm
    · intro rem todo' h'
      cases h'
      exact ⟨fun w hw => hw, fun w hw => Or.inl hw⟩
    · intro todo' h'; cases h'
    · intro h'; exact ⟨hr, (S.stopped_ok h').2⟩
  | joinOne w rem todo ho hw =>
    have hph := S.phase todo (Or.inl ⟨_, ho⟩)
    have hj := S.join_rem _ todo ho
    refine ⟨?_, ?_, ?_, S.pool_idx, S.outside, ?_, ?_, S.stopped_ok, S.max_ok⟩
    · intro todo' h'; cases h'
    · intro todo' _; exact hph
    · intro todo' h'; rcases h' with h' | h' <;> cases h'
    · intro rem' todo' h'
      cases h'
      refine ⟨fun w' hw' => hj.1 w' (List.mem_cons_of_mem _ hw'), ?_⟩
      intro w' hw'
      rcases hj.2 w' hw' with h1 | h1
      · rw [List.mem_cons] at h1
        rcases h1 with e | h1
        · subst e; exact Or.inr hw
        · exact Or.inl h1
      · exact Or.inr h1
    · intro todo' h'; cases h'
  | joinDone todo ho =>
    have hph := S.phase todo (Or.inl ⟨_, ho⟩)
    have hj := S.join_rem _ todo ho
    refine ⟨?_, ?_, ?_, ?_, ?_, ?_, ?_, ?_, ?_⟩
    · intro todo' h'; cases h'
    · intro todo' _; exact hph
    · intro todo' h'; rcases h' with h' | h' <;> cases h'
    · intro w hw; cases hw
    · intro w wk hw _
      by_cases hp : w ∈ s.pool
      · rcases hj.2 w hp with h1 | h1
        · cases h1
        · rw [hw] at h1; cases h1; rfl
      · exact S.outside w wk hw hp
    · intro rem todo' h'; cases h'
    · intro _ _; rfl
    · intro h'; exact ⟨hph.1, rfl⟩
    · show ([] : List Nat).length ≤ s.max; simp
  | stopClear todo ho =>
    have hph := S.phase todo (Or.inr ho)
    have hp := S.clearq_pool todo ho
    refine ⟨?_, ?_, ?_, S.pool_idx, S.outside, ?_, ?_, ?_, S.max_ok⟩
    · intro todo' h'; cases h'
    · intro todo' h'; rcases h' with ⟨rem, h'⟩ | h' <;> cases h'
    · intro todo' h'; rcases h' with h' | h' <;> cases h'
    · intro rem todo' h'; cases h'
    · intro todo' h'; cases h'
    · intro _; exact ⟨hph.1, hp⟩
  | workerExit w wk hw ha hr =>
    exact stop_cell S w wk .exited hw (awake_ne_exited ha) (Or.inl (by simp)) _ ⟨rfl, rfl, rfl, rfl, rfl, rfl⟩
  | workerTake w wk tk q hw ha hr hq =>
    exact stop_cell S w wk (.running tk) hw (awake_ne_exited ha) (Or.inl (by simp)) _ ⟨rfl, rfl, rfl, rfl, rfl, rfl⟩
  | workerPark w wk hw ha hr hq =>
    exact stop_cell S w wk (.parked false) hw (awake_ne_exited ha) (Or.inr hr) _ ⟨rfl, rfl, rfl, rfl, rfl, rfl⟩
  | workerRunEnd w tk hw =>
    exact stop_cell S w _ (.ran tk) hw (by simp) (Or.inl (by simp)) _ ⟨rfl, rfl, rfl, rfl, rfl, rfl⟩
  | workerDelete w tk hw =>
    exact stop_cell S w _ .check hw (by simp) (Or.inl (by simp)) _ ⟨rfl, rfl, rfl, rfl, rfl, rfl⟩

theorem stop_sstep {s t : State} (S : StopInv s) (h : SStep s t) : StopInv t := by
  cases h with
  | code hs => exact stop_step S hs
  | spurious w hw =>
    exact stop_cell S w _ (.parked true) hw (by simp) (Or.inl (by simp)) _ ⟨rfl, rfl, rfl, rfl, rfl, rfl⟩

theorem reach_stop {max prog s} (h : Reach max prog s) : StopInv s := by
  induction h with
  | init => exact stop_init max prog
  | step _ hs ih => exact stop_sstep ih hs

/-- **C08 (bound)**: the pool never holds more than the configured maximum of worker threads. -/
theorem pool_le_max (max prog s) (h : Reach max prog s) : s.pool.length ≤ s.max := (reach_stop h).max_ok

/-- **C08 (progress)**: while the owner is inside `stop()` some step is always enabled — `stop()` cannot hang. -/
theorem stop_progress (max prog s) (h : Reach max prog s)
    (hs : (∃ todo, s.owner = .stopNotify todo) ∨ (∃ rem todo, s.owner = .join rem todo) ∨ (∃ todo, s.owner = .clearQ todo)) :
    ∃ t, Step s t := by
  have S := reach_stop h
  rcases hs with ⟨todo, ho⟩ | ⟨rem, todo, ho⟩ | ⟨todo, ho⟩
  · exact ⟨_, Step.stopNotify s todo ho⟩
  · cases rem with
    | nil => exact ⟨_, Step.joinDone s todo ho⟩
    | cons w rem =>
      have hph := S.phase todo (Or.inl ⟨_, ho⟩)
      have hin := (S.join_rem _ todo ho).1 w (by simp)
      have hlt := S.pool_idx w hin
      have hw : s.ws[w]? = some (s.ws[w]'hlt) := List.getElem?_eq_getElem hlt
      cases hwk : s.ws[w]'hlt with
      | exited => rw [hwk] at hw; exact ⟨_, Step.joinOne s w rem todo ho hw⟩
      | check => rw [hwk] at hw; exact ⟨_, Step.workerExit s w _ hw rfl hph.1⟩
      | parked n =>
        rw [hwk] at hw
        cases n with
        | true => exact ⟨_, Step.workerExit s w _ hw rfl hph.1⟩
        | false => exact absurd hw (hph.2 w)
      | running tk => rw [hwk] at hw; exact ⟨_, Step.workerRunEnd s w tk hw⟩
      | ran tk => rw [hwk] at hw; exact ⟨_, Step.workerDelete s w tk hw⟩
  · exact ⟨_, Step.stopClear s todo ho⟩

/-- **C08 (state after stop)**: the step that returns from `stop()` leaves no pool thread, only exited workers,
    an empty queue, the flag cleared — and everything that was still queued destroyed. -/
theorem after_stop (max prog s t) (h : Reach max prog s) (todo) (ho : s.owner = .clearQ todo)
    (hst : t = { destroyAll s with owner := .idle todo, stopped := true }) :
    t.pool = [] ∧ (∀ (w : Nat) (wk : Worker), t.ws[w]? = some wk → wk = .exited) ∧ t.queue = [] ∧ t.running = false ∧
    (∀ tk ∈ s.queue, tk ∈ t.destroyed) := by
  have S := reach_stop h
  have hp := S.clearq_pool todo ho
  have hph := S.phase todo (Or.inr ho)
  subst hst
  refine ⟨hp, ?_, rfl, hph.1, ?_⟩
  · intro w wk hw; exact S.outside w wk hw (by rw [hp]; simp)
  · intro tk htk; show tk ∈ s.destroyed ++ s.queue; exact List.mem_append_right _ htk

end TPool

