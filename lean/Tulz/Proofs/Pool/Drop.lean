import Tulz.Proofs.Pool.Live
/-
  Invariants behind the quiescent-state corollary of C07:
  `Drop`  — what the ghost list `dropped` (tasks destroyed by clear()/stop() while still queued) means,
  `Quies` — the owner's program bookkeeping and "stopped and idle ⇒ the queue is empty".
-/
namespace TPool

structure Drop (s : State) : Prop where
  drop_destroyed : ∀ t ∈ s.dropped, t ∈ s.destroyed
  drop_not_run : ∀ t ∈ s.dropped, t ∉ s.runs
  destroyed_src : ∀ t ∈ s.destroyed, t ∈ s.dropped ∨ t ∈ s.finished
  fin_nodup : s.finished.Nodup

theorem drop_init (max prog) : Drop (init max prog) := by
  refine ⟨?_, ?_, ?_, ?_⟩ <;> simp [init]

theorem drop_frame {s t : State} (D : Drop s) (h1 : t.dropped = s.dropped) (h2 : t.destroyed = s.destroyed)
    (h3 : t.runs = s.runs) (h4 : t.finished = s.finished) : Drop t :=
  ⟨by rw [h1, h2]; exact D.drop_destroyed, by rw [h1, h3]; exact D.drop_not_run, by rw [h1, h2, h4]; exact D.destroyed_src,
   by rw [h4]; exact D.fin_nodup⟩

theorem drop_destroyAll {s t : State} (R : Runs s) (D : Drop s) (h1 : t.dropped = s.dropped ++ s.queue)
    (h2 : t.destroyed = s.destroyed ++ s.queue) (h3 : t.runs = s.runs) (h4 : t.finished = s.finished) : Drop t := by
  refine ⟨?_, ?_, ?_, by rw [h4]; exact D.fin_nodup⟩
  · intro x hx; rw [h1] at hx; rw [h2]
    rcases List.mem_append.1 hx with h | h
    · exact List.mem_append_left _ (D.drop_destroyed x h)
    · exact List.mem_append_right _ h
  · intro x hx hr; rw [h1] at hx; rw [h3] at hr
    rcases List.mem_append.1 hx with h | h
    · exact D.drop_not_run x h hr
    · exact R.runs_not_queued x hr h
  · intro x hx; rw [h2] at hx; rw [h1, h4]
    rcases List.mem_append.1 hx with h | h
    · rcases D.destroyed_src x h with h' | h'
      · exact Or.inl (List.mem_append_left _ h')
      · exact Or.inr h'
    · exact Or.inl (List.mem_append_right _ h)

theorem drop_step {s t : State} (O : Own s) (R : Runs s) (D : Drop s) (h : Step s t) : Drop t := by
  cases h with
  | start tk todo ho => exact drop_frame D rfl rfl rfl rfl
  | spawnYes todo ho hlt => exact drop_frame D rfl rfl rfl rfl
  | spawnNo todo ho hlt => exact drop_frame D rfl rfl rfl rfl
  | notifyHit todo w ho hw => exact drop_frame D rfl rfl rfl rfl
  | notifyMiss todo ho hn => exact drop_frame D rfl rfl rfl rfl
  | clear todo ho => exact drop_destroyAll R D rfl rfl rfl rfl
  | stop todo ho => exact drop_frame D rfl rfl rfl rfl
  | stopNotify todo ho => exact drop_frame D rfl rfl rfl rfl
  | joinOne w rem todo ho hw => exact drop_frame D rfl rfl rfl rfl
  | joinDone todo ho => exact drop_frame D rfl rfl rfl rfl
  | stopClear todo ho => exact drop_destroyAll R D rfl rfl rfl rfl
  | workerExit w wk hw ha hr => exact drop_frame D rfl rfl rfl rfl
  | workerPark w wk hw ha hr hq => exact drop_frame D rfl rfl rfl rfl
  | workerTake w wk tk q hw ha hr hq =>
    have htq : tk ∈ s.queue := by rw [hq]; simp
    refine ⟨D.drop_destroyed, ?_, D.destroyed_src, D.fin_nodup⟩
    intro x hx hr'
    have hr'' : x ∈ s.runs ++ [tk] := hr'
    rcases List.mem_append.1 hr'' with h1 | h1
    · exact D.drop_not_run x hx h1
    · simp at h1; subst h1
      -- x is queued, hence not destroyed, hence not dropped
      have hn := O.nodup_all
      rw [List.nodup_append] at hn
      exact absurd rfl (hn.2.2 x (List.mem_append_left _ htq) x (D.drop_destroyed x hx))
  | workerRunEnd w tk hw =>
    refine ⟨D.drop_destroyed, D.drop_not_run, ?_, ?_⟩
    · intro x hx
      rcases D.destroyed_src x hx with h' | h'
      · exact Or.inl h'
      · exact Or.inr (show x ∈ s.finished ++ [tk] from List.mem_append_left _ h')
    · show (s.finished ++ [tk]).Nodup
      rw [List.nodup_append]
      exact ⟨D.fin_nodup, by simp, fun a ha b hb => by
        simp at hb; subst hb; intro e; subst e; exact (R.running_ok w a hw).2 ha⟩
  | workerDelete w tk hw =>
    have hfin := R.ran_ok w tk hw
    refine ⟨?_, D.drop_not_run, ?_, D.fin_nodup⟩
    · intro x hx; show x ∈ s.destroyed ++ [tk]; exact List.mem_append_left _ (D.drop_destroyed x hx)
    · intro x hx
      have hx' : x ∈ s.destroyed ++ [tk] := hx
      rcases List.mem_append.1 hx' with h1 | h1
      · exact D.destroyed_src x h1
      · simp at h1; subst h1; exact Or.inr hfin

theorem drop_sstep {s t : State} (O : Own s) (R : Runs s) (D : Drop s) (h : SStep s t) : Drop t := by
  cases h with
  | code hs => exact drop_step O R D hs
  | spurious w hw => exact drop_frame D rfl rfl rfl rfl

theorem reach_drop {max prog s} (hp : (tasksOf prog).Nodup) (h : Reach max prog s) : Drop s := by
  induction h with
  | init => exact drop_init max prog
  | step hr hs ih => exact drop_sstep (reach_own hp hr) (reach_runs hp hr) ih hs

/-! ### program bookkeeping -/

def spawnPending : Owner → Nat
  | .spawn _ => 1
  | _ => 0

structure Quies (prog : List OwnerOp) (s : State) : Prop where
  idle_q : ∀ todo, s.owner = .idle todo → s.running = false → s.queue = []
  prog_tasks : s.submitted ++ tasksOf s.owner.todo = tasksOf prog
  spawned : s.ws.length + spawnPending s.owner ≤ s.submitted.length

theorem quies_init (max prog) : Quies prog (init max prog) := by
  refine ⟨?_, ?_, ?_⟩ <;> simp [init, Owner.todo, spawnPending]

theorem quies_step {prog} {s t : State} (S : StopInv s) (Q : Quies prog s) (h : Step s t) : Quies prog t := by
  have hpt := Q.prog_tasks
  have hsp := Q.spawned
  cases h with
  | start tk todo ho =>
    rw [ho] at hpt hsp
    refine ⟨?_, ?_, ?_⟩
    · intro todo' h'; cases h'
    · show (s.submitted ++ [tk]) ++ tasksOf todo = tasksOf prog
      simpa [Owner.todo, tasksOf, List.append_assoc] using hpt
    · show s.ws.length + 1 ≤ (s.submitted ++ [tk]).length
      simp [spawnPending] at hsp ⊢; omega
  | spawnYes todo ho hlt =>
    rw [ho] at hpt hsp
    refine ⟨?_, hpt, ?_⟩
    · intro todo' h'; cases h'
    · show (s.ws ++ [Worker.check]).length + 0 ≤ s.submitted.length
      simp [spawnPending] at hsp ⊢; omega
  | spawnNo todo ho hlt =>
    rw [ho] at hpt hsp
    refine ⟨?_, hpt, ?_⟩
    · intro todo' h'; cases h'
    · show s.ws.length + 0 ≤ s.submitted.length
      simp [spawnPending] at hsp; omega
  | notifyHit todo w ho hw =>
    have hst := S.starting todo (Or.inr ho)
    rw [ho] at hpt hsp
    refine ⟨?_, hpt, ?_⟩
    · intro todo' _ hr
      have hr' : s.running = false := hr
      rw [hst.2] at hr'; cases hr'
    · show (s.ws.set w _).length + 0 ≤ s.submitted.length
      simp [spawnPending] at hsp ⊢; omega
  | notifyMiss todo ho hn =>
    have hst := S.starting todo (Or.inr ho)
    rw [ho] at hpt hsp
    refine ⟨?_, hpt, ?_⟩
    · intro todo' _ hr
      have hr' : s.running = false := hr
      rw [hst.2] at hr'; cases hr'
    · show s.ws.length + 0 ≤ s.submitted.length
      simp [spawnPending] at hsp; omega
  | clear todo ho =>
    rw [ho] at hpt hsp
    refine ⟨fun _ _ _ => rfl, ?_, ?_⟩
    · show s.submitted ++ tasksOf todo = tasksOf prog
      simpa [Owner.todo, tasksOf] using hpt
    · show s.ws.length + 0 ≤ s.submitted.length
      simp [spawnPending] at hsp; omega
  | stop todo ho =>
    rw [ho] at hpt hsp
    refine ⟨?_, ?_, ?_⟩
    · intro todo' h'; cases h'
    · show s.submitted ++ tasksOf todo = tasksOf prog
      simpa [Owner.todo, tasksOf] using hpt
    · show s.ws.length + 0 ≤ s.submitted.length
      simp [spawnPending] at hsp; omega
  | stopNotify todo ho =>
    rw [ho] at hpt hsp
    refine ⟨?_, hpt, ?_⟩
    · intro todo' h'; cases h'
    · show (s.ws.map wakeAll).length + 0 ≤ s.submitted.length
      simp [spawnPending] at hsp ⊢; omega
  | joinOne w rem todo ho hw =>
    rw [ho] at hpt hsp
    refine ⟨?_, hpt, ?_⟩
    · intro todo' h'; cases h'
    · show s.ws.length + 0 ≤ s.submitted.length
      simp [spawnPending] at hsp; omega
  | joinDone todo ho =>
    rw [ho] at hpt hsp
    refine ⟨?_, hpt, ?_⟩
    · intro todo' h'; cases h'
    · show s.ws.length + 0 ≤ s.submitted.length
      simp [spawnPending] at hsp; omega
  | stopClear todo ho =>
    rw [ho] at hpt hsp
    refine ⟨fun _ _ _ => rfl, hpt, ?_⟩
    show s.ws.length + 0 ≤ s.submitted.length
    simp [spawnPending] at hsp; omega
  | workerExit w wk hw ha hr =>
    refine ⟨Q.idle_q, hpt, ?_⟩
    show (s.ws.set w _).length + spawnPending s.owner ≤ s.submitted.length
    rw [List.length_set]; exact hsp
  | workerPark w wk hw ha hr hq =>
    refine ⟨Q.idle_q, hpt, ?_⟩
    show (s.ws.set w _).length + spawnPending s.owner ≤ s.submitted.length
    rw [List.length_set]; exact hsp
  | workerTake w wk tk q hw ha hr hq =>
    refine ⟨?_, hpt, ?_⟩
    · intro todo _ hr'
      have hr'' : s.running = false := hr'
      rw [hr] at hr''; cases hr''
    · show (s.ws.set w _).length + spawnPending s.owner ≤ s.submitted.length
      rw [List.length_set]; exact hsp
  | workerRunEnd w tk hw =>
    refine ⟨Q.idle_q, hpt, ?_⟩
    show (s.ws.set w _).length + spawnPending s.owner ≤ s.submitted.length
    rw [List.length_set]; exact hsp
  | workerDelete w tk hw =>
    refine ⟨Q.idle_q, hpt, ?_⟩
    show (s.ws.set w _).length + spawnPending s.owner ≤ s.submitted.length
    rw [List.length_set]; exact hsp

theorem quies_sstep {prog} {s t : State} (S : StopInv s) (Q : Quies prog s) (h : SStep s t) : Quies prog t := by
  cases h with
  | code hs => exact quies_step S Q hs
  | spurious w hw =>
    refine ⟨Q.idle_q, Q.prog_tasks, ?_⟩
    show (s.ws.set w _).length + spawnPending s.owner ≤ s.submitted.length
    rw [List.length_set]; exact Q.spawned

theorem reach_quies {max prog s} (h : Reach max prog s) : Quies prog s := by
  induction h with
  | init => exact quies_init max prog
  | step hr hs ih => exact quies_sstep (reach_stop hr) ih hs

/-- between the return of `stop()` and the next `start` the queue stays empty -/
theorem stoppedq_step {s t : State} (I : s.stopped = true → s.queue = []) (h : Step s t) :
    t.stopped = true → t.queue = [] := by
  cases h with
  | start tk todo ho => intro h'; cases h'
  | clear todo ho => intro _; rfl
  | stopClear todo ho => intro _; rfl
  | workerTake w wk tk q hw ha hr hq => intro h'; have := I h'; rw [hq] at this; cases this
  | _ => exact I

theorem reach_stoppedq {max prog s} (h : Reach max prog s) : s.stopped = true → s.queue = [] := by
  induction h with
  | init => intro h'; cases h'
  | step hr hs ih =>
    cases hs with
    | code hc => exact stoppedq_step ih hc
    | spurious w hw => exact ih

end TPool
