import Tulz.Proofs.Pool.Runs
namespace TPool

theorem reach_own {max prog s} (hp : (tasksOf prog).Nodup) (h : Reach max prog s) : Own s := by
  induction h with
  | init => exact own_init max prog hp
  | step _ hs ih => exact own_sstep ih hs

theorem reach_runs {max prog s} (hp : (tasksOf prog).Nodup) (h : Reach max prog s) : Runs s := by
  induction h with
  | init => exact runs_init max prog
  | step hr hs ih => exact runs_sstep (reach_own hp hr) ih hs

end TPool
