import Tulz.Proofs.Pool.Main
namespace TPool

def Worker.active : Worker → Bool
  | .check => true
  | .parked true => true
  | .running _ => true
  | .ran _ => true
  | _ => false

structure Live (s : State) : Prop where
  idle_stopped : ∀ todo, s.owner = .idle todo → s.running = false → s.pool = []
  alive : s.running = true → ∀ w ∈ s.pool, s.ws[w]? ≠ some Worker.exited
  notify_pool : ∀ todo, s.owner = .notifyOne todo → s.pool ≠ []
  prog : s.queue ≠ [] → s.running = true →
      (∃ todo, s.owner = .spawn todo ∨ s.owner = .notifyOne todo) ∨ ∃ (w : Nat) (wk : Worker), s.ws[w]? = some wk ∧ wk.active = true

theorem live_init (max prog) : Live (init max prog) := by
  refine ⟨?_, ?_, ?_, ?_⟩ <;> simp [init]

theorem active_set {ws : List Worker} {w : Nat} {a x : Worker} (hw : ws[w]? = some a)
    (h : (∃ (w' : Nat) (wk : Worker), ws[w']? = some wk ∧ wk.active = true)) (hx : x.active = true ∨ a.active = false) :
    ∃ (w' : Nat) (wk : Worker), (ws.set w x)[w']? = some wk ∧ wk.active = true := by
  obtain ⟨w', wk, hw', ha⟩ := h
  by_cases e : w' = w
  · subst e
    rw [hw] at hw'; cases hw'
    rcases hx with hx | hx
    · exact ⟨w', x, by rw [List.getElem?_set_self (by
        rcases Nat.lt_or_ge w' ws.length with h' | h'
        · exact h'
        · rw [List.getElem?_eq_none (by simpa using h')] at hw; cases hw)], hx⟩
    · rw [ha] at hx; cases hx
  · exact ⟨w', wk, by rw [List.getElem?_set_ne (Ne.symm e)]; exact hw', ha⟩

theorem self_active {ws : List Worker} {w : Nat} {a x : Worker} (hw : ws[w]? = some a) (hx : x.active = true) :
    ∃ (w' : Nat) (wk : Worker), (ws.set w x)[w']? = some wk ∧ wk.active = true :=
  ⟨w, x, by rw [List.getElem?_set_self (by
      rcases Nat.lt_or_ge w ws.length with h' | h'
      · exact h'
      · rw [List.getElem?_eq_none (by simpa using h')] at hw; cases hw)], hx⟩

theorem live_step {s t : State} (hmax : 1 ≤ s.max) (S : StopInv s) (L : Live s) (h : Step s t) : Live t := by
  cases h with
  | start tk todo ho =>
    refine ⟨?_, ?_, ?_, ?_⟩
    · intro todo' h'; cases h'
    · intro _ w hw
      cases hr : s.running with
      | true => exact L.alive hr w hw
      | false => have := L.idle_stopped _ ho hr; rw [this] at hw; cases hw
    · intro todo' h'; cases h'
    · intro _ _; exact Or.inl ⟨todo, Or.inl rfl⟩
  | spawnYes todo ho hlt =>
    have hst := S.starting todo (Or.inl ho)
    refine ⟨?_, ?_, ?_, ?_⟩
    · intro todo' h'; cases h'
    · intro hr w hw
      have hw' : w ∈ s.pool ++ [s.ws.length] := hw
      show (s.ws ++ [Worker.check])[w]? ≠ some Worker.exited
      rw [List.mem_append] at hw'
      rcases hw' with h1 | h1
      · rw [List.getElem?_append_left (S.pool_idx w h1)]; exact L.alive hr w h1
      · simp at h1; subst h1; simp
    · intro todo' _; show s.pool ++ [s.ws.length] ≠ []; simp
    · intro _ _; exact Or.inl ⟨todo, Or.inr rfl⟩
  | spawnNo todo ho hlt =>
    refine ⟨?_, L.alive, ?_, ?_⟩
    · intro todo' h'; cases h'
    · intro todo' _ hp
      have : s.pool.length = 0 := by rw [hp]; rfl
      omega
    · intro _ _; exact Or.inl ⟨todo, Or.inr rfl⟩
  | notifyHit todo w ho hw =>
    have hst := S.starting todo (Or.inr ho)
    refine ⟨?_, ?_, ?_, ?_⟩
    · intro todo' _ hr; rw [hst.2] at hr; cases hr
    · intro hr w' hw' hex
      rcases get_set_cases hex with ⟨_, e⟩ | ⟨_, h2⟩
      · cases e
      · exact L.alive hr w' hw' h2
    · intro todo' h'; cases h'
    · intro _ _; exact Or.inr (self_active hw rfl)
  | notifyMiss todo ho hn =>
    have hst := S.starting todo (Or.inr ho)
    refine ⟨?_, L.alive, ?_, ?_⟩
    · intro todo' _ hr; rw [hst.2] at hr; cases hr
    · intro todo' h'; cases h'
    · intro _ _
      right
      -- some pool worker exists; it is neither exited (running) nor parked un-notified (miss)
      have hne := L.notify_pool todo ho
      cases hp : s.pool with
      | nil => exact absurd hp hne
      | cons w rest =>
        have hin : w ∈ s.pool := by rw [hp]; simp
        have hlt := S.pool_idx w hin
        have hw : s.ws[w]? = some (s.ws[w]'hlt) := List.getElem?_eq_getElem hlt
        refine ⟨w, _, hw, ?_⟩
        cases hwk : s.ws[w]'hlt with
        | exited => rw [hwk] at hw; exact absurd hw (L.alive hst.2 w hin)
        | parked n =>
          cases n with
          | true => rfl
          | false => rw [hwk] at hw; exact absurd hw (hn w)
        | _ => rfl
  | clear todo ho =>
    refine ⟨?_, L.alive, ?_, ?_⟩
    · intro todo' _ hr; exact L.idle_stopped _ ho hr
    · intro todo' h'; cases h'
    · intro h'; exact absurd rfl h'
  | stop todo ho =>
    refine ⟨?_, ?_, ?_, ?_⟩
    · intro todo' h'; cases h'
    · intro h'; cases h'
    · intro todo' h'; cases h'
    · intro _ h'; cases h'
  | stopNotify todo ho =>
    have hr := S.flag_stop todo ho
    refine ⟨?_, ?_, ?_, ?_⟩
    · intro todo' h'; cases h'
    · intro h'; rw [hr] at h'; cases h'
    · intro todo' h'; cases h'
    · intro _ h'; rw [hr] at h'; cases h'
  | joinOne w rem todo ho hw =>
    have hr := (S.phase todo (Or.inl ⟨_, ho⟩)).1
    refine ⟨?_, ?_, ?_, ?_⟩
    · intro todo' h'; cases h'
    · intro h'; rw [hr] at h'; cases h'
    · intro todo' h'; cases h'
    · intro _ h'; rw [hr] at h'; cases h'
  | joinDone todo ho =>
    have hr := (S.phase todo (Or.inl ⟨_, ho⟩)).1
    refine ⟨?_, ?_, ?_, ?_⟩
    · intro todo' h'; cases h'
    · intro h'; rw [hr] at h'; cases h'
    · intro todo' h'; cases h'
    · intro _ h'; rw [hr] at h'; cases h'
  | stopClear todo ho =>
    have hr := (S.phase todo (Or.inr ho)).1
    refine ⟨?_, ?_, ?_, ?_⟩
    · intro _ _ _; exact S.clearq_pool todo ho
    · intro h'
      have h'' : s.running = true := h'
      rw [hr] at h''; cases h''
    · intro todo' h'; cases h'
    · intro h'; exact absurd rfl h'
  | workerExit w wk hw ha hr =>
    refine ⟨L.idle_stopped, ?_, L.notify_pool, ?_⟩
    · intro h'; rw [hr] at h'; cases h'
    · intro _ h'; rw [hr] at h'; cases h'
  | workerTake w wk tk q hw ha hr hq =>
    refine ⟨L.idle_stopped, ?_, L.notify_pool, ?_⟩
    · intro hr' w' hw' hex
      rcases get_set_cases hex with ⟨_, e⟩ | ⟨_, h2⟩
      · cases e
      · exact L.alive hr' w' hw' h2
    · intro _ _; exact Or.inr (self_active hw rfl)
  | workerPark w wk hw ha hr hq =>
    refine ⟨L.idle_stopped, ?_, L.notify_pool, ?_⟩
    · intro hr' w' hw' hex
      rcases get_set_cases hex with ⟨_, e⟩ | ⟨_, h2⟩
      · cases e
      · exact L.alive hr' w' hw' h2
    · intro h'; exact absurd hq h'
  | workerRunEnd w tk hw =>
    refine ⟨L.idle_stopped, ?_, L.notify_pool, ?_⟩
    · intro hr' w' hw' hex
      rcases get_set_cases hex with ⟨_, e⟩ | ⟨_, h2⟩
      · cases e
      · exact L.alive hr' w' hw' h2
    · intro _ _; exact Or.inr (self_active hw rfl)
  | workerDelete w tk hw =>
    refine ⟨L.idle_stopped, ?_, L.notify_pool, ?_⟩
    · intro hr' w' hw' hex
      rcases get_set_cases hex with ⟨_, e⟩ | ⟨_, h2⟩
      · cases e
      · exact L.alive hr' w' hw' h2
    · intro _ _; exact Or.inr (self_active hw rfl)

theorem live_sstep {s t : State} (hmax : 1 ≤ s.max) (S : StopInv s) (L : Live s) (h : SStep s t) : Live t := by
  cases h with
  | code hs => exact live_step hmax S L hs
  | spurious w hw =>
    refine ⟨L.idle_stopped, ?_, L.notify_pool, ?_⟩
    · intro hr' w' hw' hex
      rcases get_set_cases hex with ⟨_, e⟩ | ⟨_, h2⟩
      · cases e
      · exact L.alive hr' w' hw' h2
    · intro _ _; exact Or.inr (self_active hw rfl)

theorem step_max {s t : State} (h : Step s t) : t.max = s.max := by cases h <;> rfl

theorem sstep_max {s t : State} (h : SStep s t) : t.max = s.max := by
  cases h with
  | code hs => exact step_max hs
  | spurious w hw => rfl

theorem reach_max {max prog s} (h : Reach max prog s) : s.max = max := by
  induction h with
  | init => rfl
  | step _ hs ih => rw [sstep_max hs]; exact ih

theorem reach_live {max prog s} (hmax : 1 ≤ max) (h : Reach max prog s) : Live s := by
  induction h with
  | init => exact live_init max prog
  | step hr hs ih => exact live_sstep (by rw [reach_max hr]; exact hmax) (reach_stop hr) ih hs

/-- **C07 (no lost task)**: while the pool is running, a queued task always has somebody who will get to it:
    a worker that is awake, busy or already notified, or the owner is still inside `start()` about to spawn/notify. -/
theorem queue_progress (max prog s) (hmax : 1 ≤ max) (h : Reach max prog s) (hq : s.queue ≠ []) (hr : s.running = true) :
    ∃ t, Step s t := by
  rcases (reach_live hmax h).prog hq hr with ⟨todo, ho | ho⟩ | ⟨w, wk, hw, ha⟩
  · by_cases hlt : s.pool.length < s.max
    · exact ⟨_, Step.spawnYes s todo ho hlt⟩
    · exact ⟨_, Step.spawnNo s todo ho hlt⟩
  · by_cases hex : ∃ w : Nat, s.ws[w]? = some (Worker.parked false)
    · obtain ⟨w, hw⟩ := hex; exact ⟨_, Step.notifyHit s todo w ho hw⟩
    · exact ⟨_, Step.notifyMiss s todo ho (fun w hw => hex ⟨w, hw⟩)⟩
  · cases hq' : s.queue with
    | nil => exact absurd hq' hq
    | cons tk q =>
      cases wk with
      | check => exact ⟨_, Step.workerTake s w _ tk q hw rfl hr hq'⟩
      | parked n =>
        cases n with
        | true => exact ⟨_, Step.workerTake s w _ tk q hw rfl hr hq'⟩
        | false => simp [Worker.active] at ha
      | running t' => exact ⟨_, Step.workerRunEnd s w t' hw⟩
      | ran t' => exact ⟨_, Step.workerDelete s w t' hw⟩
      | exited => simp [Worker.active] at ha

end TPool
