import Tulz.Proofs.Pool.Stop
namespace TPool

/-! ## C07: run at most once, destroyed at most once and only after the run, FIFO, nothing runs after stop -/

theorem Own.nodup_all {s : State} (O : Own s) : (s.queue ++ hands s.ws ++ s.destroyed).Nodup := by
  have : s.submitted.Nodup := (List.nodup_append.1 O.fresh).1
  exact O.owned.nodup_iff.2 this

theorem Own.queue_nodup {s : State} (O : Own s) : s.queue.Nodup := by
  have := O.nodup_all; rw [List.append_assoc] at this; exact (List.nodup_append.1 this).1

theorem Own.destroyed_nodup {s : State} (O : Own s) : s.destroyed.Nodup :=
  (List.nodup_append.1 O.nodup_all).2.1

theorem Own.mem_submitted {s : State} (O : Own s) {t : Task} (h : t ∈ s.queue ∨ t ∈ hands s.ws ∨ t ∈ s.destroyed) :
    t ∈ s.submitted := by
  apply O.owned.mem_iff.1
  simp only [List.mem_append]
  rcases h with h | h | h
  · exact Or.inl (Or.inl h)
  · exact Or.inl (Or.inr h)
  · exact Or.inr h

theorem mem_hands {ws : List Worker} {w : Nat} {wk : Worker} {t : Task} (hw : ws[w]? = some wk) (ht : wk.task? = some t) :
    t ∈ hands ws := by
  unfold hands; rw [List.mem_filterMap]; exact ⟨wk, List.mem_of_getElem? hw, ht⟩

/-- a task in a worker's hands is neither queued nor destroyed -/
theorem Own.hand_excl {s : State} (O : Own s) {w : Nat} {wk : Worker} {t : Task} (hw : s.ws[w]? = some wk)
    (ht : wk.task? = some t) : t ∉ s.queue ∧ t ∉ s.destroyed := by
  have hm := mem_hands hw ht
  have hn := O.nodup_all
  rw [List.nodup_append] at hn
  obtain ⟨h1, _, h3⟩ := hn
  rw [List.nodup_append] at h1
  obtain ⟨_, _, h12⟩ := h1
  constructor
  · intro hq; exact h12 t hq t hm rfl
  · intro hd; exact h3 t (List.mem_append_right _ hm) t hd rfl

theorem nodup_hands_distinct {ws : List Worker} (hn : (ws.filterMap Worker.task?).Nodup) {a b : Nat} {wa wb : Worker} {t : Task}
    (ha : ws[a]? = some wa) (hb : ws[b]? = some wb) (hta : wa.task? = some t) (htb : wb.task? = some t) (hab : a ≠ b) : False := by
  induction ws generalizing a b with
  | nil => simp at ha
  | cons c l ih =>
    rw [List.filterMap_cons] at hn
    cases a with
    | zero =>
      cases b with
      | zero => exact hab rfl
      | succ b =>
        simp at ha hb; subst ha
        rw [hta] at hn
        have hm : t ∈ l.filterMap Worker.task? := by rw [List.mem_filterMap]; exact ⟨wb, List.mem_of_getElem? hb, htb⟩
        exact (List.nodup_cons.1 hn).1 hm
    | succ a =>
      cases b with
      | zero =>
        simp at ha hb; subst hb
        rw [htb] at hn
        have hm : t ∈ l.filterMap Worker.task? := by rw [List.mem_filterMap]; exact ⟨wa, List.mem_of_getElem? ha, hta⟩
        exact (List.nodup_cons.1 hn).1 hm
      | succ b =>
        simp at ha hb
        have hn' : (l.filterMap Worker.task?).Nodup := by
          cases hc : c.task? with
          | none => rw [hc] at hn; exact hn
          | some u => rw [hc] at hn; exact (List.nodup_cons.1 hn).2
        exact ih hn' ha hb (by omega)

structure Runs (s : State) : Prop where
  runs_nodup : s.runs.Nodup
  runs_not_queued : ∀ t ∈ s.runs, t ∉ s.queue
  runs_sub : ∀ t ∈ s.runs, t ∈ s.submitted
  fin_runs : ∀ t ∈ s.finished, t ∈ s.runs
  running_ok : ∀ (w : Nat) (t : Task), s.ws[w]? = some (.running t) → t ∈ s.runs ∧ t ∉ s.finished
  ran_ok : ∀ (w : Nat) (t : Task), s.ws[w]? = some (.ran t) → t ∈ s.finished
  destroyed_ok : ∀ t ∈ s.destroyed, t ∈ s.runs → t ∈ s.finished
  fifo : (s.runs ++ s.queue).Sublist s.submitted

theorem runs_init (max prog) : Runs (init max prog) := by
  refine ⟨?_, ?_, ?_, ?_, ?_, ?_, ?_, ?_⟩ <;> simp [init]

/-- steps that leave `ws` cells holding the same tasks, and queue/runs/finished/destroyed/submitted untouched -/
theorem runs_frame {s t : State} (R : Runs s)
    (hq : t.queue = s.queue) (hr : t.runs = s.runs) (hf : t.finished = s.finished) (hd : t.destroyed = s.destroyed)
    (hs : t.submitted = s.submitted)
    (hws : ∀ (w : Nat) (wk : Worker), t.ws[w]? = some wk → wk.task? ≠ none → s.ws[w]? = some wk) : Runs t := by
  refine ⟨by rw [hr]; exact R.runs_nodup, by rw [hr, hq]; exact R.runs_not_queued, by rw [hr, hs]; exact R.runs_sub,
    by rw [hf, hr]; exact R.fin_runs, ?_, ?_, by rw [hd, hr, hf]; exact R.destroyed_ok, by rw [hr, hq, hs]; exact R.fifo⟩
  · intro w tk hw; rw [hr, hf]; exact R.running_ok w tk (hws w _ hw (by simp [Worker.task?]))
  · intro w tk hw; rw [hf]; exact R.ran_ok w tk (hws w _ hw (by simp [Worker.task?]))

theorem set_frame {ws : List Worker} {w : Nat} {x : Worker} (hx : x.task? = none) :
    ∀ (w' : Nat) (wk : Worker), (ws.set w x)[w']? = some wk → wk.task? ≠ none → ws[w']? = some wk := by
  intro w' wk h hne
  rcases get_set_cases h with ⟨_, e⟩ | ⟨_, h2⟩
  · subst e; exact absurd hx hne
  · exact h2

theorem runs_step {s t : State} (O : Own s) (R : Runs s) (h : Step s t) : Runs t := by
  cases h with
  | start tk todo ho =>
    have hfresh : tk ∉ s.submitted := by
      have := O.fresh; rw [ho] at this
      simp only [Owner.todo, tasksOf] at this
      rw [List.nodup_append] at this
      intro hm; exact this.2.2 tk hm tk (by simp) rfl
    refine ⟨R.runs_nodup, ?_, ?_, R.fin_runs, R.running_ok, R.ran_ok, R.destroyed_ok, ?_⟩
    · intro t' ht' hq
      show False
      have hq' : t' ∈ s.queue ++ [tk] := hq
      rw [List.mem_append] at hq'
      rcases hq' with h1 | h1
      · exact R.runs_not_queued t' ht' h1
      · simp at h1; subst h1; exact hfresh (R.runs_sub _ ht')
    · intro t' ht'; show t' ∈ s.submitted ++ [tk]; exact List.mem_append_left _ (R.runs_sub t' ht')
    · show (s.runs ++ (s.queue ++ [tk])).Sublist (s.submitted ++ [tk])
      rw [← List.append_assoc]; exact R.fifo.append (List.Sublist.refl _)
  | spawnYes todo ho hlt =>
    refine runs_frame R rfl rfl rfl rfl rfl ?_
    intro w wk hw hne
    have hw' : (s.ws ++ [Worker.check])[w]? = some wk := hw
    by_cases hlt' : w < s.ws.length
    · rw [List.getElem?_append_left hlt'] at hw'; exact hw'
    · by_cases he : w = s.ws.length
      · subst he; simp at hw'; subst hw'; simp [Worker.task?] at hne
      · rw [List.getElem?_eq_none (by simp; omega)] at hw'; cases hw'
  | spawnNo todo ho hlt => exact runs_frame R rfl rfl rfl rfl rfl (fun _ _ h _ => h)
  | notifyHit todo w ho hw => exact runs_frame R rfl rfl rfl rfl rfl (set_frame rfl)
  | notifyMiss todo ho hn => exact runs_frame R rfl rfl rfl rfl rfl (fun _ _ h _ => h)
  | clear todo ho =>
    refine ⟨R.runs_nodup, (by intro _ _ h; cases h), R.runs_sub, R.fin_runs, R.running_ok, R.ran_ok, ?_, ?_⟩
    · intro t' ht' hr
      have ht'' : t' ∈ s.destroyed ++ s.queue := ht'
      rw [List.mem_append] at ht''
      rcases ht'' with h1 | h1
      · exact R.destroyed_ok t' h1 hr
      · exact absurd h1 (R.runs_not_queued t' hr)
    · show (s.runs ++ []).Sublist s.submitted
      exact (List.sublist_append_left _ _ |>.trans R.fifo) |> fun h => by simpa using h
  | stop todo ho => exact runs_frame R rfl rfl rfl rfl rfl (fun _ _ h _ => h)
  | stopNotify todo ho =>
    refine runs_frame R rfl rfl rfl rfl rfl ?_
    intro w wk hw hne
    have hw' : (s.ws.map wakeAll)[w]? = some wk := hw
    rw [List.getElem?_map] at hw'
    cases hq : s.ws[w]? with
    | none => rw [hq] at hw'; cases hw'
    | some q =>
      rw [hq] at hw'; simp at hw'; subst hw'
      cases q <;> simp [wakeAll, Worker.task?] at hne ⊢
  | joinOne w rem todo ho hw => exact runs_frame R rfl rfl rfl rfl rfl (fun _ _ h _ => h)
  | joinDone todo ho => exact runs_frame R rfl rfl rfl rfl rfl (fun _ _ h _ => h)
  | stopClear todo ho =>
    refine ⟨R.runs_nodup, (by intro _ _ h; cases h), R.runs_sub, R.fin_runs, R.running_ok, R.ran_ok, ?_, ?_⟩
    · intro t' ht' hr
      have ht'' : t' ∈ s.destroyed ++ s.queue := ht'
      rw [List.mem_append] at ht''
      rcases ht'' with h1 | h1
      · exact R.destroyed_ok t' h1 hr
      · exact absurd h1 (R.runs_not_queued t' hr)
    · show (s.runs ++ []).Sublist s.submitted
      exact (List.sublist_append_left _ _ |>.trans R.fifo) |> fun h => by simpa using h
  | workerExit w wk hw ha hr => exact runs_frame R rfl rfl rfl rfl rfl (set_frame rfl)
  | workerPark w wk hw ha hr hq => exact runs_frame R rfl rfl rfl rfl rfl (set_frame rfl)
  | workerTake w wk tk q hw ha hr hq =>
    have hqn := O.queue_nodup; rw [hq] at hqn
    have htq : tk ∈ s.queue := by rw [hq]; simp
    have hnr : tk ∉ s.runs := fun h' => R.runs_not_queued tk h' htq
    have hnf : tk ∉ s.finished := fun h' => hnr (R.fin_runs tk h')
    refine ⟨?_, ?_, ?_, ?_, ?_, ?_, ?_, ?_⟩
    · show (s.runs ++ [tk]).Nodup
      rw [List.nodup_append]
      exact ⟨R.runs_nodup, by simp, fun a ha b hb => by simp at hb; subst hb; intro e; subst e; exact hnr ha⟩
    · intro t' ht' hq'
      have ht'' : t' ∈ s.runs ++ [tk] := ht'
      have hq'' : t' ∈ q := hq'
      rw [List.mem_append] at ht''
      rcases ht'' with h1 | h1
      · exact R.runs_not_queued t' h1 (by rw [hq]; exact List.mem_cons_of_mem _ hq'')
      · simp at h1; subst h1; exact (List.nodup_cons.1 hqn).1 hq''
    · intro t' ht'
      have ht'' : t' ∈ s.runs ++ [tk] := ht'
      rw [List.mem_append] at ht''
      rcases ht'' with h1 | h1
      · exact R.runs_sub t' h1
      · simp at h1; subst h1; exact O.mem_submitted (Or.inl htq)
    · intro t' ht'; show t' ∈ s.runs ++ [tk]; exact List.mem_append_left _ (R.fin_runs t' ht')
    · intro w' t' hw'
      show t' ∈ s.runs ++ [tk] ∧ t' ∉ s.finished
      rcases get_set_cases hw' with ⟨_, e⟩ | ⟨_, h2⟩
      · cases e; exact ⟨by simp, hnf⟩
      · have := R.running_ok w' t' h2; exact ⟨List.mem_append_left _ this.1, this.2⟩
    · intro w' t' hw'
      rcases get_set_cases hw' with ⟨_, e⟩ | ⟨_, h2⟩
      · cases e
      · exact R.ran_ok w' t' h2
    · intro t' ht' hr'
      have hr'' : t' ∈ s.runs ++ [tk] := hr'
      rw [List.mem_append] at hr''
      rcases hr'' with h1 | h1
      · exact R.destroyed_ok t' ht' h1
      · simp at h1; subst h1
        -- tk is queued, hence not destroyed
        have hn := O.nodup_all
        rw [List.nodup_append] at hn
        exact absurd rfl (hn.2.2 t' (List.mem_append_left _ htq) t' ht')
    · show (s.runs ++ [tk] ++ q).Sublist s.submitted
      have := R.fifo; rw [hq] at this; simpa [List.append_assoc] using this
  | workerRunEnd w tk hw =>
    have hrk := R.running_ok w tk hw
    refine ⟨R.runs_nodup, R.runs_not_queued, R.runs_sub, ?_, ?_, ?_, ?_, R.fifo⟩
    · intro t' ht'
      have ht'' : t' ∈ s.finished ++ [tk] := ht'
      rw [List.mem_append] at ht''
      rcases ht'' with h1 | h1
      · exact R.fin_runs t' h1
      · simp at h1; subst h1; exact hrk.1
    · intro w' t' hw'
      show t' ∈ s.runs ∧ t' ∉ s.finished ++ [tk]
      rcases get_set_cases hw' with ⟨_, e⟩ | ⟨hne, h2⟩
      · cases e
      · have := R.running_ok w' t' h2
        refine ⟨this.1, ?_⟩
        intro hm; rw [List.mem_append] at hm
        rcases hm with h1 | h1
        · exact this.2 h1
        · simp at h1; subst h1
          -- two different workers cannot hold the same task
          have hn := O.nodup_all
          rw [List.nodup_append] at hn
          have hh := (List.nodup_append.1 hn.1).2.1
          exact nodup_hands_distinct (t := t') hh h2 hw rfl rfl hne
    · intro w' t' hw'
      show t' ∈ s.finished ++ [tk]
      rcases get_set_cases hw' with ⟨_, e⟩ | ⟨_, h2⟩
      · cases e; simp
      · exact List.mem_append_left _ (R.ran_ok w' t' h2)
    · intro t' ht' hr'; show t' ∈ s.finished ++ [tk]; exact List.mem_append_left _ (R.destroyed_ok t' ht' hr')
  | workerDelete w tk hw =>
    have hfin := R.ran_ok w tk hw
    refine ⟨R.runs_nodup, R.runs_not_queued, R.runs_sub, R.fin_runs, ?_, ?_, ?_, R.fifo⟩
    · intro w' t' hw'
      rcases get_set_cases hw' with ⟨_, e⟩ | ⟨_, h2⟩
      · cases e
      · exact R.running_ok w' t' h2
    · intro w' t' hw'
      rcases get_set_cases hw' with ⟨_, e⟩ | ⟨_, h2⟩
      · cases e
      · exact R.ran_ok w' t' h2
    · intro t' ht' hr'
      have ht'' : t' ∈ s.destroyed ++ [tk] := ht'
      rw [List.mem_append] at ht''
      rcases ht'' with h1 | h1
      · exact R.destroyed_ok t' h1 hr'
      · simp at h1; subst h1; exact hfin

theorem runs_sstep {s t : State} (O : Own s) (R : Runs s) (h : SStep s t) : Runs t := by
  cases h with
  | code hs => exact runs_step O R hs
  | spurious w hw => exact runs_frame R rfl rfl rfl rfl rfl (set_frame rfl)

end TPool

